"""C06 — views and statistics are live and mutually consistent.

For every history (Hypergraph, SimplicialComplex, DiHypergraph) the check creates the views `H.nodes`, `H.edges`,
EVERY (stat x argument combination) of the degree / size families (order=, weight=, degree=, missing=; by keyword or
positionally) and the multi-stat objects ONCE, before the first call, and keeps them across every mutation
("views held across mutations").  After every call it reads the held objects again and

  (i)  evaluates the property's own predicate on the implementation: the held objects agree with freshly
       constructed views (liveness), list the current IDs in insertion order, degree = |memberships|,
       size = |members|, order = size - 1, sum(degree) = sum(size) (directed: in/out/total degrees and head/tail
       sizes against the directed incidence), all output formats of one stat (and of a multi-stat table, transposed
       or not) agree and follow view order, the IDStat aggregates equal their definitions on asdict() (with the
       tie-breaking the docstrings promise), filterby / filterby_attr return exactly the IDs satisfying the
       comparison (brute force) in view order, neighbors / lookup / duplicates / isolates / singletons / empty /
       maximal agree with brute-force set-theoretic definitions;
  (ii) compares every observation with the Lean model's evaluation at the current state (driver C06: the
       Hypergraph histories are replayed op by op through `HG.step`; SimplicialComplex states — same view
       classes — are installed from their tables; DiHypergraph states are installed into the directed
       twin of the model, C06/DiViews.lean).  The driver runs in the background while the next class is executed.

Each observation step is guarded: a failure is reported under the xgi call that misbehaved; `observation-crashed:*`
(run_history) is the last resort and never fires on the unchanged tree.
"""
import copy
import json
import math
import os
import time
import warnings
from concurrent.futures import ThreadPoolExecutor

import numpy as np
import xgi
from xgi.core.views import DiEdgeView, DiNodeView, EdgeView, NodeView
from xgi.exception import IDNotFound, XGIError

from .. import dhg as MD
from .. import hg as MH
from .. import sc as MS
from ..core import TRUSTED_COMMON, Infra, build_and_audit, canon, unlisted_violations, enc_attrs, enc_attrs_req, enc_id, enc_val, enc_val_req, finish, idkey, jhash, run_driver
from ..fn import approx_equal
from ..sm import load_corpus, shrink
from . import c01 as C01
from . import c02 as C02

MODES = ["eq", "neq", "lt", "gt", "leq", "geq", "between"]
ABSENT = "$absent"

# ----------------------------------------------------------------------------- small helpers


def sids(it):
    return sorted((enc_id(x) for x in it), key=idkey)


def errname(e):
    if isinstance(e, (XGIError, IDNotFound)):
        return "err:lib"
    if isinstance(e, TypeError):
        return "err:type"
    if isinstance(e, ValueError):
        return "err:value"
    return "err:" + type(e).__name__


def attempt(f):
    try:
        return "ok", f()
    except Exception as e:  # noqa
        return errname(e), e


def guard(ob, site, name, field, f):
    """run one observation step.  Every xgi call inside a step is already wrapped (`attempt`) and its result is
    type-checked before use; a step that crashes nevertheless is itself the failure, named after the step (so
    the catch-all `observation-crashed:*` of run_history is the last resort only)"""
    try:
        return f()
    except Infra:
        raise
    except Exception as e:  # noqa
        ob.fail(site, f"{name}-unreadable:{type(e).__name__}", f"{type(e).__name__}: {e}", field)
        return "err:" + type(e).__name__


def isnum(v):
    return isinstance(v, (int, float, np.integer, np.floating)) and not isinstance(v, (bool, np.bool_))


def pycmp(mode, v, x, y):
    """the comparison a filter mode stands for, with Python's own semantics (may raise TypeError)"""
    if mode == "eq":
        return v == x
    if mode == "neq":
        return v != x
    if mode == "lt":
        return v < x
    if mode == "gt":
        return v > x
    if mode == "leq":
        return v <= x
    if mode == "geq":
        return v >= x
    return x <= v <= y


def scalar(v):
    return v is None or isinstance(v, (int, float, str, np.integer, np.floating)) and not isinstance(v, bool)


def plain(v):
    """numpy / pandas scalar -> Python scalar"""
    if isinstance(v, np.generic):
        return v.item()
    return v


def homogeneous(vals):
    return bool(vals) and (all(isinstance(v, (int, np.integer)) and not isinstance(v, bool) for v in vals)
                           or all(isinstance(v, (float, np.floating)) for v in vals)
                           or all(isinstance(v, str) for v in vals))


def enc_sv(v, kind):
    """stat value -> the JSON form the model prints (after canon)"""
    if kind == "attrs":
        return enc_attrs(v)
    if kind == "val":
        return enc_val(plain(v))
    return plain(v)            # int | float


def agree(m, i):
    """canonicalised model value vs implementation value ("$skip" = not comparable on this input)"""
    if isinstance(i, str) and i == "$skip":
        return True
    if isinstance(m, str) and m == "unmodelled":
        return True
    if isinstance(m, dict) and set(m) == {"$q"}:
        return not isinstance(i, (list, dict, str)) and i is not None and approx_equal(i, m["$q"])
    if isinstance(m, dict):
        return isinstance(i, dict) and set(m) == set(i) and all(agree(m[k], i[k]) for k in m)
    if isinstance(m, list):
        return isinstance(i, list) and len(m) == len(i) and all(agree(a, b) for a, b in zip(m, i))
    if isinstance(m, bool) or isinstance(i, bool):
        return m is i
    return m == i


# ----------------------------------------------------------------------------- ground truth from fresh views

class Truth:
    """the current incidence read through freshly constructed views (a fresh view cannot be stale)"""

    def __init__(self, H, directed):
        self.directed = directed
        if directed:
            self.nv, self.ev = DiNodeView(H), DiEdgeView(H)
        else:
            self.nv, self.ev = NodeView(H), EdgeView(H)
        self.nodes, self.edges = list(self.nv), list(self.ev)
        if directed:
            dm = self.ev.dimembers(dtype=dict)
            self.tail = {e: set(dm[e][0]) for e in self.edges}
            self.head = {e: set(dm[e][1]) for e in self.edges}
            ds = self.nv.dimemberships()
            self.min = {n: set(ds[n][0]) for n in self.nodes}
            self.mout = {n: set(ds[n][1]) for n in self.nodes}
            self.mem = {e: self.tail[e] | self.head[e] for e in self.edges}
            self.memb = {n: self.min[n] | self.mout[n] for n in self.nodes}
        else:
            mm = self.ev.members(dtype=dict)
            self.mem = {e: set(mm[e]) for e in self.edges}
            ms = self.nv.memberships()
            self.memb = {n: set(ms[n]) for n in self.nodes}
        self.nattr = {n: copy.deepcopy(self.nv[n]) for n in self.nodes}     # later calls mutate the live dicts
        self.eattr = {e: copy.deepcopy(self.ev[e]) for e in self.edges}

    def keys(self, k):
        return self.nodes if k == "n" else self.edges

    def tab(self, k):
        return self.memb if k == "n" else self.mem

    def attr(self, k):
        return self.nattr if k == "n" else self.eattr

    def wellformed(self):
        """the two-way incidence invariant (C01 / C02); C06 is evaluated on states that satisfy it"""
        if len(set(self.nodes)) != len(self.nodes) or len(set(self.edges)) != len(self.edges):
            return False
        if None in self.nodes or None in self.edges:
            return False
        if self.directed:
            pairs = ((self.tail, self.mout), (self.head, self.min))
        else:
            pairs = ((self.mem, self.memb),)
        for em, nm in pairs:
            for e, ms in em.items():
                for n in ms:
                    if n not in nm or e not in nm[n]:
                        return False
            for n, es in nm.items():
                for e in es:
                    if e not in em or n not in em[e]:
                        return False
        return True

    def tables(self):
        """request form of the state for the driver's `load` / `dload`"""
        r = {"nodes": [enc_id(n) for n in self.nodes], "edges": [enc_id(e) for e in self.edges],
             "nattr": [[enc_id(n), enc_attrs_req(self.nattr[n])] for n in self.nodes],
             "eattr": [[enc_id(e), enc_attrs_req(self.eattr[e])] for e in self.edges]}
        if self.directed:
            r.update(tail=[[enc_id(e), sids(self.tail[e])] for e in self.edges],
                     head=[[enc_id(e), sids(self.head[e])] for e in self.edges],
                     membIn=[[enc_id(n), sids(self.min[n])] for n in self.nodes],
                     membOut=[[enc_id(n), sids(self.mout[n])] for n in self.nodes])
        else:
            r.update(mem=[[enc_id(e), sids(self.mem[e])] for e in self.edges],
                     memb=[[enc_id(n), sids(self.memb[n])] for n in self.nodes])
        return r


# ----------------------------------------------------------------------------- parameters

def gen_params(rng):
    """per-history arguments of the held stat objects"""
    return {"k": rng.choice([0, 1, 1, 2, 3, -1]), "w": rng.choice(["w", "weight", "m"]), "d": rng.choice([0, 1, 2, 3]),
            "attr": rng.choice(MH.ATTR_KEYS), "missing": rng.choice([None, None, 0, 1, "r"]),
            "pos": rng.random() < 0.3, "kw": rng.random() < 0.5, "mo": rng.choice([2, 2, 3]), "numw": rng.random() < 0.65,
            "fixsp": rng.random() < 0.5, "rot": rng.randrange(len(OTHER_N))}


def numeric_weights(ops, w, rng):
    """make the values stored under the weight key `w` integers, wherever an op carries attributes (in place).
    Without this most histories sooner or later hold a string / None / list under `w`, and every weighted degree
    over the full view raises TypeError from then on (correctly, but nothing numeric is compared any more)."""
    pick = lambda v: v if isinstance(v, int) and not isinstance(v, bool) else rng.choice([0, 1, 2, 3, 5])

    def fix_attrs(l):
        if isinstance(l, list):
            for p in l:
                if isinstance(p, list) and len(p) == 2 and p[0] == w:
                    p[1] = pick(p[1])

    def walk(o):
        if isinstance(o, dict):
            if o.get("name") == w:
                if "value" in o:
                    o["value"] = pick(o["value"])
                if isinstance(o.get("values"), list):
                    for p in o["values"]:
                        if isinstance(p, list) and len(p) == 2:
                            p[1] = pick(p[1])
            if o.get("shape") == "dict_of_dict" and isinstance(o.get("values"), list):
                for p in o["values"]:
                    if isinstance(p, list) and len(p) == 2:
                        fix_attrs(p[1])
            for k, v in o.items():
                if k == "attr":
                    fix_attrs(v)
                elif k not in ("values", "value"):
                    walk(v)
        elif isinstance(o, list):
            for x in o:
                walk(x)
    walk(ops)
    return ops


def gen_step(rng, T):
    """per-step arguments of the queries evaluated on the held views"""
    half = lambda: [rng.randint(0, 7), 2]
    ax = rng.choice([0, 1, 2, "r", "g"])
    ay = rng.choice([1, 2, "g", "s"]) if rng.random() < 0.3 else (ax if isinstance(ax, str) else ax + rng.randint(0, 2))
    x = rng.randint(0, 3)
    qx, qy = half(), half()

    def bunch(ids, universe):
        r = rng.random()
        pool = list(ids) or list(universe)
        b = [rng.choice(pool) for _ in range(rng.randint(0, 4))] if pool else []
        if r < 0.12:
            b.append(rng.choice(["zz", 99, -7]))          # an ID that is not in the network
        return [enc_id(i) for i in b]

    def look(ids, tab, other):
        r = rng.random()
        if ids and r < 0.6:
            return sids(tab[rng.choice(ids)])
        return sids(set(rng.choice(other) for _ in range(rng.randint(0, 3)))) if other else []
    return {"x": x, "y": x + rng.randint(0, 2) if rng.random() < 0.85 else x - 1, "qx": qx,
            "qy": qy if qy[0] >= qx[0] or rng.random() < 0.2 else qx, "ax": ax, "ay": ay,
            "sp": rng.choice([1, 2, 2, 3, 0]),
            "nbunch": bunch(T.nodes, [0, 1]), "ebunch": bunch(T.edges, [0, 1]),
            "nlookup": look(T.nodes, T.memb, T.edges), "elookup": look(T.edges, T.mem, T.nodes)}


# ----------------------------------------------------------------------------- held objects

DEG_U, DEG_D = ["degree"], ["degree", "in_degree", "out_degree"]
SIZE_U = ["size", "order"]
SIZE_D = ["size", "order", "tail_size", "tail_order", "head_size", "head_order"]
KIND = {"attr": "val", "attr_d": "val", "attrs": "attrs"}      # everything else is numeric
# multi-stat objects: a mixed one (name given as string, stat object with arguments, attribute column) and an
# all-numeric one (so that asnumpy() is a plain 2-d table); names = keys of the held single stats
NMULTI = ["degree", "degree_o", "attr"]
EMULTI = ["size", "order_d", "attr"]
NMULTI2 = {False: ["degree", "degree_o", "and"], True: ["in_degree", "out_degree_o", "degree"]}
EMULTI2 = {False: ["size", "order_d", "order"], True: ["tail_size", "head_order_d", "size"]}
# aggregates that the model evaluates too (the predicate covers every numeric held stat)
NAGG = {False: ["degree", "degree_o", "and"], True: ["degree", "in_degree", "out_degree_o"]}
EAGG = {False: ["size", "order_d"], True: ["size", "tail_size", "head_order_d"]}
# the remaining statistics of the undirected views.  Their VALUES are other properties' subject (C09 / C14 / C15); what C06
# says about them is what it says about every statistic: the formats of one stat agree and follow view order, a stat
# object held across edits shows what a fresh one shows, a stat on a filtered view is the restriction of the stat.
OTHER_N = ["clustering_coefficient", "local_clustering_coefficient", "two_node_clustering_coefficient",
           "clique_eigenvector_centrality", "h_eigenvector_centrality", "z_eigenvector_centrality", "node_edge_centrality",
           "katz_centrality", "local_simplicial_fraction", "local_edit_simpliciality", "local_face_edit_simpliciality"]
OTHER_E = ["node_edge_centrality"]
# random start vector of the eigensolver / the power iteration: two evaluations of the same stat on the same network differ
# (h_eigenvector: up to 0.3; z_eigenvector: 0.25 vs 0.28 on a 4-node network; clique_eigenvector: the SIGN of the
# eigenvector on a 2-node network) — C15 / C17's subject;
# only keys and shapes are compared for these
UNSTABLE = {"h_eigenvector_centrality", "clique_eigenvector_centrality", "z_eigenvector_centrality"}


def nstat_names(directed):
    out = []
    for b in (DEG_D if directed else DEG_U):
        out += [b, b + "_o", b + "_w", b + "_ow"]
    if not directed:
        out.append("and")
    return out + ["attr", "attr_d", "attrs"]


def estat_names(directed):
    out = []
    for b in (SIZE_D if directed else SIZE_U):
        out += [b, b + "_d"]
    return out + ["attr", "attr_d", "attrs"]


def node_stats(v, P, directed):
    """EVERY (stat x argument combination): each degree function with (), (order), (weight), (order, weight);
    arguments by keyword or — P["pos"] — positionally in signature order"""
    k, w, a, mi, pos = P["k"], P["w"], P["attr"], P["missing"], P.get("pos", False)
    s = {}
    for b in (DEG_D if directed else DEG_U):
        base = getattr(v, b)
        s[b] = base
        s[b + "_o"] = base(k) if pos else base(order=k)
        s[b + "_w"] = base(None, w) if pos else base(weight=w)
        s[b + "_ow"] = base(k, w) if pos else base(order=k, weight=w)
    if not directed:
        s["and"] = v.average_neighbor_degree
    s["attr"] = v.attrs(a, mi) if pos or not P.get("kw", False) else v.attrs(attr=a, missing=mi)
    s["attr_d"] = v.attrs(a)                     # `missing` left at its default
    s["attrs"] = v.attrs
    return s


def edge_stats(v, P, directed):
    d, a, mi, pos = P["d"], P["attr"], P["missing"], P.get("pos", False)
    s = {}
    for b in (SIZE_D if directed else SIZE_U):
        base = getattr(v, b)
        s[b] = base
        s[b + "_d"] = base(d) if pos else base(degree=d)
    s["attr"] = v.attrs(a, mi) if pos or not P.get("kw", False) else v.attrs(attr=a, missing=mi)
    s["attr_d"] = v.attrs(a)
    s["attrs"] = v.attrs
    return s


class Held:
    """the objects created once at the start of a history"""

    def __init__(self, H, P, directed):
        self.H, self.P, self.directed = H, P, directed
        self.nv, self.ev = H.nodes, H.edges
        self.ns = node_stats(self.nv, P, directed)
        self.es = edge_stats(self.ev, P, directed)
        self.nmulti = self.nv.multi(["degree", self.ns["degree_o"], self.ns["attr"]])
        self.emulti = self.ev.multi([self.es["size"], self.es["order_d"], self.es["attr"]])
        # numeric tables: first column by NAME (dispatch through the stats module), the others as held objects
        n2, e2 = NMULTI2[directed], EMULTI2[directed]
        self.nmulti2 = self.nv.multi([n2[0]] + [self.ns[k] for k in n2[1:]])
        self.emulti2 = self.ev.multi([e2[0]] + [self.es[k] for k in e2[1:]])
        self.filtered = {}        # "n"/"e" -> (ids, held filtered view, held stat on it), created when IDs exist
        self.other = {} if directed else {"n": {nm: getattr(self.nv, nm) for nm in OTHER_N}, "e": {nm: getattr(self.ev, nm) for nm in OTHER_E}}
        # `from_view(view)` with the default bunch ("all IDs"), held like the views themselves
        self.nall = attempt(lambda: type(self.nv).from_view(self.nv))
        self.eall = attempt(lambda: type(self.ev).from_view(self.ev))

    def held_filtered(self, ob, T):
        """filtered views (and a stat on each) held across mutations: while every ID they name is still present
        they must keep listing those IDs and their stats must show the CURRENT values; once an ID they name has
        been removed they may raise or be stale (not counted, DESIGN §7) — they are dropped and re-created"""
        for k, view, ids, stat, tab in (("n", self.nv, T.nodes, "degree", T.memb), ("e", self.ev, T.edges, "size", T.mem)):
            cur = self.filtered.get(k)
            if cur is not None and not set(cur[0]) <= set(ids):
                cur = None
                self.filtered.pop(k)
            if cur is None:
                if len(ids) >= 2:
                    b = [ids[-1], ids[0]]
                    s0, fv = attempt(lambda: view(b))
                    if s0 != "ok":
                        # a view held across mutations must accept the IDs that exist now
                        ob.fail(f"{type(view).__name__}.__call__", "held-view-rejects-current-ids",
                                f"held view called with current ids {b}: {s0} {fv}", "held_filtered")
                        continue
                    self.filtered[k] = (list(fv), fv, getattr(fv, stat))
                continue
            fids, fv, st = cur
            s1, got = attempt(lambda: list(fv))
            s2, d = attempt(st.asdict)
            vn = type(fv).__name__
            if s1 != "ok" or got != fids:
                ob.fail(f"{vn}.__iter__", "held-filtered-view-changed", f"created as {fids}, now {s1} {got}", "held_filtered")
            if s2 != "ok" or d != {i: len(tab[i]) for i in fids}:
                ob.fail("IDStat.asdict", "held-stat-on-filtered-view-stale", f"{stat} on held view {fids}: {s2} {d}, incidence says "
                        f"{ {i: len(tab[i]) for i in fids} }", "held_filtered")


# ----------------------------------------------------------------------------- brute-force definitions

def truth_stats(T, P, k):
    """expected value of every stat at every ID, straight from the incidence; a value is the exception class
    name ("err:type") when the definition itself cannot be evaluated (non-numeric weights)"""
    K, W, D, A, MI = P["k"], P["w"], P["d"], P["attr"], P["missing"]
    out = {}
    if k == "n":
        def deg(table, order=None, weight=None):
            res = {}
            for n in T.nodes:
                es = [e for e in table[n] if order is None or len(T.mem[e]) == order + 1]
                if weight is None:
                    res[n] = len(es)
                    continue
                ws = [T.eattr[e].get(weight, 1) for e in es]
                if all(isinstance(w, int) and not isinstance(w, bool) for w in ws):
                    res[n] = sum(ws)
                elif any(not isinstance(w, (int, float)) for w in ws):
                    res[n] = "err:type"          # sum() over a non-number raises: a stat over a view holding n raises
                else:
                    res[n] = "$any"              # bool / float weights: outside the attribute domain
            return res
        tables = {"degree": T.memb}
        if T.directed:
            tables.update(in_degree=T.min, out_degree=T.mout)
        for b, tab in tables.items():
            out[b], out[b + "_o"] = deg(tab), deg(tab, K)
            out[b + "_w"], out[b + "_ow"] = deg(tab, None, W), deg(tab, K, W)
        out["attr"] = {n: T.nattr[n].get(A, MI) for n in T.nodes}
        out["attr_d"] = {n: T.nattr[n].get(A) for n in T.nodes}
        out["attrs"] = {n: T.nattr[n] for n in T.nodes}
        if not T.directed:
            nb = {n: nbrs(T, "n", n, 1) for n in T.nodes}
            out["and"] = {n: (sum(len(T.memb[m]) for m in nb[n]) / len(nb[n]) if nb[n] else 0) for n in T.nodes}
    else:
        dg = {n: len(T.memb[n]) for n in T.nodes}
        cnt = lambda ms: sum(1 for n in ms if dg.get(n) == D)
        tables = {"": T.mem}
        if T.directed:
            tables.update(tail_=T.tail, head_=T.head)
        for pre, tab in tables.items():
            out[pre + "size"] = {e: len(tab[e]) for e in T.edges}
            out[pre + "order"] = {e: len(tab[e]) - 1 for e in T.edges}
            out[pre + "size_d"] = {e: cnt(tab[e]) for e in T.edges}
            out[pre + "order_d"] = {e: cnt(tab[e]) - 1 for e in T.edges}
        out["attr"] = {e: T.eattr[e].get(A, MI) for e in T.edges}
        out["attr_d"] = {e: T.eattr[e].get(A) for e in T.edges}
        out["attrs"] = {e: T.eattr[e] for e in T.edges}
    return out


def nbrs(T, k, i, s):
    """IDs other than i sharing a bipartite neighbour with i (and, for s != 1, at least s of them)"""
    tab, bi = T.tab(k), T.tab("e" if k == "n" else "n")
    out = set()
    for b in tab[i]:
        for j in bi[b]:
            if j != i and (s == 1 or len(tab[i] & tab[j]) >= s):
                out.add(j)
    return out


def classes(T, k):
    cl = {}
    for i in T.keys(k):
        cl.setdefault(frozenset(T.tab(k)[i]), []).append(i)
    return list(cl.values())


def maximal_def(T, strict):
    out = []
    for e in T.edges:
        if strict:
            ok = not any(f != e and T.mem[e] <= T.mem[f] for f in T.edges)
        else:
            ok = not any(T.mem[e] < T.mem[f] for f in T.edges)
        if ok:
            out.append(e)
    return out


# ----------------------------------------------------------------------------- observation + predicate

class Obs:
    def __init__(self):
        self.o = {}
        self.fails = []          # (site, failure_class, detail, field)

    def fail(self, site, cls, detail, field):
        self.fails.append((site, cls, str(detail)[:400], field))


def no_pandas_index(i):
    """IDs a pandas index cannot show: a tuple becomes a MultiIndex level, an int beyond the float range makes
    pd.Series({10**309: 1.0, 0: 2.0}) itself raise OverflowError (pandas is an oracle here)"""
    return isinstance(i, tuple) or (isinstance(i, int) and not isinstance(i, bool) and abs(i) >= 2 ** 1023)


def same_vals(a, b):
    """stat values equal (floats by the float rule; NaN never appears)"""
    if isinstance(a, float) or isinstance(b, float):
        try:
            return abs(float(a) - float(b)) <= 1e-9 * max(1.0, abs(float(b)))
        except Exception:  # noqa
            return False
    return type(plain(a)) is type(plain(b)) and a == b if isinstance(a, bool) or isinstance(b, bool) else a == b


def stat_forms(ob, stat, view_ids, expected, kind, cname, field, pandas=True):
    """read one stat object in all formats; check them against `expected` (dict | "err:…") and each other.
    Returns the observation (model shape)."""
    st, d = attempt(stat.asdict)
    if isinstance(expected, dict) and any(isinstance(expected[i], str) and expected[i] == "err:type" for i in view_ids):
        expected = "err:type"
    if isinstance(expected, str):                   # the definition raises (non-numeric weights)
        if st != expected:
            ob.fail(f"{cname}.asdict", "wrong-exception", f"expected {expected}, got {st}", field)
        return st if st != "ok" else "$skip"
    if st != "ok":
        ob.fail(f"{cname}.asdict", "raises", f"{st}: {d}", field)
        return st
    if not isinstance(d, dict):
        ob.fail(f"{cname}.asdict", "wrong-type", f"asdict() returned {type(d).__name__}", field)
        return "err:wrong-type"
    vals_free = any(isinstance(v, str) and v == "$any" for v in expected.values())
    if list(d.keys()) != list(view_ids):
        ob.fail(f"{cname}.asdict", "keys-not-view-order", f"keys {list(d)} view {list(view_ids)}", field)
    elif not vals_free and not all(same_vals(d[i], expected[i]) for i in view_ids):
        bad = next(i for i in view_ids if not same_vals(d[i], expected[i]))
        ob.fail(f"{cname}.asdict", "wrong-value", f"id {bad!r}: stat says {d[bad]!r}, incidence says {expected[bad]!r}", field)
    vals = [d[i] for i in d]
    out = {"asdict": [[enc_id(i), enc_sv(v, kind)] for i, v in d.items()]}
    # aslist
    st, l = attempt(stat.aslist)
    if st != "ok":
        ob.fail(f"{cname}.aslist", "raises", f"{st}: {l}", field); out["aslist"] = st
    elif not isinstance(l, list):
        ob.fail(f"{cname}.aslist", "wrong-type", f"aslist() returned {type(l).__name__}", field); out["aslist"] = "err:wrong-type"
    else:
        if len(l) != len(vals) or not all(same_vals(a, b) for a, b in zip(l, vals)):
            ob.fail(f"{cname}.aslist", "differs-from-asdict", f"aslist {l} asdict values {vals}", field)
        out["aslist"] = [enc_sv(v, kind) for v in l]
    # asnumpy: np.array(list) is the list when the values are scalars of one type (or dtype=object)
    st, a = attempt(stat.asnumpy)
    comparable = all(scalar(v) for v in vals)
    if st != "ok":
        if comparable:
            ob.fail(f"{cname}.asnumpy", "raises", f"{st}: {a}", field); out["asnumpy"] = st
        else:
            out["asnumpy"] = "$skip"
    elif not isinstance(a, np.ndarray):
        ob.fail(f"{cname}.asnumpy", "wrong-type", f"asnumpy() returned {type(a).__name__}", field); out["asnumpy"] = "err:wrong-type"
    else:
        if comparable and (a.dtype == object or homogeneous(vals) or not vals):
            al = a.tolist()
            if not isinstance(al, list) or len(al) != len(vals) or not all(same_vals(x, y) for x, y in zip(al, vals)):
                ob.fail(f"{cname}.asnumpy", "differs-from-aslist", f"asnumpy {al} aslist {vals}", field)
                out["asnumpy"] = "err:differs"
            else:
                out["asnumpy"] = [enc_sv(v, kind) for v in al]
        else:
            out["asnumpy"] = "$skip"
    # aspandas (pandas turns tuple keys into a MultiIndex: tuple IDs are outside what a Series index shows)
    if not pandas or any(no_pandas_index(i) for i in view_ids):
        out["aspandas"] = "$skip"
        return out
    st, s = attempt(stat.aspandas)
    if st != "ok":
        ob.fail(f"{cname}.aspandas", "raises", f"{st}: {s}", field); out["aspandas"] = st
    elif not hasattr(s, "index") or not hasattr(s, "tolist"):
        ob.fail(f"{cname}.aspandas", "wrong-type", f"aspandas() returned {type(s).__name__}", field); out["aspandas"] = "err:wrong-type"
    else:
        idx = s.index.tolist()
        pv = "$skip"
        if sorted(map(repr, idx)) != sorted(map(repr, view_ids)):
            ob.fail(f"{cname}.aspandas", "index-not-the-view", f"index {idx} view {list(view_ids)}", field)
        elif idx != list(view_ids):
            ob.fail(f"{cname}.aspandas", "index-not-view-order", f"index {idx} view order {list(view_ids)}", field)
        if comparable and homogeneous(vals):
            sv = [plain(x) for x in s.tolist()]
            byid = dict(zip(idx, sv))
            if set(byid) == set(d) and not all(same_vals(byid[i], d[i]) for i in d):
                ob.fail(f"{cname}.aspandas", "values-differ-from-asdict", f"series {byid} asdict {d}", field)
            pv = [enc_sv(v, kind) for v in sv]
        nm = attempt(lambda: stat.name)
        if getattr(s, "name", None) != nm[1]:
            ob.fail(f"{cname}.aspandas", "series-name", f"{getattr(s, 'name', None)!r} vs {nm[1]!r}", field)
        out["aspandas"] = {"index": [enc_id(i) for i in idx], "values": pv}
    return out


# IDStat aggregates: the definition of each, computed from the values of asdict() in view order.
# Tie-breaking is checked where the docstring promises it: argmin / argmax "returns first ID corresponding to the
# minimum / maximal value" (first in view order = asdict order), argsort "the order of the IDs is preserved"
# (a stable sort, also with reverse=True).  `mode` promises nothing about ties: any most frequent value passes.
def agg_defs(ids, vals, mo):
    n = len(vals)
    mean = sum(vals) / n
    var = sum((v - mean) ** 2 for v in vals) / n
    sv = sorted(vals)
    uniq = sorted(set(vals))
    counts = [sum(1 for v in vals if v == u) for u in uniq]
    mx, mn = max(vals), min(vals)
    return {"max": mx, "min": mn, "sum": sum(vals), "mean": mean,
            "median": sv[n // 2] if n % 2 else (sv[n // 2 - 1] + sv[n // 2]) / 2,
            "var": var, "std": math.sqrt(var), "moment": sum(v ** mo for v in vals) / n,
            "cmoment": sum((v - mean) ** mo for v in vals) / n,
            "argmax": ids[vals.index(mx)], "argmin": ids[vals.index(mn)],
            "argsort": [ids[j] for j in sorted(range(n), key=lambda j: (vals[j], j))],
            "argsort_r": [ids[j] for j in sorted(range(n), key=lambda j: (-vals[j], j))],
            "unique": uniq, "counts": counts,
            "modes": [u for u, c in zip(uniq, counts) if c == max(counts)]}


MODEL_AGGS = ("max", "min", "sum", "mean", "median", "var", "moment", "cmoment", "argmax", "argmin", "argsort", "argsort_r",
              "unique", "counts")
AGG_IDS = ("argmax", "argmin")
AGG_IDLISTS = ("argsort", "argsort_r")


def aggregates(ob, stat, ids, mo, field, label, central=True):
    """read every aggregate of one numeric stat over a non-empty view and compare it with its definition;
    returns the observation {name: value} in the model's shape ("$skip" when not applicable)"""
    st, d = attempt(stat.asdict)
    if st != "ok" or not isinstance(d, dict) or not d or list(d) != list(ids) or not all(isnum(v) for v in d.values()):
        return "$skip"
    vals = [plain(d[i]) for i in ids]
    exp = agg_defs(list(ids), vals, mo)
    calls = {"max": stat.max, "min": stat.min, "sum": stat.sum, "mean": stat.mean, "median": stat.median,
             "var": stat.var, "std": stat.std, "moment": lambda: stat.moment(mo),
             "cmoment": lambda: stat.moment(order=mo, center=True), "argmax": stat.argmax, "argmin": stat.argmin,
             "argsort": stat.argsort, "argsort_r": lambda: stat.argsort(reverse=True),
             "unique": stat.unique, "counts": lambda: stat.unique(return_counts=True), "mode": stat.mode}
    if not central:              # scipy's central moment costs a millisecond: read for one (rotating) stat per step
        del calls["cmoment"]
    out = {}
    for nm, f in calls.items():
        with warnings.catch_warnings():
            warnings.simplefilter("ignore")          # scipy warns about precision when all values are equal
            res = attempt(f)
        site = "IDStat." + {"argsort_r": "argsort", "cmoment": "moment", "counts": "unique"}.get(nm, nm)
        st, r = res
        if st != "ok":
            ob.fail(site, "raises", f"{label}.{nm}: {st}: {r}", field)
            continue
        bad, cls = None, "aggregate-differs-from-definition"
        if nm in AGG_IDS:
            what = nm[3:] + "imum"
            if r not in d:
                bad = f"{r!r} is not an ID of the view"
            elif not same_vals(d[r], exp[nm[3:]]):
                bad = f"value at {r!r} is {d[r]!r}, the {what} is {exp[nm[3:]]!r}"
            elif r != exp[nm]:
                bad, cls = f"{r!r} is not the FIRST ID in view order with the {what}; that is {exp[nm]!r}", "aggregate-tie-not-first-in-view-order"
            else:
                out[nm] = enc_id(r)
        elif nm in AGG_IDLISTS:
            if not isinstance(r, list) or sorted(map(repr, r)) != sorted(map(repr, ids)):
                bad = f"{r!r} is not a permutation of the view {list(ids)}"
            elif r != exp[nm]:
                keys = [d[i] for i in r]
                if all((a <= b) if nm == "argsort" else (a >= b) for a, b in zip(keys, keys[1:])):
                    bad, cls = f"{r} is sorted, but IDs with equal values are not in view order (expected {exp[nm]})", "aggregate-ties-not-in-view-order"
                else:
                    bad = f"{r} is not sorted by value: {keys}"
            else:
                out[nm] = [enc_id(i) for i in r]
        elif nm == "unique":
            got = r.tolist() if isinstance(r, np.ndarray) else None
            if got is None or len(got) != len(exp[nm]) or not all(same_vals(a, b) for a, b in zip(got, exp[nm])):
                bad = f"{r!r} vs sorted distinct values {exp[nm]}"
            else:
                out[nm] = got
        elif nm == "counts":
            ok = isinstance(r, tuple) and len(r) == 2 and all(isinstance(x, np.ndarray) for x in r)
            if not ok or r[1].tolist() != exp["counts"] or len(r[0]) != len(exp["unique"]):
                bad = f"{r!r} vs values {exp['unique']} counts {exp['counts']}"
            else:
                out[nm] = r[1].tolist()
        elif nm == "mode":
            if not any(same_vals(plain(r), m) for m in exp["modes"]):
                bad = f"{r!r} is not a most frequent value (those are {exp['modes']})"
        else:
            v = plain(r)
            if not isnum(v) or not same_vals(v, exp[nm]):
                bad = f"{v!r} vs definition {exp[nm]!r} on values {vals}"
            elif nm != "std":
                out[nm] = v
        if bad:
            ob.fail(site, cls, f"{label}.{nm}{'(' + str(mo) + ')' if 'moment' in nm else ''}: {bad}", field)
    for nm in MODEL_AGGS:            # not read at this step / failed (reported above): nothing to compare with the model
        out.setdefault(nm, "$skip")
    # items() / iteration / len: the same mapping as asdict()
    for nm, f in (("items", lambda: dict(stat.items())), ("__iter__", lambda: dict(iter(stat))), ("__len__", lambda: len(stat))):
        st, r = attempt(f)
        want = len(ids) if nm == "__len__" else d
        if st != "ok" or r != want:
            ob.fail("IDStat." + nm, "differs-from-asdict", f"{label}: {st} {r!r} vs {want!r}", field)
    return out


def close(a, b, tol=1e-9):
    """numeric stat values equal by the float rule; NaN (local simpliciality of a node without eligible edges) equals NaN"""
    try:
        fa, fb = float(a), float(b)
    except Exception:  # noqa
        return False
    if math.isnan(fa) or math.isnan(fb):
        return math.isnan(fa) and math.isnan(fb)
    return abs(fa - fb) <= tol * max(1.0, abs(fb))


def other_stat_forms(ob, hstat, fstat, view, ids, nm, field="other_stats"):
    """one of the statistics whose values C06 does not define (clustering, centralities, simpliciality): `hstat` is the
    object held since the empty network, `fstat` the same stat of a fresh view.  Where the stat is defined at all
    (degenerate networks make several of them raise — not judged here): keys = view order, held = fresh, the formats
    agree, the stat of a filtered view is the restriction.  An ID of the view without a value (KeyError naming it)
    is a failure: the stat function did not cover its bunch."""
    cmpv = nm not in UNSTABLE
    ids = list(ids)

    def call(f):
        with warnings.catch_warnings():
            warnings.simplefilter("ignore")
            return attempt(f)

    def uncovered(st, e):
        try:
            return st == "err:KeyError" and bool(e.args) and e.args[0] in set(ids)
        except TypeError:
            return False
    sf, df = call(fstat.asdict)
    sh, dh = call(hstat.asdict)
    for st, d, who in ((sf, df, "a fresh view"), (sh, dh, "the held view")):
        if uncovered(st, d):
            ob.fail("IDStat.asdict", "stat-has-no-value-for-an-id-of-the-view", f"{nm} of {who} {ids}: KeyError {d}", field)
            return
    if sf != "ok" or sh != "ok":
        if (sf == "ok") != (sh == "ok") and cmpv:
            ob.fail("IDStat.asdict", "held-stat-differs-from-fresh", f"{nm}: held object {sh} {dh if sh != 'ok' else ''}, fresh object {sf} {df if sf != 'ok' else ''}"[:300], field)
        return
    for d, who in ((df, "a fresh view"), (dh, "the held view")):
        if not isinstance(d, dict) or list(d) != ids:
            ob.fail("IDStat.asdict", "keys-not-view-order", f"{nm} of {who}: keys {list(d) if isinstance(d, dict) else type(d).__name__} view {ids}", field)
            return
    if cmpv and not all(close(dh[i], df[i]) for i in ids):
        ob.fail("IDStat.asdict", "held-stat-stale", f"{nm}: held object says {dh}, a fresh one {df}"[:400], field)
        return
    same = lambda vals: len(vals) == len(ids) and (not cmpv or all(close(v, dh[i]) for v, i in zip(vals, ids)))
    st, l = call(hstat.aslist)
    if st != "ok" or not isinstance(l, list) or not same(l):
        ob.fail("IDStat.aslist", "differs-from-asdict", f"{nm}: aslist {st} {l!r} asdict {dh}"[:400], field)
    st, a = call(hstat.asnumpy)
    if st != "ok" or not isinstance(a, np.ndarray) or a.shape != (len(ids),) or not same(a.tolist()):
        ob.fail("IDStat.asnumpy", "differs-from-aslist", f"{nm}: asnumpy {st} {a!r} asdict {dh}"[:400], field)
    if not any(no_pandas_index(i) for i in ids):
        st, sr = call(hstat.aspandas)
        if st != "ok" or not hasattr(sr, "index") or sr.index.tolist() != ids or not same(sr.tolist()):
            ob.fail("IDStat.aspandas", "values-differ-from-asdict" if st == "ok" and hasattr(sr, "index") and sr.index.tolist() == ids else "index-not-view-order",
                    f"{nm}: aspandas {st} {sr!r} asdict {dh}"[:400], field)
    if len(ids) >= 2:
        b = [ids[-1], ids[0]]
        st, d = call(lambda: getattr(view(b), nm).asdict())
        if uncovered(st, d) or st != "ok" or not isinstance(d, dict) or list(d) != [ids[0], ids[-1]] or (cmpv and not all(close(d[i], dh[i]) for i in d)):
            ob.fail("IDStat.asdict", "stat-on-filtered-view-is-not-the-restriction", f"{nm} on view({b}): {st} {d!r}, on the full view {dh}"[:400], field)


def table_obs(a, rows, ncols):
    """np.ndarray of a multi-stat vs the list of rows: (problem | None, observation)"""
    if not isinstance(a, np.ndarray):
        return f"returned {type(a).__name__}", "err:wrong-type"
    if not rows:
        return (None if a.size == 0 else f"non-empty array {a.tolist()} for an empty view"), []
    if a.shape != (len(rows), ncols):
        return f"shape {a.shape}, expected (ids, stats) = {(len(rows), ncols)}", "err:shape"
    al = a.tolist()
    if a.dtype.kind in "US":         # numpy made every cell a string
        same = all(str(x) == str(y) for ra, rr in zip(al, rows) for x, y in zip(ra, rr))
    else:
        same = all(same_vals(x, y) for ra, rr in zip(al, rows) for x, y in zip(ra, rr))
    return (None if same else f"cells {al} differ from aslist() {rows}"), al


def multi_forms(ob, multi, singles, keys, kinds, view_ids, field, pandas=True):
    """`view.multi([...])`: every layout against the single stats' own asdict()"""
    cname = "MultiIDStat"
    st, names = attempt(lambda: [s.name for s in singles])
    st2, sd = attempt(lambda: [s.asdict() for s in singles])
    if st != "ok" or st2 != "ok":
        return "$skip"
    numeric = all(k == "num" for k in kinds)
    out = {}
    st, d = attempt(multi.asdict)
    if st != "ok":
        ob.fail(f"{cname}.asdict", "raises", f"{st}: {d}", field); return st
    if not isinstance(d, dict) or not all(isinstance(r, dict) for r in d.values()):
        ob.fail(f"{cname}.asdict", "wrong-type", f"asdict() = {d!r}"[:300], field); return "err:wrong-type"
    exp = {n: {nm: sd[j][n] for j, nm in enumerate(names)} for n in view_ids}
    if list(d.keys()) != list(view_ids):
        ob.fail(f"{cname}.asdict", "keys-not-view-order", f"keys {list(d)} view {list(view_ids)}", field)
    elif d != exp or any(list(d[n].keys()) != names for n in d):
        ob.fail(f"{cname}.asdict", "differs-from-single-stats", f"multi {d} singles {exp}", field)
    enc_row = lambda vals: [enc_sv(v, kinds[j]) for j, v in enumerate(vals)]
    wide = lambda r: len(r) == len(keys)
    out["asdict"] = [[enc_id(n), [[keys[j], enc_sv(v, kinds[j])] for j, v in enumerate(r.values())]] for n, r in d.items()] \
        if all(wide(r) for r in d.values()) else "err:shape"
    st, dt = attempt(lambda: multi.asdict(transpose=True))
    if st != "ok":
        ob.fail(f"{cname}.asdict", "raises", f"transpose: {st}: {dt}", field); out["asdict_t"] = st
    elif not isinstance(dt, dict) or not all(isinstance(c, dict) for c in dt.values()):
        ob.fail(f"{cname}.asdict", "wrong-type", f"asdict(transpose=True) = {dt!r}"[:300], field); out["asdict_t"] = "err:wrong-type"
    else:
        if list(dt.keys()) != names or any(dt[nm] != sd[j] or list(dt[nm]) != list(view_ids) for j, nm in enumerate(names)):
            ob.fail(f"{cname}.asdict", "transpose-differs-from-single-stats", f"{dt} vs {sd}", field)
        out["asdict_t"] = [[keys[j], [[enc_id(i), enc_sv(v, kinds[j])] for i, v in dt[nm].items()]] for j, nm in enumerate(dt)] \
            if len(dt) == len(keys) else "err:shape"
    st, l = attempt(multi.aslist)
    rows = [[sd[j][n] for j in range(len(names))] for n in view_ids]
    cols = [[sd[j][n] for n in view_ids] for j in range(len(names))]
    islol = lambda x: isinstance(x, list) and all(isinstance(r, list) for r in x)
    if st != "ok":
        ob.fail(f"{cname}.aslist", "raises", f"{st}: {l}", field); out["aslist"] = st
    elif not islol(l):
        ob.fail(f"{cname}.aslist", "wrong-type", f"aslist() = {l!r}"[:300], field); out["aslist"] = "err:wrong-type"
    else:
        if l != rows:
            ob.fail(f"{cname}.aslist", "differs-from-single-stats", f"{l} vs {rows}", field)
        out["aslist"] = [enc_row(r) for r in l] if all(wide(r) for r in l) else "err:shape"
    st, lt = attempt(lambda: multi.aslist(transpose=True))
    if st != "ok":
        ob.fail(f"{cname}.aslist", "raises", f"transpose: {st}: {lt}", field); out["aslist_t"] = st
    elif not islol(lt):
        ob.fail(f"{cname}.aslist", "wrong-type", f"aslist(transpose=True) = {lt!r}"[:300], field); out["aslist_t"] = "err:wrong-type"
    else:
        if lt != cols:
            ob.fail(f"{cname}.aslist", "transpose-differs-from-single-stats", f"{lt} vs columns {cols}", field)
        out["aslist_t"] = [[enc_sv(v, kinds[j]) for v in col] for j, col in enumerate(lt)] if len(lt) == len(keys) else "err:shape"
    # the remaining argument combinations (`transpose` is documented as ignored unless the inner type is the default)
    for label, f, want in (("asdict(inner=list)", lambda: multi.asdict(inner=list), {n: rows[i] for i, n in enumerate(view_ids)}),
                           ("asdict(inner=list, transpose=True)", lambda: multi.asdict(inner=list, transpose=True),
                            {n: rows[i] for i, n in enumerate(view_ids)}),
                           ("aslist(inner=dict)", lambda: multi.aslist(inner=dict), [exp[n] for n in view_ids]),
                           ("aslist(inner=dict, transpose=True)", lambda: multi.aslist(inner=dict, transpose=True), [exp[n] for n in view_ids])):
        st, r = attempt(f)
        if st != "ok" or r != want or (isinstance(r, dict) and list(r) != list(view_ids)):
            ob.fail(f"{cname}.{label.split('(')[0]}", "inner-" + ("list" if "inner=list" in label else "dict") + "-differs", f"{label}: {st}: {r!r} vs {want!r}", field)
    st, r = attempt(lambda: multi.asdict(inner=set))
    if st != "err:value":
        ob.fail(f"{cname}.asdict", "unknown-inner-accepted", f"asdict(inner=set): {st}", field)
    # asnumpy: "equivalent to np.array(self.aslist(inner=list))": rows = IDs, columns = stats
    scal = all(scalar(v) for r in rows for v in r)
    st, a = attempt(multi.asnumpy)
    if st != "ok":
        if scal:
            ob.fail(f"{cname}.asnumpy", "raises", f"{st}: {a}", field); out["asnumpy"] = st
        else:
            out["asnumpy"] = "$skip"        # np.array of ragged rows (list / dict valued attributes) is numpy's business
    elif scal:
        bad, al = table_obs(a, rows, len(names))
        if bad:
            ob.fail(f"{cname}.asnumpy", "differs-from-aslist", bad, field)
        out["asnumpy"] = ([enc_row(r) for r in al] if numeric and not bad else ("$skip" if not bad else "err:differs"))
    else:
        out["asnumpy"] = "$skip"
    if not pandas or any(no_pandas_index(i) for i in view_ids):
        out["aspandas"] = "$skip"
        return out
    st, df = attempt(multi.aspandas)
    if st != "ok":
        ob.fail(f"{cname}.aspandas", "raises", f"{st}: {df}", field); out["aspandas"] = st
    elif not hasattr(df, "index") or not hasattr(df, "columns"):
        ob.fail(f"{cname}.aspandas", "wrong-type", f"aspandas() returned {type(df).__name__}", field); out["aspandas"] = "err:wrong-type"
    else:
        idx, cols_ = df.index.tolist(), df.columns.tolist()
        if sorted(map(repr, idx)) != sorted(map(repr, view_ids)):
            ob.fail(f"{cname}.aspandas", "index-not-the-view", f"index {idx} view {list(view_ids)}", field)
        elif idx != list(view_ids):
            ob.fail(f"{cname}.aspandas", "index-not-view-order", f"index {idx} view order {list(view_ids)}", field)
        if cols_ != names:
            ob.fail(f"{cname}.aspandas", "columns-not-stat-names", f"{cols_} vs {names}", field)
        prow = []
        if cols_ == names:
            for n in idx:
                r = []
                for j, nm in enumerate(names):
                    if kinds[j] == "num" and n in sd[j]:
                        v = plain(df[nm][n])
                        if not same_vals(v, sd[j][n]):
                            ob.fail(f"{cname}.aspandas", "values-differ-from-single-stats", f"[{n!r},{nm}] = {v!r} vs {sd[j][n]!r}", field)
                        r.append(int(v) if isnum(v) and float(v).is_integer() else v)
                    else:
                        r.append("$skip")
                prow.append(r)
        out["aspandas"] = {"index": [enc_id(i) for i in idx], "columns": keys if cols_ == names else "$skip",
                           "rows": prow if cols_ == names else "$skip"}
    return out


def view_ids_obs(ob, site, cls_prefix, f, expected, field, as_set=False):
    """call a view-returning (or set-returning) query; check it against the brute-force `expected`
    (list in view order | set | "err:lib"); returns the observation"""
    st, r = attempt(f)
    if isinstance(expected, str):
        if st != expected:
            ob.fail(site, "wrong-exception" if st != "ok" else "no-exception", f"expected {expected}, got {st} {r if st == 'ok' else ''}", field)
        return st if st != "ok" else "$skip"
    if st != "ok":
        ob.fail(site, "raises", f"{st}: {r}", field)
        return st
    st2, mat = attempt(lambda: set(r) if as_set else list(r))
    if st2 != "ok":
        ob.fail(site, "result-not-iterable", f"{type(r).__name__}: {st2} {mat}", field)
        return st2
    if as_set:
        got = mat
        if got != set(expected):
            ob.fail(site, cls_prefix, f"got {sorted(map(repr, got))} definition gives {sorted(map(repr, expected))}", field)
        return sids(got)
    got = mat
    if sorted(map(repr, got)) != sorted(map(repr, expected)):
        ob.fail(site, cls_prefix, f"got {got} definition gives {list(expected)}", field)
    elif got != list(expected):
        ob.fail(site, "not-view-order", f"got {got} view order {list(expected)}", field)
    return [enc_id(i) for i in got]


def in_order(rev, thunks):
    """run the calls first-to-last, or last-to-first at odd steps.  Reading the argument variants of one method in
    palindromic order over consecutive steps makes the LAST call before an edit and the FIRST call after it the
    same call with the same arguments on the same persistent object — what a memoised answer would survive."""
    for t in (thunks[::-1] if rev else thunks):
        t()


def filters(ob, view, vname, ids, stat_arg, values, x, y, field, rev=False):
    """view.filterby(stat, x, mode) for every mode against the brute force over `values`"""
    out = {}

    def one(m):
        val = (x, y) if m == "between" else x
        try:
            exp = [i for i in ids if pycmp(m, values[i], x, y)]
        except TypeError:
            exp = "err:type"
        out[m] = view_ids_obs(ob, f"{vname}.filterby", f"wrong-ids-{m}", lambda: view.filterby(stat_arg, val, m), exp, field)
    # plus a callable mode `mode(value, val)`, and an unknown mode (ValueError); predicate only
    in_order(rev, [lambda m=m: one(m) for m in MODES] + [
        lambda: view_ids_obs(ob, f"{vname}.filterby", "wrong-ids-callable", lambda: view.filterby(stat_arg, x, lambda v, val: 2 * v >= val + 1),
                             [i for i in ids if 2 * values[i] >= x + 1], field),
        lambda: view_ids_obs(ob, f"{vname}.filterby", "unknown-mode-accepted", lambda: view.filterby(stat_arg, x, "approx"), "err:value", field)])
    return out


def attr_filters(ob, view, vname, ids, attrs, P, sp, field, rev=False):
    out = {}
    a, mi, x, y = P["attr"], P["missing"], sp["ax"], sp["ay"]

    def one(m):
        val = (x, y) if m == "between" else x
        try:
            exp = [i for i in ids if attrs[i].get(a, mi) is not None and pycmp(m, attrs[i].get(a, mi), x, y)]
        except TypeError:
            exp = "err:type"
        out[m] = view_ids_obs(ob, f"{vname}.filterby_attr", f"wrong-ids-{m}", lambda: view.filterby_attr(a, val, m, mi), exp, field)
    in_order(rev, [lambda m=m: one(m) for m in MODES] + [
        lambda: view_ids_obs(ob, f"{vname}.filterby_attr", "wrong-ids-callable", lambda: view.filterby_attr(a, x, lambda v, val: repr(v) >= repr(val), mi),
                             [i for i in ids if attrs[i].get(a, mi) is not None and repr(attrs[i].get(a, mi)) >= repr(x)], field),
        lambda: view_ids_obs(ob, f"{vname}.filterby_attr", "unknown-mode-accepted", lambda: view.filterby_attr(a, x, "approx", mi), "err:value", field)])
    return out


def frac(q):
    return q[0] / q[1]


def observe(held, T, sp, prev_order=None, op=None, step_no=0):
    """read every held object; returns Obs (observation in the model's response shape + predicate failures).
    The observation is a sequence of guarded steps: a failure is reported under the site of the xgi call that
    misbehaved (`raises`, `wrong-type`, `wrong-value`, …); a step whose own bookkeeping crashes on what xgi
    returned is reported as `<step>-unreadable:<Exception>`."""
    ob = Obs()
    o, P, directed = ob.o, held.P, held.directed
    nvn, evn = type(held.nv).__name__, type(held.ev).__name__
    mo = P.get("mo", 2)
    rev = step_no % 2 == 1          # see in_order

    # ---- the views list exactly the current IDs, in insertion order
    def views():
        for key, view, ids, num in (("nodes", held.nv, T.nodes, "num_nodes"), ("edges", held.ev, T.edges, "num_edges")):
            vn = type(view).__name__
            st, got = attempt(lambda: list(view))
            if st != "ok":
                ob.fail(f"{vn}.__iter__", "raises", f"{st}: {got}", key); o[key] = st
                continue
            o[key] = [enc_id(i) for i in got]
            if got != ids:
                ob.fail(f"{vn}.__iter__", "held-view-stale", f"held view {got} fresh view {ids}", key)
            st, facts = attempt(lambda: (len(view), getattr(held.H, num), [i for i in ids if (i in view) is not True], ABSENT in view))
            if st != "ok" or facts != (len(ids), len(ids), [], False):
                ob.fail(f"{vn}.__len__", "len-or-contains", f"(len, {num}, current ids not `in` the view, absent id `in` the view) = {facts} for ids {ids}", key)
            if len(set(got)) != len(got):
                ob.fail(f"{vn}.__iter__", "duplicate-id", f"{got}", key)
            if prev_order is not None and op is not None and op["op"] in STABLE_OPS:
                old = [i for i in prev_order[key] if i in set(got)]
                new = [i for i in got if i not in set(prev_order[key])]
                if got != old + new:
                    ob.fail(f"{vn}.__iter__", "not-insertion-order", f"before {prev_order[key]} after {got}", key)
    guard(ob, "IDView.__iter__", "views", "nodes", views)

    # ---- `from_view(view)` with the default bunch is a view of ALL current IDs: created now, and held from the start
    def default_bunch():
        for held_all, view, ids in ((held.nall, held.nv, T.nodes), (held.eall, held.ev, T.edges)):
            vn = type(view).__name__
            st, got = attempt(lambda: list(type(view).from_view(view)))
            if st != "ok":
                ob.fail("IDView.from_view", "default-bunch-raises", f"{vn}.from_view(view) without a bunch: {st}: {got}", "from_view_default")
            elif sorted(map(repr, got)) != sorted(map(repr, ids)):
                ob.fail("IDView.from_view", "default-bunch-wrong-ids", f"{vn}.from_view(view) lists {got}, current ids {ids}", "from_view_default")
            elif got != ids:
                ob.fail("IDView.from_view", "default-bunch-not-insertion-order", f"{vn}.from_view(view) lists {got}, insertion order {ids}", "from_view_default")
            st0, hv = held_all
            if st0 == "ok":
                st, got = attempt(lambda: list(hv))
                if st != "ok" or sorted(map(repr, got)) != sorted(map(repr, ids)):
                    ob.fail("IDView.from_view", "default-bunch-view-stale",
                            f"{vn}.from_view(view) created on the empty network lists {st} {got}, current ids {ids}", "from_view_default")
    guard(ob, "IDView.from_view", "from-view-default-bunch", "from_view_default", default_bunch)

    # ---- the incidence as the HELD views hand it out (members / memberships and the directed variants)
    def accessors():
        reads = [("members", held.ev, lambda: held.ev.members(dtype=dict), T.mem), ("memberships", held.nv, held.nv.memberships, T.memb)]
        if directed:
            reads += [("tail", held.ev, lambda: held.ev.tail(dtype=dict), T.tail), ("head", held.ev, lambda: held.ev.head(dtype=dict), T.head),
                      ("dimembers", held.ev, lambda: {e: (set(t), set(h)) for e, (t, h) in held.ev.dimembers(dtype=dict).items()},
                       {e: (T.tail[e], T.head[e]) for e in T.edges}),
                      ("dimemberships", held.nv, lambda: {n: (set(i), set(u)) for n, (i, u) in held.nv.dimemberships().items()},
                       {n: (T.min[n], T.mout[n]) for n in T.nodes})]
        for nm, view, f, want in reads:
            st, r = attempt(f)
            if st == "ok" and isinstance(r, dict) and nm in ("members", "memberships", "tail", "head"):
                r = {i: set(v) for i, v in r.items()}
            if st != "ok" or r != want or list(r) != list(want):
                ob.fail(f"{type(view).__name__}.{nm}", "held-view-incidence-stale", f"{st}: {r!r}"[:200] + f" vs fresh view {want!r}"[:200], "nodes")
        # single-ID forms, attribute access and `ids` (the same ID at two consecutive steps: query, edit, same query)
        for view, ids, tab, attr, one in ((held.ev, T.edges, T.mem, T.eattr, "members"), (held.nv, T.nodes, T.memb, T.nattr, "memberships")):
            vn = type(view).__name__
            st, r = attempt(lambda: view.ids)
            if st != "ok" or r != set(ids):
                ob.fail(f"{vn}.ids", "held-view-stale", f"{st}: {r!r} vs {ids}", "nodes")
            if not ids:
                continue
            i = ids[(step_no // 2) % len(ids)]
            singles = [(one, lambda: set(getattr(view, one)(i)), tab[i]), ("__getitem__", lambda: view[i], attr[i])]
            if directed and one == "members":
                singles += [("tail", lambda: set(view.tail(i)), T.tail[i]), ("head", lambda: set(view.head(i)), T.head[i]),
                            ("sources", lambda: set(view.sources(i)), T.tail[i]), ("targets", lambda: set(view.targets(i)), T.head[i]),
                            ("dimembers", lambda: tuple(map(set, view.dimembers(i))), (T.tail[i], T.head[i]))]
            if directed and one == "memberships":
                singles += [("dimemberships", lambda: tuple(map(set, view.dimemberships(i))), (T.min[i], T.mout[i]))]
            for nm, f, want in singles:
                st, r = attempt(f)
                if st != "ok" or r != want:
                    ob.fail(f"{vn}.{nm}", "held-view-incidence-stale", f"{nm}({i!r}): {st}: {r!r} vs fresh view {want!r}"[:300], "nodes")
    guard(ob, "IDView.members", "incidence-accessors", "nodes", accessors)

    # ---- stats: every (stat x argument combination), every output format
    tn, te = truth_stats(T, P, "n"), truth_stats(T, P, "e")
    o["nstats"] = {nm: guard(ob, "IDStat.asdict", "stat:" + nm, "nstats",
                             lambda nm=nm: stat_forms(ob, held.ns[nm], T.nodes, tn[nm], KIND.get(nm, "num"), "IDStat", "nstats")) for nm in held.ns}
    o["estats"] = {nm: guard(ob, "IDStat.asdict", "stat:" + nm, "estats",
                             lambda nm=nm: stat_forms(ob, held.es[nm], T.edges, te[nm], KIND.get(nm, "num"), "IDStat", "estats")) for nm in held.es}

    # degree = |memberships|, size = |members|, order = size - 1, handshake(s) — on the held stats' own output
    def identities():
        rd = lambda s: attempt(s.asdict)
        isd = lambda *rs: all(r[0] == "ok" and isinstance(r[1], dict) and all(isnum(v) for v in r[1].values()) for r in rs)
        dn, se, orr = rd(held.ns["degree"]), rd(held.es["size"]), rd(held.es["order"])
        if isd(dn, se, orr):
            if any(orr[1][e] != se[1][e] - 1 for e in se[1] if e in orr[1]):
                ob.fail("IDStat.asdict", "order-not-size-minus-one", f"order {orr[1]} size {se[1]}", "estats")
            if sum(dn[1].values()) != sum(se[1].values()):
                ob.fail("IDStat.asdict", "handshake", f"sum degree {sum(dn[1].values())} != sum size {sum(se[1].values())}", "nstats")
        if directed:
            i_, o_ = rd(held.ns["in_degree"]), rd(held.ns["out_degree"])
            t_, h_ = rd(held.es["tail_size"]), rd(held.es["head_size"])
            if isd(i_, o_, t_, h_):
                if sum(o_[1].values()) != sum(t_[1].values()):
                    ob.fail("IDStat.asdict", "handshake-out-tail", f"sum out_degree {sum(o_[1].values())} != sum tail_size {sum(t_[1].values())}", "nstats")
                if sum(i_[1].values()) != sum(h_[1].values()):
                    ob.fail("IDStat.asdict", "handshake-in-head", f"sum in_degree {sum(i_[1].values())} != sum head_size {sum(h_[1].values())}", "nstats")
            for pre in ("tail_", "head_"):
                a, b = rd(held.es[pre + "size"]), rd(held.es[pre + "order"])
                if isd(a, b) and any(b[1][e] != a[1][e] - 1 for e in a[1] if e in b[1]):
                    ob.fail("IDStat.asdict", "order-not-size-minus-one", f"{pre}order {b[1]} {pre}size {a[1]}", "estats")
        # single-ID access of every held numeric stat (rotating over the IDs)
        for kk, stats, tr, ids, fld in (("n", held.ns, tn, T.nodes, "nstats"), ("e", held.es, te, T.edges, "estats")):
            if not ids:
                continue
            for j, (nm, st_) in enumerate(stats.items()):
                i = ids[(step_no + j) % len(ids)]
                want = tr[nm][i]
                if isinstance(want, str) and want in ("err:type", "$any"):
                    continue
                s1, v = attempt(lambda: st_[i])
                if s1 != "ok" or not same_vals(v, want) if not isinstance(want, dict) else (s1 != "ok" or v != want):
                    ob.fail("IDStat.__getitem__", "wrong-value", f"{nm}[{i!r}] = {s1} {v!r} vs {want!r}", fld)
            s1, v = attempt(lambda: stats[next(iter(stats))][ABSENT])
            if s1 != "err:lib":
                ob.fail("IDStat.__getitem__", "absent-id", f"stat[{ABSENT!r}]: {s1} {v!r}", fld)
    guard(ob, "IDStat.asdict", "identities", "nstats", identities)

    # ---- aggregates of every numeric held stat against their definitions on asdict()
    def aggs(stats, ids, fld, modelled):
        res = {}
        num = [nm for nm in stats if KIND.get(nm, "num") == "num"]
        for j, nm in enumerate(num):
            # the stats the model evaluates too at every step, the others in rotation (each every 3rd step)
            if not ids or (nm not in modelled and (j + step_no) % 3):
                continue
            st_ = stats[nm]
            r = guard(ob, "IDStat.max", "aggregates:" + nm, fld,
                      lambda: aggregates(ob, st_, ids, mo, fld, nm, central=(j == step_no % len(num))))
            if nm in modelled:
                res[nm] = r if isinstance(r, dict) else "$skip"
        for nm in modelled:
            res.setdefault(nm, "$skip")
        return res
    o["nagg"] = aggs(held.ns, T.nodes, "nagg", NAGG[directed])
    o["eagg"] = aggs(held.es, T.edges, "eagg", EAGG[directed])

    guard(ob, "IDView.__call__", "held-filtered-views", "held_filtered", lambda: held.held_filtered(ob, T))

    # ---- the other statistics (formats / liveness / restriction only): one node stat per 2nd step in rotation, on small states
    def other_stats():
        if directed or step_no % 2 or len(T.nodes) > 8 or len(T.edges) > 10:
            return
        r = step_no // 2 + P.get("rot", 0)       # the rotation starts at a different stat in every history
        nm = OTHER_N[r % len(OTHER_N)]
        other_stat_forms(ob, held.other["n"][nm], getattr(T.nv, nm), held.nv, T.nodes, nm)
        if r % 3 == 0:
            other_stat_forms(ob, held.other["e"][OTHER_E[0]], getattr(T.ev, OTHER_E[0]), held.ev, T.edges, OTHER_E[0])
    guard(ob, "IDStat.asdict", "other-statistics", "other_stats", other_stats)

    # ---- multi
    kinds = lambda ks: [KIND.get(k, "num") for k in ks]
    n2, e2 = NMULTI2[directed], EMULTI2[directed]
    for key, multi, stats, ks, ids in (("nmulti", held.nmulti, held.ns, NMULTI, T.nodes), ("emulti", held.emulti, held.es, EMULTI, T.edges),
                                       ("nmulti2", held.nmulti2, held.ns, n2, T.nodes), ("emulti2", held.emulti2, held.es, e2, T.edges)):
        o[key] = guard(ob, "MultiIDStat.asdict", "multi-stat", key,
                       lambda: multi_forms(ob, multi, [stats[k] for k in ks], ks, kinds(ks), ids, key,
                                           pandas=(not key.endswith("2") or step_no % 3 == 0)))

    # ---- filtered views created now from the held views
    def restricted_queries(fv, exp, key, k_, vn, other):
        inview = set(exp)

        def ask(name, cls, f, definition):
            want = [i for i in exp if i in set(definition)]
            st, r = attempt(lambda: list(f()))
            if st != "ok":
                ob.fail(f"{vn}.{name}", "restricted-view-raises" + cls, f"view {exp}: {st} {r}"[:300], key)
            elif not set(r) <= inview:
                ob.fail(f"{vn}.{name}", "restricted-view-answers-outside-the-view" + cls,
                        f"asked of the view {exp}: {r} - {[i for i in r if i not in inview]} are not in the view (definition within the view: {want})"[:400], key)
            elif r != want:
                ob.fail(f"{vn}.{name}", "restricted-view-differs-from-definition" + cls, f"asked of the view {exp}: {r}, definition gives {want}"[:300], key)
        tab = T.tab(k_)
        # lookup: the sought set of the step, the neighbours of an ID outside the view, of the first ID inside it
        soughts = [[tuple(b) if isinstance(b, list) else b for b in sp["nlookup" if k_ == "n" else "elookup"]]]
        soughts += [list(tab[i]) for i in ([other] if other is not None else []) + list(exp[:1])]
        for sought in soughts:
            ask("lookup", "", lambda: fv.lookup(sought), [i for i in T.keys(k_) if tab[i] == set(sought)])
        # duplicates: the representative the library keeps per class is the full view's (checked in lookups())
        st, full = attempt(lambda: list((held.nv if k_ == "n" else held.ev).duplicates()))
        if st == "ok":
            ask("duplicates", "", fv.duplicates, full)
        if k_ == "n":
            ask("isolates", "", fv.isolates, [n for n in T.nodes if not T.memb[n]])
            if not directed:
                ask("isolates", "-ignore-singletons", lambda: fv.isolates(ignore_singletons=True),
                    [n for n in T.nodes if all(len(T.mem[e]) == 1 for e in T.memb[n])])
        else:
            ask("empty", "", fv.empty, [e for e in T.edges if not T.mem[e]])
            if not directed:
                ask("singletons", "", fv.singletons, [e for e in T.edges if len(T.mem[e]) == 1])
                ask("maximal", "", fv.maximal, maximal_def(T, False))
                ask("maximal", "-strict", lambda: fv.maximal(strict=True), maximal_def(T, True))

    def filtered_views():
        for key, view, ids, bunch_key, stats_f, tstats, vn in (("nview", held.nv, T.nodes, "nbunch", node_stats, tn, nvn),
                                                                ("eview", held.ev, T.edges, "ebunch", edge_stats, te, evn)):
            bunch = [tuple(b) if isinstance(b, list) else b for b in sp[bunch_key]]
            exp = [i for i in ids if i in set(bunch)] if set(bunch) <= set(ids) else "err:lib"
            st, fv = attempt(lambda: view(bunch))
            skey = key[0] + "vstats"
            if isinstance(exp, str):
                if st != exp:
                    ob.fail(f"{vn}.__call__", "no-exception" if st == "ok" else "wrong-exception", f"bunch {bunch} ids {ids}: {st}", key)
                o[key] = st if st != "ok" else "$skip"
                o[skey] = o[key[0] + "vfilter"] = "$skip" if st == "ok" else st
                if key == "nview":
                    o["nvfattr"] = o[skey]
                continue
            if st != "ok":
                ob.fail(f"{vn}.__call__", "raises", f"bunch {bunch}: {st} {fv}", key)
                o[key] = o[skey] = o[key[0] + "vfilter"] = st
                if key == "nview":
                    o["nvfattr"] = st
                continue
            st, got = attempt(lambda: list(fv))
            if st != "ok":
                ob.fail(f"{vn}.from_view", "result-not-iterable", f"{st}: {got}", key)
                o[key] = o[skey] = o[key[0] + "vfilter"] = st
                if key == "nview":
                    o["nvfattr"] = st
                continue
            if got != exp:
                ob.fail(f"{vn}.from_view", "wrong-ids" if sorted(map(repr, got)) != sorted(map(repr, exp)) else "not-view-order",
                        f"bunch {bunch}: {got} vs {exp}", key)
            o[key] = [enc_id(i) for i in got]
            # the other routes to the same filtered view and its incidence (predicate only: the functions are the ones
            # the model evaluates for `from_view` / `neighbors` above).  (1) the constructor `NodeView(H, bunch)`
            base, k_ = ("degree", "n") if key == "nview" else ("size", "e")
            st, cv = attempt(lambda: type(view)(held.H, list(exp)))
            st, cgot = attempt(lambda: list(cv)) if st == "ok" else (st, cv)
            if st != "ok" or cgot != exp:
                ob.fail(f"{vn}.__init__", "constructed-view-does-not-list-its-bunch", f"{vn}(H, {exp}) lists {st} {cgot}", key)
            else:
                st, d = attempt(lambda: getattr(cv, base).asdict())
                want = {i: tstats[base][i] for i in exp}
                if st != "ok" or d != want or list(d) != exp:
                    ob.fail(f"{vn}.__init__", "stat-on-constructed-view-wrong", f"{vn}(H, {exp}).{base}.asdict() = {st} {d!r} vs {want}", key)
            # (2) members / memberships of the filtered view: exactly its IDs, in its order, with the current incidence
            acc = "memberships" if key == "nview" else "members"
            st, r = attempt((lambda: fv.memberships()) if key == "nview" else (lambda: fv.members(dtype=dict)))
            want = {i: T.tab(k_)[i] for i in exp}
            if st != "ok" or not isinstance(r, dict) or list(r) != exp or {i: set(v) for i, v in r.items()} != want:
                ob.fail(f"{vn}.{acc}", "filtered-view-incidence-wrong", f"{acc}() of the view {exp}: {st} {r!r} vs {want}"[:300], key)
            # (2b) an ID of the network that is NOT in the filtered view: not `in` it, and view[id], stat[id], members(id)
            # (and the directed single-edge accessors) answer IDNotFound — the view and its stats cover exactly its IDs
            other = next((i for i in ids if i not in set(exp)), None)
            if other is not None:
                probes = [("__getitem__", lambda: fv[other]), (f"{base}.__getitem__", lambda: getattr(fv, base)[other])]
                if key == "eview":
                    probes += [(a_, lambda a_=a_: getattr(fv, a_)(other)) for a_ in (("members", "head", "tail", "dimembers") if directed else ("members",))]
                st, isin = attempt(lambda: other in fv)
                if st != "ok" or isin is not False:
                    ob.fail(f"{vn}.__contains__", "id-outside-the-filtered-view-is-in-it", f"{other!r} in view {exp}: {st} {isin}", key)
                for a_, f in probes:
                    st, r = attempt(f)
                    if st != "err:lib":
                        site_ = "IDStat.__getitem__" if a_.endswith(".__getitem__") else f"{vn}.{a_}"
                        ob.fail(site_, "id-outside-the-filtered-view-answered", f"view {exp}, {a_}({other!r}): {st} {r!r}"[:300], key)
            # (3) neighbors asked of a filtered view (uses the bipartite table the new view was handed by from_view)
            for i in exp[:2]:
                for s_ in (1, sp["sp"]):
                    view_ids_obs(ob, f"{vn}.neighbors", "filtered-view-differs-from-definition", lambda: fv.neighbors(i, s_),
                                 nbrs(T, k_, i, s_), key, as_set=True)
            # (4) the set-valued queries asked of the RESTRICTED view.  Their definitions quantify over the network
            # ("no other edge of the hypergraph", "another ID with the same bipartite neighbors", "belongs to no edge"),
            # the answer is a view of THIS view: exactly its IDs that satisfy the definition, in its order — what
            # filterby / isolates() / singletons() / empty() return.  An ID outside the view is wrong under any reading.
            restricted_queries(fv, exp, key, k_, vn, other)
            fs = stats_f(fv, P, directed)
            names = list(fs)
            pd_for = names[step_no % len(names)]          # pandas output of one (rotating) stat per filtered view
            o[skey] = {nm: stat_forms(ob, fs[nm], exp, {i: tstats[nm][i] for i in exp}, KIND.get(nm, "num"), "IDStat", skey,
                                      pandas=(nm == pd_for)) for nm in fs}
            num = [nm for nm in names if KIND.get(nm, "num") == "num"]
            pick = num[step_no % len(num)]
            if exp:
                aggregates(ob, fs[pick], exp, mo, skey, pick + " on a filtered view")
            if key == "nview":
                o["nvfilter"] = {"degree": filters(ob, fv, vn, exp, "degree", tn["degree"], sp["x"], sp["y"], "nvfilter")}
                o["nvfattr"] = attr_filters(ob, fv, vn, exp, T.nattr, P, sp, "nvfattr")
            else:
                o["evfilter"] = {"size": filters(ob, fv, vn, exp, "size", te["size"], sp["x"], sp["y"], "evfilter")}
    guard(ob, "IDView.__call__", "filtered-views", "nview", filtered_views)

    # ---- filterby (by name, by held stat object) / filterby_attr, every mode
    def filterbys():
        x, y = sp["x"], sp["y"]
        o["nfilter"], o["efilter"] = {}, {}
        nf = lambda key, stat, vals, a=x, b=y: (lambda: o["nfilter"].__setitem__(key, filters(ob, held.nv, nvn, T.nodes, stat, vals, a, b, "nfilter", rev)))
        ef = lambda key, stat, vals: (lambda: o["efilter"].__setitem__(key, filters(ob, held.ev, evn, T.edges, stat, vals, x, y, "efilter", rev)))
        calls = [nf("degree", "degree", tn["degree"]), nf("degree_o", held.ns["degree_o"], tn["degree_o"])]
        if directed:
            calls += [nf("in_degree", "in_degree", tn["in_degree"]), nf("out_degree_o", held.ns["out_degree_o"], tn["out_degree_o"])]
        else:
            calls += [nf("and", "average_neighbor_degree", tn["and"], frac(sp["qx"]), frac(sp["qy"]))]
        calls += [ef("size", "size", te["size"]), ef("order", held.es["order"], te["order"]), ef("size_d", held.es["size_d"], te["size_d"])]
        if directed:
            calls += [ef("tail_size", "tail_size", te["tail_size"]), ef("head_order", held.es["head_order"], te["head_order"])]
        # one more (rotating) held stat of each view, predicate only: any numeric stat can be filtered on
        for view, vn, ids, stats, tr, fld in ((held.nv, nvn, T.nodes, held.ns, tn, "nfilter"), (held.ev, evn, T.edges, held.es, te, "efilter")):
            num = [nm for nm in stats if KIND.get(nm, "num") == "num" and nm != "and"
                   and all(isnum(v) for v in tr[nm].values())]
            if num:
                nm = num[(step_no // 2) % len(num)]
                calls.append(lambda view=view, vn=vn, ids=ids, stats=stats, tr=tr, fld=fld, nm=nm:
                             filters(ob, view, vn, ids, stats[nm], tr[nm], x, y, fld, rev))
        calls += [lambda: o.__setitem__("nfattr", attr_filters(ob, held.nv, nvn, T.nodes, T.nattr, P, sp, "nfattr", rev)),
                  lambda: o.__setitem__("efattr", attr_filters(ob, held.ev, evn, T.edges, T.eattr, P, sp, "efattr", rev))]
        in_order(rev, calls)
    guard(ob, "IDView.filterby", "filterby", "nfilter", filterbys)

    # ---- neighbors
    def neighbours():
        s = sp["sp"]
        for key, view, k, vn in (("nnbr", held.nv, "n", nvn), ("enbr", held.ev, "e", evn)):
            rows = {}
            for i in (T.keys(k)[::-1] if rev else T.keys(k)):
                r = {}
                in_order(rev, [
                    lambda: r.__setitem__("a", view_ids_obs(ob, f"{vn}.neighbors", "differs-from-definition", lambda: view.neighbors(i), nbrs(T, k, i, 1), key, as_set=True)),
                    lambda: r.__setitem__("b", view_ids_obs(ob, f"{vn}.neighbors", "differs-from-definition-s", lambda: view.neighbors(i, s), nbrs(T, k, i, s), key, as_set=True))])
                rows[i] = [enc_id(i), r["a"], r["b"]]
            o[key] = [rows[i] for i in T.keys(k)]
        o["nbr_missing"] = [view_ids_obs(ob, f"{nvn}.neighbors", "absent-id", lambda: held.nv.neighbors(ABSENT), "err:lib", "nbr_missing", as_set=True),
                            view_ids_obs(ob, f"{evn}.neighbors", "absent-id", lambda: held.ev.neighbors(ABSENT), "err:lib", "nbr_missing", as_set=True)]
        for i in range(2):       # both raised the library's error: the model says the same
            o["nbr_missing"][i] = "err:lib" if o["nbr_missing"][i] == "$skip" else o["nbr_missing"][i]
    guard(ob, "IDView.neighbors", "neighbors", "nnbr", neighbours)

    # ---- lookup / duplicates
    def lookups():
        for key, view, k, vn, lk in (("nlookup", held.nv, "n", nvn, "nlookup"), ("elookup", held.ev, "e", evn, "elookup")):
            sought = [tuple(b) if isinstance(b, list) else b for b in sp[lk]]
            exp = [i for i in T.keys(k) if T.tab(k)[i] == set(sought)]
            o[key] = view_ids_obs(ob, f"{vn}.lookup", "differs-from-definition", lambda: view.lookup(sought), exp, key)
        for key, view, k, vn in (("ndups", held.nv, "n", nvn), ("edups", held.ev, "e", evn)):
            st, r = attempt(lambda: list(view.duplicates()))
            if st != "ok":
                ob.fail(f"{vn}.duplicates", "raises", f"{st}: {r}", key); o[key] = st
                continue
            got = r
            o[key] = [enc_id(i) for i in got]
            bad = None
            for c in classes(T, k):
                rep = [i for i in c if i not in set(got)]
                if (len(c) == 1 and rep != c) or (len(c) > 1 and len(rep) != 1):
                    bad = f"class {c} (same bipartite neighbours): reported {[i for i in c if i in set(got)]}"
            if bad or not set(got) <= set(T.keys(k)):
                ob.fail(f"{vn}.duplicates", "not-all-but-one-per-class", bad or f"{got}", key)
            elif got != [i for i in T.keys(k) if i in set(got)]:
                ob.fail(f"{vn}.duplicates", "not-view-order", f"{got}", key)
    guard(ob, "IDView.lookup", "lookup-duplicates", "nlookup", lookups)

    # ---- isolates / singletons / empty / maximal
    def queries():
        iso = [n for n in T.nodes if not T.memb[n]]
        iso2 = [n for n in T.nodes if all(len(T.mem[e]) == 1 for e in T.memb[n])]
        in_order(rev, [lambda: o.__setitem__("isolates", view_ids_obs(ob, f"{nvn}.isolates", "differs-from-definition", held.nv.isolates, iso, "isolates"))]
                 + ([] if directed else [
                     lambda: o.__setitem__("isolates_is", view_ids_obs(ob, f"{nvn}.isolates", "differs-from-definition-ignore-singletons",
                                                                       lambda: held.nv.isolates(ignore_singletons=True), iso2, "isolates_is"))]))
        emp = [e for e in T.edges if not T.mem[e]]
        o["empty"] = view_ids_obs(ob, f"{evn}.empty", "differs-from-definition", held.ev.empty, emp, "empty")
        if not directed:
            o["singletons"] = view_ids_obs(ob, f"{evn}.singletons", "differs-from-definition", held.ev.singletons,
                                           [e for e in T.edges if len(T.mem[e]) == 1], "singletons")
            in_order(rev, [
                lambda: o.__setitem__("maximal", view_ids_obs(ob, f"{evn}.maximal", "differs-from-definition", held.ev.maximal,
                                                              maximal_def(T, False), "maximal")),
                lambda: o.__setitem__("maximal_strict", view_ids_obs(ob, f"{evn}.maximal", "differs-from-definition-strict",
                                                                     lambda: held.ev.maximal(strict=True), maximal_def(T, True), "maximal_strict"))])
        # DiNodeView.isolates takes no `ignore_singletons`; DiEdgeView has no singletons() / maximal(): what these would
        # return is what the same filters return on the directed views (size = |tail ∪ head|), so that is what is read
        else:
            o["singletons"] = view_ids_obs(ob, f"{evn}.filterby", "singletons-differs-from-definition", lambda: held.ev.filterby("size", 1),
                                           [e for e in T.edges if len(T.mem[e]) == 1], "singletons")
    guard(ob, "IDView.isolates", "isolates-singletons-empty-maximal", "isolates", queries)
    return ob


STABLE_OPS = {"add_node", "add_nodes_from", "add_edge", "add_edges_from", "add_weighted_edges_from", "add_node_to_edge",
              "remove_node", "remove_nodes_from", "remove_edge", "remove_edges_from", "remove_node_from_edge",
              "set_node_attributes", "set_edge_attributes", "set_net_attr", "double_edge_swap", "random_edge_shuffle",
              "update", "add_simplex", "add_simplices_from", "add_weighted_simplices_from", "remove_simplex_id",
              "remove_simplex_ids_from", "has_simplex", "freeze"}


# ----------------------------------------------------------------------------- running histories

class Family:
    """one network class: module with the generator/executor, whether directed, how the model gets the state"""

    def __init__(self, name, M, directed, mode):
        self.name, self.M, self.directed, self.mode = name, M, directed, mode     # mode: "replay" | "load" | "dload"

    def net(self, box):
        return box.H if self.directed else box


FAMILIES = {
    "Hypergraph": Family("Hypergraph", MH, False, "replay"),
    "SimplicialComplex": Family("SimplicialComplex", MS, False, "load"),
    "DiHypergraph": Family("DiHypergraph", MD, True, "dload"),
}


def observe_request(P, sp, T):
    r = {"op": "observe", "k": P["k"], "w": P["w"], "d": P["d"], "attr": P["attr"], "missing": enc_val_req(P["missing"]), "mo": P.get("mo", 2),
         "x": sp["x"], "y": sp["y"], "qx": sp["qx"], "qy": sp["qy"], "ax": enc_val_req(sp["ax"]), "ay": enc_val_req(sp["ay"]),
         "sp": sp["sp"], "nbunch": sp["nbunch"], "ebunch": sp["ebunch"], "nlookup": sp["nlookup"], "elookup": sp["elookup"],
         # oracle: the order in which `set(view ids)` iterates (the order `_val` is built in)
         "norder": [enc_id(i) for i in set(T.nodes)], "eorder": [enc_id(i) for i in set(T.edges)]}
    return r


def run_history(fam, ops, P, rng=None, steps=None, fixed_sp=None, want_requests=True):
    """run one history with held objects.  Returns list of per-step records
    dict(op, out, obs (Obs|None), sp, truth_ok, requests=[…], nontrivial-hash)"""
    M = fam.M
    box = M.factory()
    held = Held(fam.net(box), P, fam.directed)
    recs = []
    prev_order = {"nodes": [], "edges": []}
    cur_sp = None
    for i, op in enumerate(ops):
        out, exc = M.apply_impl(box, op)
        H = fam.net(box)
        rebuilt = False
        if H is not held.H:           # `copy` / `cleanup(in_place=False)` continue on the returned network
            held = Held(H, P, fam.directed)
            rebuilt = True
        st, T = attempt(lambda: Truth(H, fam.directed))
        rec = {"op": op, "out": out, "obs": None, "sp": None, "skipped": None, "rebuilt": rebuilt, "T": None}
        if st != "ok" or not T.wellformed():
            rec["skipped"] = "state violates the incidence invariant (C01/C02/C03's business)" if st == "ok" else f"state unreadable: {st}"
            prev_order = None
        else:
            if fixed_sp is not None:
                sp = fixed_sp
            elif steps is not None:
                sp = steps[i]
            elif P.get("fixsp") and cur_sp is not None and i % 4:
                sp = cur_sp        # the same query arguments before and after the edit (refreshed every 4th call)
            else:
                sp = gen_step(rng, T)
            cur_sp = sp
            rec["sp"], rec["T"] = sp, T
            try:
                rec["obs"] = observe(held, T, sp, None if rebuilt else prev_order, op, step_no=i)
            except Exception as e:  # noqa
                # reading the held views / stats crashed in a way no clause anticipated (never happens on a tree where the
                # views are live): the observation itself is the failure
                ob = Obs()
                ob.fail("held views and statistics", "observation-crashed:" + type(e).__name__,
                        f"reading the objects held since the empty network after {op.get('op')} raised {type(e).__name__}: {e}", "held")
                rec["obs"] = ob
            prev_order = {"nodes": list(T.nodes), "edges": list(T.edges)}
        recs.append(rec)
    return recs


def first_failure(fam, ops, P, sp, want=None):
    """re-run `ops` evaluating the predicate after every call with the fixed step arguments `sp`"""
    try:
        recs = run_history(fam, copy.deepcopy(ops), P, fixed_sp=sp)
    except Exception:  # noqa
        return None
    for i, r in enumerate(recs):
        if r["obs"] is not None:
            for f in r["obs"].fails:
                if want is None or (f[0], f[1]) == want:
                    return i, f
    return None


def record_violation(ctx, fam, ops, i, P, sp, f, shrunk):
    site, cls, detail, _ = f
    key = (site, cls)
    case_ops = ops[: i + 1]
    if key not in shrunk:
        shrunk.add(key)
        still = lambda cand: first_failure(fam, cand, P, sp, key) is not None
        if still(case_ops):
            case_ops = shrink(case_ops, still, budget=120)
            r = first_failure(fam, case_ops, P, sp, key)
            if r:
                detail = r[1][2]
    ctx.violation(site, cls, {"class": fam.name, "ops": [fam.M.to_request(o) for o in case_ops], "raw_ops": case_ops,
                              "params": P, "step": sp}, detail=detail)


def model_requests(ctx, fam, histories, all_recs):
    """the histories (replay) or the states (load/dload) plus the observe requests, for the driver"""
    max_edges = ctx.n(28, 10 ** 9)      # quick tier: installed states with many edges are checked by the predicate only
    reqs, index = [], []
    for hi, (ops, P) in enumerate(histories):
        recs = all_recs[hi]
        if fam.mode == "replay":
            reqs.append({"op": "reset"}); index.append(None)
        for oi, rec in enumerate(recs):
            if fam.mode == "replay":
                reqs.append(fam.M.to_request(rec["op"])); index.append(("op", hi, oi))
            if rec["obs"] is None:
                continue
            if fam.mode != "replay" and len(rec["T"].edges) > max_edges:
                ctx.stats[f"{fam.name}:state_too_large_for_quick_model_comparison"] += 1
                continue
            if fam.mode != "replay":
                reqs.append({"op": "load" if fam.mode == "load" else "dload", **rec["T"].tables()}); index.append(None)
            q = observe_request(P, rec["sp"], rec["T"])
            if fam.mode == "dload":
                q["op"] = "dobserve"
            reqs.append(q); index.append(("obs", hi, oi))
    return reqs, index


def compare_model(ctx, fam, histories, all_recs, reqs, index, resps):
    """diff the driver's answers with the observations"""
    dead, dis = set(), []
    for r, ix, q in zip(resps, index, reqs):
        if ix is None:
            if r.get("out") == "bad-op":
                raise Infra(f"C06 driver rejected {json.dumps(q)[:300]}")
            continue
        what, hi, oi = ix
        if hi in dead:
            continue
        rec = all_recs[hi][oi]
        if r.get("out") == "bad-op":
            raise Infra(f"C06 driver rejected request as bad-op (harness defect): {json.dumps(q)[:400]}")
        if r.get("out") == "unmodelled":
            ctx.stats[f"{fam.name}:unmodelled_tail"] += 1
            dead.add(hi); continue
        if what == "op":
            # the state itself (C05's subject) must agree, otherwise the observations are not comparable
            if rec["T"] is not None:
                m = canon(r)
                t = rec["T"].tables()
                same = (m["nodes"] == t["nodes"] and m["edges"] == t["edges"] and m["mem"] == [[e, ms] for e, ms in t["mem"]]
                        and m["memb"] == [[n, es] for n, es in t["memb"]])
                if not same:
                    dead.add(hi)
                    dis.append((hi, oi, ["state"], {"nodes": m["nodes"], "edges": m["edges"], "mem": m["mem"]},
                                {"nodes": t["nodes"], "edges": t["edges"], "mem": t["mem"]}))
            continue
        ctx.traces += 1
        m = canon(r)
        im = rec["obs"].o
        explained = {f[3] for f in rec["obs"].fails}
        diff = [k for k in im if k not in explained and not agree(m.get(k), im[k])]
        missing = [k for k in m if k not in im and k != "out" and not (fam.directed and k in ())]
        if diff or missing:
            dead.add(hi)
            dis.append((hi, oi, diff + ["missing:" + k for k in missing], {k: m.get(k) for k in diff}, {k: im[k] for k in diff}))
    for hi, oi, diff, m, im in dis[:40]:
        ops = histories[hi][0][: oi + 1]
        ctx.stats[f"disagree:{fam.name}:" + ",".join(diff)[:60]] += 1
        ctx.extra.setdefault("disagreements", [])
        if len(ctx.extra["disagreements"]) < 4:
            ctx.extra["disagreements"].append({"class": fam.name, "ops": [fam.M.to_request(o) for o in ops], "params": histories[hi][1],
                                               "step": all_recs[hi][oi]["sp"], "fields": diff,
                                               "model": json.loads(json.dumps(m, default=repr))if m else m, "impl": im})
    ctx.extra["disagreements_total"] = ctx.extra.get("disagreements_total", 0) + len(dis)
    if dis:
        ctx.broken.append(f"correspondence C06 views/stats ~ {fam.name}: model and implementation differ on "
                          f"{sorted({d for _, _, diff, *_ in dis for d in diff})[:8]}")
    return dis


_POOL = ThreadPoolExecutor(max_workers=6)


def _timed_driver(reqs):
    t = time.time()
    return run_driver("C06", reqs), time.time() - t


def run_family(ctx, fam, n_hist, model_ok, shrunk, hist_len=(1, 22), weights=None, extra=()):
    """run the histories of one class on the implementation (predicate after every call) and START the model's
    evaluation of the same observations in the background (the driver is a separate process); `collect` diffs"""
    rng = ctx.rng
    t0 = time.time()
    histories = [(copy.deepcopy(h["ops"]), h["params"]) for h in extra if h.get("class") == fam.name]
    for _ in range(n_hist):
        ops, P = fam.M.gen_history(rng, hist_len[0], hist_len[1], weights), gen_params(rng)
        if P["numw"]:
            numeric_weights(ops, P["w"], rng)
            ctx.stats[f"{fam.name}:histories_with_integer_weights"] += 1
        histories.append((ops, P))
    all_recs = []
    for ops, P in histories:
        recs = run_history(fam, ops, P, rng=rng)
        all_recs.append(recs)
        kinds = set()
        for i, rec in enumerate(recs):
            ctx.stats[f"{fam.name}:op:" + rec["op"]["op"]] += 1
            kinds.add(rec["op"]["op"])
            if rec["obs"] is None:
                ctx.stats[f"{fam.name}:skipped_state"] += 1
                continue
            ctx.evaluations += 1
            T = rec["T"]
            if len(kinds) >= 2 and any(len(ms) >= 2 for ms in T.mem.values()):
                ctx.nontrivial.add(jhash([fam.name, T.tables()]))
            if rec["rebuilt"]:
                ctx.stats[f"{fam.name}:held_objects_recreated_after_copy"] += 1
            coverage(ctx, fam, rec["obs"].o)
            seen = set()
            for f in rec["obs"].fails:
                if (f[0], f[1]) in seen:
                    continue
                seen.add((f[0], f[1]))
                record_violation(ctx, fam, ops, i, P, rec["sp"], f, shrunk)
        if recs:
            last = next((r for r in reversed(recs) if r["obs"] is not None), None)
            if last is not None:
                ctx.sample({"class": fam.name, "ops": [fam.M.to_request(o) for o in ops[:5]], "params": P,
                            "nodes": last["obs"].o.get("nodes"), "degree": ((last["obs"].o.get("nstats") or {}).get("degree") or {}).get("asdict")
                            if isinstance((last["obs"].o.get("nstats") or {}).get("degree"), dict) else None}, cap=3)
    ctx.stats[f"{fam.name}:histories"] += len(histories)
    tm = ctx.extra.setdefault("timing_s", {})
    tm[f"{fam.name}:implementation+predicate"] = round(tm.get(f"{fam.name}:implementation+predicate", 0) + time.time() - t0, 1)
    pending = None
    if model_ok:
        reqs, index = model_requests(ctx, fam, histories, all_recs)
        pending = (reqs, index, _POOL.submit(_timed_driver, reqs))
    return {"fam": fam, "histories": histories, "all_recs": all_recs, "pending": pending, "dis": []}


def collect(ctx, res):
    """wait for the model's answers of one run_family and diff them; returns the disagreements"""
    if res["pending"] is None:
        return []
    reqs, index, fut = res["pending"]
    resps, dt = fut.result()
    res["pending"] = None
    fam = res["fam"]
    tm = ctx.extra.setdefault("timing_s", {})
    tm[f"{fam.name}:model(background)"] = round(tm.get(f"{fam.name}:model(background)", 0) + dt, 1)
    res["dis"] = compare_model(ctx, fam, res["histories"], res["all_recs"], reqs, index, resps)
    return res["dis"]


def coverage(ctx, fam, o):
    """measured: how often each held stat / aggregate / table actually produced values (not an exception, not $skip)"""
    for grp in ("nstats", "estats"):
        for nm, v in (o.get(grp) or {}).items():
            ctx.stats[f"{fam.name}:read:{grp}:{nm}:" + ("values" if isinstance(v, dict) else "raises-or-skipped")] += 1
    ns = o.get("nstats") or {}
    for b in ("degree", "in_degree", "out_degree"):
        u, w = ns.get(b), ns.get(b + "_w")
        if isinstance(u, dict) and isinstance(w, dict) and u.get("asdict") != w.get("asdict"):
            ctx.stats[f"{fam.name}:read:{b}_w-differs-from-{b}"] += 1     # a weight other than the default 1 was summed
    for grp in ("nagg", "eagg"):
        for nm, v in (o.get(grp) or {}).items():
            if isinstance(v, dict):
                ctx.stats[f"{fam.name}:read:{grp}:{nm}"] += 1
    for grp in ("nmulti", "emulti", "nmulti2", "emulti2"):
        v = o.get(grp)
        if isinstance(v, dict) and isinstance(v.get("asnumpy"), list):
            ctx.stats[f"{fam.name}:read:{grp}:asnumpy-compared"] += 1


def small_scope(n_nodes, max_edges):
    """every hypergraph over n_nodes labelled nodes (inserted in decreasing order, so view order differs from sorted
    order) with <= max_edges distinct edges among all subsets INCLUDING the empty edge, each also with its first edge
    repeated (a multi-edge); as histories `add_nodes_from` + one `add_edge` per edge, so the objects are held across
    the construction"""
    import itertools
    nodes = list(range(n_nodes))[::-1]
    subsets = [list(c) for r in range(0, n_nodes + 1) for c in itertools.combinations(nodes, r)]
    P = {"k": 1, "w": "w", "d": 2, "attr": "color", "missing": None}
    count = 0
    for k in range(max_edges + 1):
        for combo in itertools.combinations(subsets, k):
            for dup in ((False, True) if combo else (False,)):
                es = list(combo) + ([combo[0]] if dup else [])
                ops = [{"op": "add_nodes_from", "items": [{"n": n} for n in nodes], "attr": []}]
                ops += [{"op": "add_edge", "members_raw": list(ms), "idx": i, "attr": [["w", i]] if i % 2 else []} for i, ms in enumerate(es)]
                count += 1
                yield {"class": "Hypergraph", "ops": ops, "params": dict(P, rot=count)}


def corpus_cases():
    out = []
    import glob
    from ..core import VERIF
    for f in sorted(glob.glob(os.path.join(VERIF, "corpus", "C06", "*.json"))):
        try:
            j = json.load(open(f))
            c = j.get("case", j)
            if "raw_ops" in c:
                out.append({"class": c["class"], "ops": c["raw_ops"], "params": c["params"]})
        except Exception:  # noqa
            pass
    return out


def run(ctx):
    ok = build_and_audit(ctx, "XgiModel.Props.C06", ["XgiModel.C06.Drive"])
    ctx.extra["timing_s"] = {"build+audit": round(time.time() - ctx.t0, 1)}
    ctx.rule = ("edit histories of 1-22 public mutator calls (generators of harness/hg.py, sc.py, dhg.py; in ~65 % of the histories "
                "the values stored under the weight key are made integers) on Hypergraph, SimplicialComplex and DiHypergraph. Created ONCE "
                "before the first call and read after every call: the two views; every (stat x argument combination) — degree / "
                "in_degree / out_degree each with (), (order), (weight), (order, weight) [12 directed branches], "
                "average_neighbor_degree, size / order / tail_* / head_* each with and without degree=, attrs(), attrs(a), "
                "attrs(a, missing), arguments by keyword or positionally — in asdict / aslist / asnumpy / aspandas / [id]; the "
                "aggregates max min sum mean median mode std var moment(raw, central) argmax argmin argsort(reverse) unique(counts) "
                "items iter len of every numeric stat against their definitions on asdict(); two multi-stat tables per view (one "
                "mixed, one numeric) in asdict / aslist (inner list|dict, transposed or not) / asnumpy / aspandas; members / "
                "memberships / head / tail / dimembers / dimemberships / sources / targets / view[id] / ids of the held views. "
                "Queries on the held views: filtered views and every stat on them, filterby (7 modes + callable + unknown mode; "
                "by name and by held stat object, one more rotating stat per step), filterby_attr (7 modes), neighbors (s), "
                "lookup, duplicates, isolates (ignore_singletons), singletons, empty, maximal (strict); from_view(view) with the default "
                "bunch (fresh and held); the 12 other stats in rotation (formats, liveness, restriction). Query / edit / same "
                "query: the argument variants of one method are called in palindromic order over consecutive steps and in half "
                "of the histories the query arguments stay fixed for 4 calls, so the last call before an edit and the first "
                "call after it are the same call on the same persistent object. non-trivial = distinct state (incidence + "
                "attributes) with an edge of >= 2 members reached through >= 2 op kinds")
    shrunk = set()
    extra = corpus_cases()
    ctx.stats["corpus_histories"] = len(extra)
    plan = [("Hypergraph", ctx.n(60, 1000)), ("DiHypergraph", ctx.n(32, 470)), ("SimplicialComplex", ctx.n(18, 140))]
    results = {}
    for name, n in plan:
        fam = FAMILIES[name]
        # `clear()` / `clear_edges()` in the middle of a history are what held views are most exposed to
        boost = {"clear": 4, "clear_edges": 4} if name != "DiHypergraph" else {"clear": 4}
        results[name] = run_family(ctx, fam, n, ok and model_available(fam), shrunk, extra=extra, weights=boost)
    # exhaustive small scope of the correspondence (validation of the model, not the proof)
    nn, me = ctx.n(3, 4), ctx.n(2, 3)
    small = list(small_scope(nn, me))
    results["small-scope"] = run_family(ctx, FAMILIES["Hypergraph"], 0, ok, shrunk, extra=small)
    ctx.stats["small_scope_hypergraphs"] = len(small)
    ctx.exhaustive = True
    ctx.extra["exhaustive_space"] = (f"correspondence + predicate on every hypergraph with {nn} labelled nodes and <= {me} distinct edges "
                               f"among all {2 ** nn} subsets (empty edge included), each also with its first edge doubled: {len(small)} "
                               "hypergraphs, observed after every construction step with objects held from the empty network on")
    for name in results:
        collect(ctx, results[name])
    unexplained = any(r["dis"] for r in results.values())
    if (unexplained or not ok) and not any(v["kind"] == "concrete" for v in unlisted_violations(ctx)):
        # look harder on the implementation alone, biased to the op kinds of the disagreeing histories
        for name, n in plan:
            fam = FAMILIES[name]
            res = results[name]
            kinds = {}
            for hi, oi, *_ in res["dis"]:
                for op in res["histories"][hi][0][: oi + 1]:
                    kinds[op["op"]] = 30
            run_family(ctx, fam, ctx.n(150, 1500), False, shrunk, weights=kinds or None)
        if not any(v["kind"] == "concrete" for v in unlisted_violations(ctx)):
            ctx.violation("model-tie", "unproven", {"broken": ctx.broken, "example": ctx.extra.get("disagreements", [])[:1]},
                          detail="; ".join(ctx.broken)[:500], kind="unproven", broken=ctx.broken)
    elif unexplained:
        # disagreements next to concrete violations: if every concrete violation is a known finding, the
        # correspondence is still broken for another reason -> report it
        ctx.violation("model-tie", "unproven", {"broken": ctx.broken, "example": ctx.extra.get("disagreements", [])[:1]},
                      detail="; ".join(ctx.broken)[:500], kind="unproven", broken=ctx.broken)
    ctx.assumptions = [
        "IDs restricted to int/str/tuple-of-atoms; attribute values int/str/None/opaque JSON/sets (bool and float values outside the model)",
        "the predicate is evaluated on states that satisfy the two-way incidence invariant (C01/C02/C03's subject); other states are counted as skipped",
        "a held FILTERED view naming an ID removed later may raise — not counted (DESIGN §7); filtered views are created from the held full views at every step",
        "after `copy` / `cleanup(in_place=False)` of a DiHypergraph history the held objects are re-created on the returned network",
        "numpy/pandas/scipy are oracles: asnumpy/aspandas values are compared when the values are scalars of one type (np.array / pd.Series "
        "coerce mixed lists; a table with list- or dict-valued attribute cells is not compared); aggregates are compared with exact "
        "definitions by the float rule; `mode` may be any most frequent value; `ashist` (numpy binning) is not read",
        "statistics whose VALUES are checked: degree family, average_neighbor_degree, attrs, size/order family. Clustering coefficients, "
        "centralities, local simpliciality stats and the edge stat node_edge_centrality are read for format agreement, view order, "
        "liveness (held object = fresh object) and restriction to a filtered view only (one per 2nd step, states of <= 8 nodes / 10 "
        "edges; values are other properties' subject); the three eigenvector centralities (unseeded random start: two evaluations "
        "differ) on keys and shapes only",
        "IDView.from_view(view) without a bunch, the constructors NodeView(H, bunch) / EdgeView(H, bunch) / directed, and members / "
        "memberships / neighbors asked of filtered views are compared with the brute-force definitions (predicate only)",
        "weighted degrees: integer weights are compared with the model; a non-numeric weight makes the stat raise TypeError (checked); "
        "bool/float weights and `weight=''` are outside the model",
        "DiNodeView.isolates has no ignore_singletons, DiEdgeView has no singletons()/maximal(): for the directed class isolates(), empty() and "
        "filterby('size', 1) are read instead",
    ]
    return finish(ctx, trusted_base=TRUSTED_COMMON + [
        "harness/props/c06.py: brute-force definitions over freshly constructed views (NodeView(H), EdgeView(H), DiNodeView, DiEdgeView), "
        "float rule |x - p/q| <= 1e-9 max(1,|p/q|) for average_neighbor_degree and the aggregates",
        "liveness (Python object aliasing: views hold the network's dicts, stat values are recomputed) is not a theorem: it is exhibited "
        "only by reading objects held across the whole history and comparing them with fresh views and with the model after every call"])


def model_available(fam):
    if fam.mode != "dload":
        return True
    from ..core import LEAN
    return os.path.exists(os.path.join(LEAN, "XgiModel", "C06", "DiViews.lean"))


def replay(ctx, path):
    """./check C06 --replay <file>: re-run a stored history with held objects; report the first predicate failure"""
    j = json.load(open(path))
    case = j.get("case", j)
    fam = FAMILIES[case["class"]]
    # the failure the file records; otherwise any failure that is not a listed known finding
    want = (j["site"], j["failure_class"]) if "site" in j and "failure_class" in j else None
    r = first_failure(fam, case["raw_ops"], case["params"], case["step"], want) if want else None
    if r is None:
        from ..core import load_known
        known = {(k["site"], k["failure_class"]) for k in load_known() if k["property"] == "C06"}
        for i, rec in enumerate(run_history(fam, copy.deepcopy(case["raw_ops"]), case["params"], fixed_sp=case["step"])):
            f = next((f for f in (rec["obs"].fails if rec["obs"] is not None else []) if (f[0], f[1]) not in known), None)
            if f is not None:
                r = (i, f)
                break
    if r is None:
        print(f"C06 replay {path}: predicate holds after every call ({len(case['raw_ops'])} ops; known findings aside)")
        return 0
    i, f = r
    print(f"C06 replay {path}: VIOLATION after op {i} ({case['raw_ops'][i]['op']}) site={f[0]} class={f[1]}: {f[2]}")
    return 1
