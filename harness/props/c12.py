"""C12 — matrix representations encode the network exactly.

One *case* = (network, function of xgi.linalg, options other than sparse/index).  For every case the real
function is called for every (sparse, index) combination it accepts; sparse results are densified and all
variants must agree (sparse == dense, index=True == index=False).  The property's predicate is evaluated on
the implementation's result against a brute-force construction from `members()`; the same request is sent to
the Lean model (Drivers/C12.lean) and compared entry-wise through the returned index maps (ints exactly,
rationals with the float rule `approx_equal`).
"""
import glob
import itertools
import json
import math
import os
import warnings
from fractions import Fraction

import numpy as np
import xgi
from xgi.exception import XGIError

from .. import core
from ..core import OUT, TRUSTED_COMMON, VERIF, build_and_audit, dec_id, enc_id, finish, is_known, jhash, jsonable, load_known
from ..fn import all_small_hypergraphs, approx_equal, gen_hypergraph, run_fn

ORDERS = [None, 0, 1, 2, 3]
TOL = 1e-9
KNOWN_SUFFIX = "@weighted-nonunit"

# ----------------------------------------------------------------------------- building the real network


def build(net, weights=None):
    """Hypergraph with nodes/edges in the listed order; an edge listed with no members is produced by
    adding a one-member edge and removing the member with remove_empty=False (public API only)"""
    H = xgi.Hypergraph()
    nodes = [dec_id(n) for n in net["nodes"]]
    H.add_nodes_from(nodes)
    for e, ms in net["edges"]:
        e = dec_id(e)
        if ms:
            H.add_edge([dec_id(x) for x in ms], idx=e)
        else:
            tmp = nodes[0] if nodes else "__tmp__"
            H.add_edge([tmp], idx=e)
            H.remove_node_from_edge(e, tmp, remove_empty=False)
            if not nodes:
                H.remove_node(tmp)
    if weights is not None:
        for (e, _), w in zip(net["edges"], weights):
            if w is not None:
                f = Fraction(w)
                H.set_edge_attributes({dec_id(e): (int(f) if f.denominator == 1 else float(f))}, name="weight")
    return H


def dense(a):
    return a.toarray() if hasattr(a, "toarray") else np.asarray(a)


def is_sparse(a):
    return hasattr(a, "toarray")


def tolist(a):
    return dense(a).tolist()


def labels(d):
    """index dict {i: label} -> label list in index order; None when the keys are not 0..len-1"""
    if sorted(d.keys()) != list(range(len(d))):
        return None
    return [enc_id(d[i]) for i in range(len(d))]


# ----------------------------------------------------------------------------- calling the implementation

def _call(fn, *a, **k):
    """returns ("ok", value) | (outcome enum, message)"""
    with warnings.catch_warnings():
        warnings.simplefilter("ignore")
        with np.errstate(all="ignore"):
            try:
                return "ok", fn(*a, **k)
            except (XGIError,) as ex:
                return "err:lib", str(ex)
            except ValueError as ex:
                return "err:value", str(ex)
            except ZeroDivisionError as ex:
                return "undefined", str(ex)
            except Exception as ex:  # noqa
                return "err:" + type(ex).__name__, str(ex)


def _finite(x):
    if isinstance(x, list):
        return all(_finite(y) for y in x)
    return not (isinstance(x, float) and (math.isnan(x) or math.isinf(x)))


def _same(a, b):
    """two dense results (nested lists of numbers) equal: ints exactly, floats to 1e-9"""
    if isinstance(a, list) != isinstance(b, list):
        return False
    if isinstance(a, list):
        return len(a) == len(b) and all(_same(x, y) for x, y in zip(a, b))
    if isinstance(a, float) or isinstance(b, float):
        return abs(a - b) <= TOL * max(1.0, abs(a), abs(b))
    return a == b


def call_variants(ctx, fn, H, kw, has_sparse=True, n_index=1):
    """call fn(H, **kw, sparse=…, index=…) for every combination; returns (result dict, problems).
    n_index = number of index dicts returned with index=True."""
    problems = []
    ref = None
    for sparse in ([False, True] if has_sparse else [None]):
        for index in (True, False):
            k = dict(kw)
            if sparse is not None:
                k["sparse"] = sparse
            k["index"] = index
            if ctx is not None and ref is not None:
                ctx.evaluations += 1  # run_fn counts one evaluation per case (the reference call); count the other variants here
            out, val = _call(fn, H, **k)
            if out == "ok":
                if index:
                    if not (isinstance(val, tuple) and len(val) == 1 + n_index):
                        problems.append(("index-return-shape", f"index=True returned {type(val).__name__}"))
                        continue
                    mat, dicts = val[0], list(val[1:])
                else:
                    mat, dicts = val, None
                if isinstance(mat, tuple):
                    problems.append(("index-return-shape", "index=False returned a tuple"))
                    continue
                if sparse is not None and is_sparse(mat) != sparse:
                    problems.append(("wrong-container", f"sparse={sparse} returned {type(mat).__name__}"))
                arr = dense(mat)
                r = {"out": "ok", "shape": list(arr.shape), "mat": arr.tolist()}
                if not _finite(r["mat"]):
                    r = {"out": "undefined"}
                elif dicts is not None:
                    r["dicts"] = [labels(d) for d in dicts]
            else:
                r = {"out": out, "msg": val[:160]}
            if ref is None:
                ref = r
                continue
            # compare this variant with the reference (dense, index=True)
            tag = "sparse-dense-differ" if sparse else "index-variant-differs"
            if r["out"] != ref["out"]:
                problems.append((tag, f"sparse={sparse} index={index}: outcome {r['out']} vs {ref['out']}"))
            elif r["out"] == "ok":
                if r["shape"] != ref["shape"] or not _same(r["mat"], ref["mat"]):
                    problems.append((tag, f"sparse={sparse} index={index}: shape {r['shape']} matrix {r['mat']} vs dense "
                                          f"shape {ref['shape']} {ref['mat']}"[:400]))
                if "dicts" in r and r["dicts"] != ref["dicts"]:
                    problems.append((tag, f"sparse={sparse} index={index}: index dicts {r['dicts']} vs {ref['dicts']}"[:300]))
    return ref, problems


# public function name -> (callable, has a `sparse` parameter, number of index dicts returned with index=True)
FUNCS = {
    "incidence_matrix": (xgi.incidence_matrix, True, 2),
    "adjacency_matrix": (xgi.adjacency_matrix, True, 1),
    "degree_matrix": (xgi.degree_matrix, False, 1),
    "intersection_profile": (xgi.intersection_profile, True, 1),
    "clique_motif_matrix": (xgi.clique_motif_matrix, True, 1),
    "laplacian": (xgi.laplacian, True, 1),
    "multiorder_laplacian": (xgi.multiorder_laplacian, True, 1),
    "normalized_hypergraph_laplacian": (xgi.normalized_hypergraph_laplacian, True, 1),
    "adjacency_tensor": (xgi.adjacency_tensor, False, 1),
}
SHORT = {"incidence_matrix": "incidence", "adjacency_matrix": "adjacency", "degree_matrix": "degree",
         "intersection_profile": "profile", "clique_motif_matrix": "clique", "laplacian": "laplacian",
         "multiorder_laplacian": "multiorder", "normalized_hypergraph_laplacian": "normalized", "adjacency_tensor": "tensor"}


def kwargs_of(c):
    f = SHORT[c["f"]]
    if f in ("incidence", "degree", "profile"):
        return {"order": c["order"]}
    if f == "adjacency":
        return {"order": c["order"], "s": c["s"], "weighted": c["weighted"]}
    if f == "clique":
        return {}
    if f == "laplacian":
        return {"order": c["order"], "rescale_per_node": c["rescale"]}
    if f == "multiorder":
        return {"orders": list(c["orders"]), "weights": [float(Fraction(w)) for w in c["weights"]],
                "rescale_per_node": c["rescale"]}
    if f == "normalized":
        return {"weighted": c["weighted"]}
    if f == "tensor":
        return {"order": c["order"], "normalized": c["normalized"]}
    raise KeyError(f)


_CTX = [None]


WEIGHT_DEFAULT_MARK = 1000  # added to the callback's value when its third argument is not the hypergraph


def weight_table(c):
    """{(node json, edge json): value} of a `weight=` callback case"""
    return {(json.dumps(n), json.dumps(e)): v for n, e, v in c["wt"]}


def make_weight(c, H):
    """the callback handed to incidence_matrix(weight=…): a NON-symmetric table lookup on (node, edge) with a default for
    every other pair (so swapped arguments are visible); the third argument must be the hypergraph itself"""
    tbl, dflt = weight_table(c), c["wdef"]

    def weight(node, edge, Hh):
        v = tbl.get((json.dumps(enc_id(node)), json.dumps(enc_id(edge))), dflt)
        return v if Hh is H else v + WEIGHT_DEFAULT_MARK
    return weight


def impl(c):
    fn, has_sparse, n_index = FUNCS[c["f"]]
    H = build(c["net"], c.get("weights") if c["f"] == "normalized_hypergraph_laplacian" else None)
    kw = kwargs_of(c)
    if "wt" in c:
        kw["weight"] = make_weight(c, H)
    ref, problems = call_variants(_CTX[0], fn, H, kw, has_sparse, n_index)
    ref = dict(ref)
    ref["problems"] = problems
    return ref


# ----------------------------------------------------------------------------- brute force from members()

def members_of(c):
    """(nodes, [(edge id, member set)]) straight from the case (these are what members() shows)"""
    return c["net"]["nodes"], [(e, list(ms)) for e, ms in c["net"]["edges"]]


def of_order(edges, order):
    return [(e, ms) for e, ms in edges if order is None or len(ms) == order + 1]


def count(edges, a, b):
    return sum(1 for _, ms in edges if a in ms and b in ms)


def bf_lap(nodes, edges, d, rescale):
    """textbook order-d Laplacian d*K_d - A_d (Fractions); None if undefined"""
    es = of_order(edges, d)
    L = [[Fraction(0)] * len(nodes) for _ in nodes]
    for i, a in enumerate(nodes):
        for k, b in enumerate(nodes):
            if i == k:
                L[i][k] = Fraction(d * sum(1 for _, ms in es if a in ms))
            else:
                L[i][k] = Fraction(-count(es, a, b))
    if rescale:
        if d == 0:
            return None
        L = [[v / d for v in r] for r in L]
    return L


def quad(L, x):
    return sum(x[i] * L[i][k] * x[k] for i in range(len(x)) for k in range(len(x)))


def check_lap_like(site, mat, rng, fails, psd=True):
    """zero row sums, symmetry, x^T L x >= -1e-9 (relative) on random x and on the eigenvector of the least eigenvalue"""
    n = len(mat)
    scale = max([1.0] + [abs(v) for r in mat for v in r])
    for i in range(n):
        if abs(sum(mat[i])) > TOL * scale * max(1, n):
            fails.append((site + "-row-sum-nonzero", f"row {i} sums to {sum(mat[i])}: {mat[i]}"))
            break
    check_symmetric(site, mat, fails)
    if psd and n:
        check_psd(site, mat, rng, fails)


def check_symmetric(site, mat, fails):
    n = len(mat)
    for i in range(n):
        for k in range(i):
            if abs(mat[i][k] - mat[k][i]) > TOL * max(1.0, abs(mat[i][k])):
                fails.append((site + "-not-symmetric", f"entry ({i},{k}) = {mat[i][k]} but ({k},{i}) = {mat[k][i]}"))
                return


def check_psd(site, mat, rng, fails):
    n = len(mat)
    scale = max([1.0] + [abs(v) for r in mat for v in r])
    xs = [[rng.uniform(-1, 1) for _ in range(n)] for _ in range(4)]
    xs.append([1.0] * n)
    try:
        A = np.array(mat, dtype=float)
        w, v = np.linalg.eigh((A + A.T) / 2)
        xs.append([float(t) for t in v[:, 0]])
    except Exception:  # noqa
        pass
    for x in xs:
        q = quad(mat, x)
        if q < -TOL * scale * max(1, n * n):
            fails.append((site + "-not-psd", f"x^T L x = {q} for x = {[round(t, 6) for t in x]}"))
            return


def pred(c, r, rng=None):
    """the clauses of C12 evaluated on the implementation's result (dense reference + variants)"""
    import random as _random
    rng = rng or _random.Random(jhash(c))
    fails = list(r.get("problems", []))
    f = SHORT[c["f"]]
    nodes, edges = members_of(c)
    N = len(nodes)
    if f in ("incidence", "adjacency", "degree", "profile", "clique", "tensor"):
        if r["out"] != "ok":
            fails.append((f + "-raised", f"{r['out']}: {r.get('msg')}"))
            return fails
    if r["out"] != "ok":
        # a call may fail only where the quantity is undefined / the documented error applies
        if f == "laplacian":
            expected = "undefined" if (c["rescale"] and c["order"] == 0 and N > 0) else "ok"
        elif f == "multiorder":
            expected = ("err:value" if len(c["orders"]) != len(c["weights"]) else
                        "undefined" if (c["rescale"] and 0 in c["orders"] and N > 0) else "ok")
        else:
            exp = bf_normalized(c)
            expected = "ok" if isinstance(exp, list) else exp
        if r["out"] != expected:
            fails.append((f + ("-raised" if expected == "ok" else "-wrong-outcome"),
                          f"{r['out']} ({r.get('msg')}), expected {expected}"))
        return fails
    mat, shape = r["mat"], r["shape"]
    dicts = r.get("dicts") or []

    if f == "incidence":
        es = of_order(edges, c["order"])
        if not es or not nodes:
            if shape != [0, 0] or dicts != [[], []]:
                fails.append(("incidence-degenerate-shape", f"shape {shape}, dicts {dicts}"))
            return fails
        if shape != [N, len(es)]:
            fails.append(("incidence-shape", f"shape {shape} for {N} nodes and {len(es)} edges of order {c['order']}"))
            return fails
        if dicts[0] != nodes or dicts[1] != [e for e, _ in es]:
            fails.append(("incidence-index-maps", f"rowdict {dicts[0]} coldict {dicts[1]}; nodes {nodes}, edges {[e for e, _ in es]}"))
            return fails
        tbl = weight_table(c) if "wt" in c else None
        for i, n in enumerate(dicts[0]):
            for j, e in enumerate(dicts[1]):
                member = n in es[j][1]
                if tbl is None:
                    want = 1 if member else 0
                    if mat[i][j] != want:
                        fails.append(("incidence-entry", f"entry (node {n!r}, edge {e!r}) = {mat[i][j]}, member = {member}"))
                        return fails
                else:
                    want = tbl.get((json.dumps(n), json.dumps(e)), c["wdef"]) if member else 0
                    if mat[i][j] != want:
                        fails.append(("incidence-weight-callback-entry",
                                      f"entry (node {n!r}, edge {e!r}) = {mat[i][j]}, member = {member}, weight(node, edge, H) = "
                                      f"{tbl.get((json.dumps(n), json.dumps(e)), c['wdef'])}"))
                        return fails
        return fails

    if f in ("adjacency", "clique"):
        order, s, weighted = (c["order"], c["s"], c["weighted"]) if f == "adjacency" else (None, 1, True)
        es = of_order(edges, order)
        if shape != [N, N]:
            fails.append((f + "-shape", f"shape {shape} for {N} nodes"))
            return fails
        rows = dicts[0]
        if rows != nodes and not (rows == [] and (not es or not nodes)):
            fails.append((f + "-index-map", f"rowdict {rows}, nodes {nodes}"))
            return fails
        for i, a in enumerate(nodes):
            if mat[i][i] != 0:
                fails.append((f + "-diagonal-nonzero", f"entry ({a!r},{a!r}) = {mat[i][i]}"))
                return fails
            for k, b in enumerate(nodes):
                if mat[i][k] != mat[k][i]:
                    fails.append((f + "-not-symmetric", f"({a!r},{b!r}) = {mat[i][k]} but ({b!r},{a!r}) = {mat[k][i]}"))
                    return fails
                if i != k:
                    cnt = count(es, a, b)
                    want = (cnt if cnt >= s else 0) if weighted else (1 if cnt >= s else 0)
                    if mat[i][k] != want:
                        fails.append((f + "-count", f"({a!r},{b!r}) = {mat[i][k]}, shared edges of order {order} = {cnt}, "
                                                    f"s = {s}, weighted = {weighted}"))
                        return fails
        return fails

    if f == "degree":
        es = of_order(edges, c["order"])
        rows = dicts[0]
        if shape != [N]:
            fails.append(("degree-shape", f"shape {shape} for {N} nodes"))
            return fails
        if rows != nodes and not (rows == [] and (not es or not nodes)):
            fails.append(("degree-index-map", f"rowdict {rows}, nodes {nodes}"))
            return fails
        for i, a in enumerate(nodes):
            want = sum(1 for _, ms in es if a in ms)
            if mat[i] != want:
                fails.append(("degree-value", f"degree of {a!r} in order {c['order']} = {mat[i]}, memberships = {want}"))
                return fails
        return fails

    if f == "profile":
        es = of_order(edges, c["order"])
        if not es or not nodes:
            if shape != [0, 0] or dicts != [[]]:
                fails.append(("profile-degenerate-shape", f"shape {shape}, dicts {dicts}"))
            return fails
        if shape != [len(es), len(es)] or dicts[0] != [e for e, _ in es]:
            fails.append(("profile-shape", f"shape {shape}, coldict {dicts[0]} for edges {[e for e, _ in es]}"))
            return fails
        for j, (e, ms) in enumerate(es):
            for l, (g, ns) in enumerate(es):
                want = len(set(map(repr, ms)) & set(map(repr, ns)))
                if mat[j][l] != want:
                    fails.append(("profile-entry", f"({e!r},{g!r}) = {mat[j][l]}, |intersection| = {want}"))
                    return fails
        return fails

    if f == "tensor":
        d = c["order"]
        es = of_order(edges, d)
        if shape != [N] * (d + 1):
            fails.append(("tensor-shape", f"shape {shape} for {N} nodes, order {d}"))
            return fails
        rows = dicts[0]
        if rows != nodes and not (rows == [] and (not es or not nodes)):
            fails.append(("tensor-index-map", f"rowdict {rows}, nodes {nodes}"))
            return fails
        val = (1.0 / math.factorial(d)) if c["normalized"] else 1
        hit = {frozenset(map(repr, ms)) for _, ms in es}
        flat = flatten(mat)
        for t, v in zip(itertools.product(range(N), repeat=d + 1), flat):
            want = val if (len(set(t)) == d + 1 and frozenset(repr(nodes[i]) for i in t) in hit) else 0
            if abs(v - want) > TOL:
                fails.append(("tensor-entry", f"entry {[nodes[i] for i in t]} = {v}, expected {want}"))
                return fails
        return fails

    if f == "laplacian":
        d = c["order"]
        if N == 0:
            if shape != [0, 0]:
                fails.append(("laplacian-shape", f"shape {shape} for no nodes"))
            return fails
        if shape != [N, N]:
            fails.append(("laplacian-shape", f"shape {shape} for {N} nodes"))
            return fails
        rows = dicts[0]
        if rows != nodes and not (rows == [] and not of_order(edges, d)):
            fails.append(("laplacian-index-map", f"rowdict {rows}, nodes {nodes}"))
            return fails
        check_lap_like("laplacian", mat, rng, fails)
        L = bf_lap(nodes, edges, d, c["rescale"])
        if L is not None and not all(approx_equal(mat[i][k], str(L[i][k])) for i in range(N) for k in range(N)):
            fails.append(("laplacian-not-textbook", f"{mat} vs d*K - A = {[[str(v) for v in r] for r in L]}"[:400]))
        return fails

    if f == "multiorder":
        if shape != [N, N] or dicts[0] != nodes:
            fails.append(("multiorder-shape", f"shape {shape}, rowdict {dicts[0]} for nodes {nodes}"))
            return fails
        ws = [Fraction(w) for w in c["weights"]]
        check_lap_like("multiorder", mat, rng, fails, psd=all(w >= 0 for w in ws))
        L = [[Fraction(0)] * N for _ in nodes]
        for d, w in zip(c["orders"], ws):
            es = of_order(edges, d)
            if not es or not N:
                continue
            Ld = bf_lap(nodes, edges, d, c["rescale"])
            if Ld is None:
                return fails
            meanK = Fraction(sum(len(ms) for _, ms in es), N)
            for i in range(N):
                for k in range(N):
                    L[i][k] += Ld[i][k] * w / meanK
        if not all(approx_equal(mat[i][k], str(L[i][k])) for i in range(N) for k in range(N)):
            fails.append(("multiorder-not-textbook", f"{mat} vs sum_d w_d L_d / <K_d> = {[[str(v) for v in r] for r in L]}"[:400]))
        return fails

    if f == "normalized":
        if shape != [N, N] or dicts[0] != nodes:
            fails.append(("normalized-shape", f"shape {shape}, rowdict {dicts[0]} for nodes {nodes}"))
            return fails
        check_symmetric("normalized", mat, fails)
        exp = bf_normalized(c)
        # The known finding (known_findings/C12.json) has its OWN failure classes, emitted only for its witness pattern:
        # weighted=True, some effective edge weight != 1, and the returned matrix is exactly the textbook formula with the
        # UNWEIGHTED vertex degree in place of the weighted one.  Anything else (unit weights, weighted=False, or a matrix
        # that is not that formula) keeps the generic classes, which are not listed and are therefore reported.
        sfx = ""
        if c["weighted"] and any(w != 1 for w in edge_weights(c)):
            asis = bf_normalized(c, unweighted_degree=True)
            if isinstance(asis, list) and all(abs(mat[i][k] - asis[i][k]) <= TOL * max(1.0, abs(asis[i][k]))
                                              for i in range(N) for k in range(N)):
                sfx = KNOWN_SUFFIX
        note = " [matrix = textbook formula with the unweighted vertex degree; weights " + str(c["weights"]) + "]" if sfx else ""
        if not isinstance(exp, list):
            # (a zero weighted degree: the textbook matrix is undefined, the code's unweighted degree is not)
            fails.append(("normalized-not-textbook" + sfx, f"returned a matrix where the textbook matrix is {exp}" + note))
            return fails
        if N:
            sub = []
            check_psd("normalized", mat, rng, sub)
            fails += [(k + sfx, d + note) for k, d in sub]
        if not all(abs(mat[i][k] - exp[i][k]) <= TOL * max(1.0, abs(exp[i][k])) for i in range(N) for k in range(N)):
            fails.append(("normalized-not-textbook" + sfx,
                          (f"{[[round(v, 6) for v in r] for r in mat]} vs I - Dv^-1/2 H W De^-1 H^T Dv^-1/2 = "
                           f"{[[round(v, 6) for v in r] for r in exp]}"[:500]) + note))
        return fails
    return fails


def flatten(x):
    if isinstance(x, list):
        out = []
        for y in x:
            out += flatten(y)
        return out
    return [x]


def edge_weights(c):
    if not c["weighted"]:
        return [Fraction(1)] * len(c["net"]["edges"])
    return [Fraction(1) if w is None else Fraction(w) for w in c["weights"]]


def bf_normalized(c, unweighted_degree=False):
    """Zhou, Huang, Schölkopf (2006): I - Dv^{-1/2} H W De^{-1} H^T Dv^{-1/2} with d(v) = sum_e w(e) h(v,e),
    delta(e) = |e|; returns the float matrix, or "err:lib" (isolated node / zero weighted degree), or "undefined" (empty edge).
    unweighted_degree=True: the same formula with d(v) = number of edges containing v (used only to recognise the witness
    pattern of the known finding)"""
    nodes, edges = members_of(c)
    if any(all(n not in ms for _, ms in edges) for n in nodes):
        return "err:lib"
    if any(len(ms) == 0 for _, ms in edges):
        return "undefined"
    w = edge_weights(c)
    dv = [sum(((Fraction(1) if unweighted_degree else wj) for (_, ms), wj in zip(edges, w) if n in ms), Fraction(0)) for n in nodes]
    if any(d <= 0 for d in dv):
        return "err:lib"
    out = []
    for i, a in enumerate(nodes):
        row = []
        for k, b in enumerate(nodes):
            m = sum((wj / len(ms) for (_, ms), wj in zip(edges, w) if a in ms and b in ms), Fraction(0))
            row.append((1.0 if i == k else 0.0) - float(m) / math.sqrt(float(dv[i] * dv[k])))
        out.append(row)
    return out


# ----------------------------------------------------------------------------- comparison with the model

def frac_close(x, s):
    return approx_equal(x, s)


def compare(c, r, m):
    """implementation result r (dense reference) vs canonical model response m"""
    if r["out"] != m.get("out"):
        return False
    if r["out"] != "ok":
        return True
    f = SHORT[c["f"]]
    mat = r["mat"]
    if f == "degree":
        return r["shape"] == [len(m["vec"])] and all(x == v for x, v in zip(mat, m["vec"])) and r["dicts"] == [m["rows"]]
    if f == "tensor":
        flat = flatten(mat)
        return (r["shape"] == m["shape"] and len(flat) == len(m["flat"]) and r["dicts"] == [m["rows"]]
                and all(frac_close(x, v) for x, v in zip(flat, m["flat"])))
    if f == "normalized":
        M, dv = m["m"], [Fraction(x) for x in m["dv"]]
        n = len(M)
        if r["shape"] != [n, n] or r["dicts"] != [m["rows"]]:
            return False
        for i in range(n):
            for k in range(n):
                want = (1.0 if i == k else 0.0) - float(Fraction(M[i][k])) / math.sqrt(float(dv[i] * dv[k]))
                if abs(mat[i][k] - want) > TOL * max(1.0, abs(want)):
                    return False
        return True
    mm = m["mat"]
    shape = [len(mm), len(mm[0]) if mm else 0]
    if r["shape"] != shape:
        return False
    want_dicts = [m["rows"]] + ([m["cols"]] if "cols" in m else [])
    if r["dicts"] != want_dicts:
        return False
    for row, mrow in zip(mat, mm):
        if len(row) != len(mrow):
            return False
        for x, v in zip(row, mrow):
            if isinstance(v, str):
                if not frac_close(x, v):
                    return False
            elif x != v:
                return False
    return True


# ----------------------------------------------------------------------------- case generation

WEIGHT_POOL = ["1", "2", "3", "1/2", "1/4", "3/2", "1/3", "5"]
ORDER_LISTS = [[1], [2], [1, 2], [2, 1, 3], [1, 1], [3, 2, 1], [], [1, 2, 3], [0, 1], [0], [2, 0, 1], [3]]


def enc(nodes, edges):
    return {"nodes": [enc_id(n) for n in nodes], "edges": [[enc_id(e), [enc_id(x) for x in ms]] for e, ms in edges]}


def weight_case(rng, net, order):
    """incidence_matrix with a `weight=` callback: a table over all (node, edge) pairs (small ints incl. 0 and negatives,
    the matrix has dtype=int) and a default, larger than every table value, for any other argument pair"""
    wt = [[n, e, rng.choice([-3, -2, -1, 0, 2, 3, 4, 5, 6, 7, 8, 9])] for n in net["nodes"] for e, _ in net["edges"]]
    return {"f": "incidence_matrix", "net": net, "order": order, "wt": wt, "wdef": rng.choice([97, 50, -40])}


def max_shared(net):
    ms = [set(map(json.dumps, m)) for _, m in net["edges"]]
    best = 0
    for a in net["nodes"]:
        for b in net["nodes"]:
            if a != b:
                best = max(best, sum(1 for m in ms if json.dumps(a) in m and json.dumps(b) in m))
    return best


def grid(rng, net, full=True):
    """every option combination of every function for one network (sparse/index are expanded inside impl).  Orders above 3
    and thresholds s above 3 are added where the network has such edges / that many shared edges (and now and then where
    it has not)"""
    cases = []
    big = sorted({len(ms) - 1 for _, ms in net["edges"] if len(ms) - 1 > 3})
    if rng.random() < 0.06:
        big = sorted(set(big) | {rng.choice([4, 5])})
    svals = [1, 2, 3]
    top = max_shared(net)
    if top >= 4 or rng.random() < 0.06:
        svals += sorted({4, min(max(top, 4), 7), rng.choice([5, 6])})
    for o in ORDERS + big:
        cases.append({"f": "incidence_matrix", "net": net, "order": o})
        cases.append({"f": "degree_matrix", "net": net, "order": o})
        cases.append({"f": "intersection_profile", "net": net, "order": o})
        for s in svals:
            for w in (False, True):
                cases.append({"f": "adjacency_matrix", "net": net, "order": o, "s": s, "weighted": w})
    # the `weight=` callback of incidence_matrix: all orders together and one single order
    cases.append(weight_case(rng, net, None))
    cases.append(weight_case(rng, net, rng.choice([0, 1, 2, 3] + big)))
    cases.append({"f": "clique_motif_matrix", "net": net})
    for d in [0, 1, 2, 3] + big:
        for resc in (False, True):
            cases.append({"f": "laplacian", "net": net, "order": d, "rescale": resc})
        if len(net["nodes"]) ** (d + 1) <= (1300 if d <= 3 else 8000):
            for nm in (False, True):
                cases.append({"f": "adjacency_tensor", "net": net, "order": d, "normalized": nm})
    for ol in [[big[0]], [1, big[-1]], big[::-1] + [2]] if big else []:
        for resc in (False, True):
            ws = [rng.choice(WEIGHT_POOL + ["0"]) for _ in ol]
            cases.append({"f": "multiorder_laplacian", "net": net, "orders": ol, "weights": ws, "rescale": resc})
    for ol in (ORDER_LISTS if full else rng.sample(ORDER_LISTS, 4)):
        for resc in (False, True):
            if resc and 0 in ol:
                continue  # rescaling the order-0 Laplacian by 0 is undefined (checked on `laplacian` itself)
            ws = [rng.choice(WEIGHT_POOL + ["0"]) for _ in ol]
            cases.append({"f": "multiorder_laplacian", "net": net, "orders": ol, "weights": ws, "rescale": resc})
    if rng.random() < 0.3:
        ol = rng.choice(ORDER_LISTS)
        cases.append({"f": "multiorder_laplacian", "net": net, "orders": [x for x in ol if x], "rescale": rng.random() < 0.5,
                      "weights": [rng.choice(WEIGHT_POOL) for _ in range(len([x for x in ol if x]) + rng.choice([1, 2]))]})
    if rng.random() < 0.2:
        ol = [x for x in rng.choice(ORDER_LISTS) if x]
        cases.append({"f": "multiorder_laplacian", "net": net, "orders": ol, "rescale": rng.random() < 0.5,
                      "weights": [rng.choice(["-1", "-1/2", "1", "2"]) for _ in ol]})
    # normalised Laplacian: the network as it is (isolated nodes => XGIError) and with its isolated nodes dropped
    used = {json.dumps(x) for _, ms in net["edges"] for x in ms}
    net2 = {"nodes": [n for n in net["nodes"] if json.dumps(n) in used], "edges": net["edges"]}
    if any(not ms for _, ms in net["edges"]):
        return cases  # an empty edge has delta(e) = 0: the normalised Laplacian is undefined (0 * inf)
    for nt in ([net] if net2 == net else [net, net2]):
        cases.append({"f": "normalized_hypergraph_laplacian", "net": nt, "weighted": False, "weights": [None] * len(nt["edges"])})
        ws = [rng.choice(WEIGHT_POOL + [None, None, None]) for _ in nt["edges"]]
        if rng.random() < 0.05 and ws:
            ws[rng.randrange(len(ws))] = "0"
        cases.append({"f": "normalized_hypergraph_laplacian", "net": nt, "weighted": True, "weights": ws})
        if rng.random() < 0.3:
            cases.append({"f": "normalized_hypergraph_laplacian", "net": nt, "weighted": True, "weights": [None] * len(nt["edges"])})
    return cases


def special_networks():
    """degenerate shapes that random generation reaches rarely"""
    out = [([], []), ([0], []), (["a", "b", 3], []), ([1, 2], [(0, [1])]), ([1, 2], [(0, [1]), (1, [2])]),
           ([1, 2, 3], [(5, [1, 2, 3]), (7, [1, 2, 3]), ("x", [1, 2, 3])]),
           (["a", "b", "c", "d"], [(0, ["a"]), (1, ["a", "b"]), (2, ["a", "b"]), (3, ["a", "b", "c"])]),
           ([1, 2, 3], [(0, [1, 2]), (1, [])]), ([4, 2], [(0, []), (1, [])]),
           ([0, 1, 2, 3, 4], [(0, [0, 1, 2, 3]), (1, [1, 2, 3, 4]), (2, [0, 1, 2, 3])]),
           ([3, 1, 2], [(2, [2, 1]), (1, [1, 3]), (0, [3, 2]), (9, [1, 2, 3])]),
           # orders 4, 5, 6 (edges of 5, 6, 7 members) and a pair sharing 5 edges (thresholds s up to 5)
           ([0, 1, 2, 3, 4, 5, 6], [(0, [0, 1, 2, 3, 4]), (1, [1, 2, 3, 4, 5, 6]), (2, [0, 1, 2, 3, 4, 5, 6]), (3, [2, 3, 4, 5, 6]),
                                    (4, [0, 1]), (5, [6, 5, 4, 3, 2, 1])]),
           (["a", "b", "c", "d", "e"], [(0, ["a", "b", "c", "d", "e"]), (1, ["a", "b", "c", "d"]), ("x", ["e", "d", "c", "b", "a"])]),
           ([1, 2, 3], [(0, [1, 2]), (1, [1, 2]), (2, [2, 1]), (3, [1, 2, 3]), (4, [1, 2]), (5, [3])])]
    return [enc(n, e) for n, e in out]


def random_network(rng):
    r = rng.random()
    if r < 0.05:
        # edges of 5-7 members: orders 4-6
        nodes, edges = gen_hypergraph(rng, max_nodes=7, max_edges=4, max_size=7)
        if len(nodes) >= 5 and not any(len(ms) >= 5 for _, ms in edges):
            edges.append(("big", rng.sample(nodes, rng.randint(5, len(nodes)))))
        return enc(nodes, edges)
    if r < 0.10:
        # many edges on few nodes: pairs sharing 4 and more edges (thresholds s > 3)
        nodes, edges = gen_hypergraph(rng, max_nodes=4, max_edges=12, max_size=3, edge_ids=lambda m: list(range(m)))
        return enc(nodes, edges)
    r = rng.random()
    if r < 0.08:
        nodes, edges = gen_hypergraph(rng, max_nodes=6, max_edges=5, max_size=4, allow_empty_edges=True)
    elif r < 0.2:
        k = rng.choice([1, 2, 3])  # uniform hypergraph
        nodes, edges = gen_hypergraph(rng, max_nodes=6, max_edges=6, max_size=k + 1)
        edges = [(e, ms) for e, ms in edges if len(ms) == k + 1]
    elif r < 0.3:
        nodes, edges = gen_hypergraph(rng, max_nodes=5, max_edges=8, max_size=3)
    else:
        nodes, edges = gen_hypergraph(rng, max_nodes=6, max_edges=6, max_size=4)
    return enc(nodes, edges)


def nontrivial(c, r):
    return any(len(ms) >= 2 for _, ms in c["net"]["edges"]) and r.get("out") == "ok"


# ----------------------------------------------------------------------------- shrinking, corpus, replay

def fails_with(c, cls):
    try:
        r = impl(c)
    except Exception:  # noqa
        return False
    return any(k == cls for k, _ in pred(c, r))


def shrink(c, cls, budget=300):
    """greedy: drop edges, then members, then unused nodes while the predicate fails with the same class"""
    c = json.loads(json.dumps(c))
    if c["f"] == "normalized_hypergraph_laplacian":
        # prefer a witness with unit weights (outside the pattern of the known finding) when one exists
        for cand in ({**c, "weighted": False, "weights": [None] * len(c["weights"])}, {**c, "weights": [None] * len(c["weights"])}):
            if fails_with(cand, cls):
                c = json.loads(json.dumps(cand))
                break
    changed = True
    while changed and budget > 0:
        changed = False
        E = c["net"]["edges"]
        for i in range(len(E) - 1, -1, -1):
            cand = json.loads(json.dumps(c))
            del cand["net"]["edges"][i]
            if "weights" in cand and cand["f"] == "normalized_hypergraph_laplacian":
                del cand["weights"][i]
            budget -= 1
            if fails_with(cand, cls):
                c, changed = cand, True
                break
        if changed:
            continue
        for i, (e, ms) in enumerate(c["net"]["edges"]):
            for j in range(len(ms) - 1, -1, -1):
                if len(ms) <= 1:
                    break
                cand = json.loads(json.dumps(c))
                del cand["net"]["edges"][i][1][j]
                budget -= 1
                if fails_with(cand, cls):
                    c, changed = cand, True
                    break
            if changed:
                break
        if changed:
            continue
        used = {json.dumps(x) for _, ms in c["net"]["edges"] for x in ms}
        for i in range(len(c["net"]["nodes"]) - 1, -1, -1):
            if json.dumps(c["net"]["nodes"][i]) in used:
                continue
            cand = json.loads(json.dumps(c))
            del cand["net"]["nodes"][i]
            budget -= 1
            if fails_with(cand, cls):
                c, changed = cand, True
                break
    return c


def corpus_cases():
    out = []
    for p in sorted(glob.glob(os.path.join(VERIF, "corpus", "C12", "*.json"))):
        try:
            j = json.load(open(p))
            out.append(j["case"] if "case" in j else j)
        except Exception:  # noqa
            pass
    return [c for c in out if isinstance(c, dict) and c.get("f") in FUNCS]


def shrink_violations(ctx):
    for v in ctx.violations:
        if v["kind"] == "concrete" and isinstance(v["case"], dict) and v["case"].get("f") in FUNCS:
            try:
                small = shrink(v["case"], v["failure_class"])
                r = impl(small)
                d = [t for k, t in pred(small, r) if k == v["failure_class"]]
                if d:
                    v["case"], v["detail"] = small, d[0]
            except Exception:  # noqa
                pass


def conclude12(ctx, ok, dis):
    """verdict logic of DESIGN 4.3; known findings do not count as the explanation of a broken obligation or of a
    disagreement: for every function on which model and implementation differ (or for all, if the build/audit broke)
    without a concrete violation that is not a known finding, search harder, then report `unproven`"""
    known = [k for k in load_known() if k["property"] == ctx.prop]

    def explained(site=None):
        return any(v["kind"] == "concrete" and not is_known(ctx, v, known) and (site is None or v["site"] == site)
                   for v in ctx.violations)

    sites = sorted({str(c.get("f")) for c, _, _ in dis})
    open_sites = [f for f in sites if not explained(f)]
    if (not ok and not explained()) or open_sites:
        rng = ctx.rng
        more = []
        for _ in range(ctx.n(150, 1500)):
            more += grid(rng, random_network(rng), full=True)
        more = [c for c in more if not open_sites or c["f"] in open_sites]
        more = [c for c, _, _ in dis] + more
        for c in more:
            r = impl(c)
            for cls, detail in pred(c, r):
                ctx.violation(c["f"], cls, c, detail=detail)
        ctx.stats["targeted_search_cases"] = len(more)
        still = [f for f in open_sites if not explained(f)]
        if still or (not ok and not explained()):
            ctx.violation("model-tie", "unproven", {"broken": ctx.broken, "functions": still,
                                                    "example": ctx.extra.get("disagreements", [])[:1]},
                          detail="; ".join(ctx.broken)[:500], kind="unproven", broken=ctx.broken)


def replay(ctx, path):
    """one case through the same path as a run (build + audit, predicate, correspondence, known findings, verdict).  The
    record of a replay goes to out/replay-evidence/C12.json: evidence/C12.json always describes a full run."""
    j = json.load(open(path))
    c = j["case"] if "case" in j else j
    if not (isinstance(c, dict) and c.get("f") in FUNCS):
        raise core.Infra(f"{path}: not a C12 case (no replayable input: a `no-failing-input-found` record names broken obligations only)")
    _CTX[0] = ctx
    ok = build_and_audit(ctx, "XgiModel.Props.C12", ["XgiModel.C12.Drive"])
    dis = run_fn(ctx, "C12", [c], impl, pred=pred, compare=compare, nontrivial=nontrivial)
    known = [k for k in load_known() if k["property"] == ctx.prop]
    if (dis or not ok) and not any(not is_known(ctx, v, known) for v in ctx.violations):
        ctx.violation("model-tie", "unproven", {"broken": ctx.broken, "example": ctx.extra.get("disagreements", [])[:1]},
                      detail="; ".join(ctx.broken)[:500], kind="unproven", broken=ctx.broken)
    ctx.rule = f"replay of {path}"

    def write_replay_evidence(prop, ev):
        d = os.path.join(OUT, "replay-evidence")
        os.makedirs(d, exist_ok=True)
        with open(os.path.join(d, prop + ".json"), "w") as f:
            json.dump(jsonable(ev), f, indent=1)
    saved, core.write_evidence = core.write_evidence, write_replay_evidence
    try:
        return finish(ctx, trusted_base=TRUSTED)
    finally:
        core.write_evidence = saved


TRUSTED = TRUSTED_COMMON + [
    "numpy / scipy.sparse as the pure dense functions they are documented to be (dot, fill_diagonal/setdiag, >=, diag, sum, mean, "
    "toarray for densifying); np.linalg.eigh only to pick one extra test vector for the PSD clause",
    "the brute-force reference construction from members() inside harness/props/c12.py and the float rule |x - p/q| <= 1e-9 max(1,|p/q|)",
]


def run(ctx):
    _CTX[0] = ctx
    ok = build_and_audit(ctx, "XgiModel.Props.C12", ["XgiModel.C12.Drive"])
    rng = ctx.rng
    ctx.rule = ("corpus/C12 first; networks: hand-picked degenerate shapes (incl. edges of 5-7 members and a pair sharing 5 edges) + "
                "gen_hypergraph (1-7 nodes, 0-12 edges of size 0-7; int/str/mixed/negative labels in shuffled order, explicit edge "
                "ids, multi-edges, singletons, isolated nodes, empty edges, uniform); for each network the full option grid: order in "
                "{None,0,1,2,3} plus every order > 3 present (and now and then an absent one), s in {1,2,3} plus {4..7} where a pair "
                "shares >= 4 edges, weighted, rescale_per_node, 12 order lists with random rational weights (also wrong lengths, "
                "negative), two `weight=` callbacks of incidence_matrix (non-symmetric integer tables over (node, edge) with a "
                "default for other argument pairs; third argument must be H), edge weights for the normalised Laplacian (unit, "
                "non-unit, absent, 0), tensor orders 0-4; every case is run for every (sparse, index) combination; then "
                "call/edit/call sequences for stale state.  evaluations = calls of the public functions; non-trivial = distinct "
                "(case, result) whose network has an edge with >= 2 members and whose call returned a matrix; `opt:*` entries of "
                "`distribution` count the option values reached")
    cases = corpus_cases()
    ctx.stats["corpus_cases"] = len(cases)
    nets = special_networks() + [random_network(rng) for _ in range(ctx.n(120, 1900))]
    for net in nets:
        cases += grid(rng, net, full=True)
    ctx.stats["networks_random_and_special"] = len(nets)
    if not ctx.quick:
        n_ex = 0
        for nodes, edges in all_small_hypergraphs(4, 3):
            cases += grid(rng, enc(nodes, edges), full=True)
            n_ex += 1
        ctx.exhaustive = True
        ctx.extra["exhaustive_space"] = (f"correspondence and predicate over all {n_ex} hypergraphs on 4 nodes with <= 3 distinct edges "
                                         "x the full option grid x (sparse, index)")
    for c in cases:  # option histogram (what the grid actually reached)
        if c.get("s", 0) > 3:
            ctx.stats["opt:s>3"] += 1
        if isinstance(c.get("order"), int) and c["order"] > 3 or any(d > 3 for d in c.get("orders", [])):
            ctx.stats["opt:order>3"] += 1
        if "wt" in c:
            ctx.stats["opt:weight-callback"] += 1
        if c["f"] == "normalized_hypergraph_laplacian":
            ctx.stats["opt:normalized weighted=%s%s" % (c["weighted"], " nonunit" if c["weighted"] and any(w not in (None, "1") for w in c["weights"]) else "")] += 1
            if "0" in c["weights"]:
                ctx.stats["opt:normalized weight 0"] += 1
    dis = []
    for i in range(0, len(cases), 20000):
        dis += run_fn(ctx, "C12", cases[i:i + 20000], impl, pred=pred, compare=compare, nontrivial=nontrivial)

    # no hidden state: matrices of an edited network must be those of its current structure (call; count-preserving edit; call)
    from ..stale import check_hg
    from ..fn import build as _build, gen_hypergraph as _gen
    import xgi as _xgi

    def _net(rng):
        nodes, edges = _gen(rng, max_nodes=6, max_edges=5, max_size=4)
        edges = [(i, ms) for i, (_, ms) in enumerate(edges)]
        return _build(nodes, edges)
    check_hg(ctx, ctx.rng, _net, {
        "degree_matrix": lambda H: _xgi.degree_matrix(H),
        "degree_matrix(order=1)": lambda H: _xgi.degree_matrix(H, order=1),
        "incidence_matrix": lambda H: _xgi.incidence_matrix(H, sparse=False),
        "adjacency_matrix": lambda H: _xgi.adjacency_matrix(H, sparse=False),
        "adjacency_matrix(order=1)": lambda H: _xgi.adjacency_matrix(H, order=1, sparse=False),
        "intersection_profile": lambda H: _xgi.intersection_profile(H, sparse=False),
        "clique_motif_matrix": lambda H: _xgi.clique_motif_matrix(H, sparse=False),
        "laplacian(order=1)": lambda H: _xgi.laplacian(H, order=1, sparse=False),
        "laplacian(order=2)": lambda H: _xgi.laplacian(H, order=2, sparse=False),
        "multiorder_laplacian": lambda H: _xgi.multiorder_laplacian(H, [1, 2], [1, 1], sparse=False),
        "normalized_hypergraph_laplacian": lambda H: _xgi.normalized_hypergraph_laplacian(H, sparse=False),
    }, ctx.n(40, 800))
    conclude12(ctx, ok, dis)
    shrink_violations(ctx)
    ctx.assumptions = [
        "labels int/str (bool/float IDs outside the model); networks satisfy Net.WF (what the views of a consistent Hypergraph show, C01)",
        "s >= 1; order None or >= 0; laplacian/multiorder orders are ints; `weight=` callbacks of incidence_matrix are integer-valued "
        "functions of (node, edge) (the matrix has dtype=int; float callbacks are truncated by numpy: outside the model)",
        "rescale_per_node with order 0 divides by zero: the model answers `undefined` and the implementation's NaN matrix (dense) / "
        "ZeroDivisionError (sparse) are both read as `undefined`; multiorder order lists containing 0 are generated only without rescaling",
        "normalised Laplacian: the model describes the code as it is (unweighted vertex degree also for weighted=True); the predicate "
        "checks the textbook matrix with weighted vertex degrees and PSD for every generated weight list, which the unchanged code "
        "violates for weights != 1.  That known finding has its own failure classes (`…@weighted-nonunit`), emitted only when "
        "weighted=True, some weight != 1 and the returned matrix equals the textbook formula with the unweighted degree; any other "
        "failure at this site keeps the generic classes and is reported.  sqrt is taken by the harness (entry-wise delta_ik - M_ik / "
        "sqrt(Dv_i Dv_k) from the model's rational M and Dv); networks with an empty edge are not generated for this function "
        "(delta(e) = 0: NaN dense, finite sparse)",
        "sparse == dense is a fact about scipy exhibited by the runs only",
    ]
    return finish(ctx, trusted_base=TRUSTED)
