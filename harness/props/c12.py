"""C12 — matrix representations encode the network exactly.

One *case* = (network, function of xgi.linalg, options other than sparse/index).  For every case the real
function is called for every (sparse, index) combination it accepts; sparse results are densified and all
variants must agree (sparse == dense, index=True == index=False).  The property's predicate is evaluated on
the implementation's result against a brute-force construction from `members()`; the same request is sent to
the Lean model (Drivers/C12.lean) and compared entry-wise through the returned index maps (ints exactly,
rationals with the float rule `approx_equal`).
"""
import glob
import itertools
import json
import math
import os
import warnings
from fractions import Fraction

import numpy as np
import xgi
from xgi.exception import XGIError

from .. import core
from ..core import OUT, TRUSTED_COMMON, VERIF, build_and_audit, dec_id, enc_id, finish, is_known, jhash, jsonable, load_known
from ..fn import all_small_hypergraphs, approx_equal, gen_hypergraph, run_fn

ORDERS = [None, 0, 1, 2, 3]
TOL = 1e-9
KNOWN_SUFFIX = "@weighted-nonunit"

# ----------------------------------------------------------------------------- building the real network


class MyH(xgi.Hypergraph):
    """a trivial subclass (class-variant family)"""
    pass


CLASSES = {None: xgi.Hypergraph, "Hypergraph": xgi.Hypergraph, "MyH": MyH, "SimplicialComplex": xgi.SimplicialComplex}


def build(net, weights=None, cls=None):
    """Hypergraph with nodes/edges in the listed order; an edge listed with no members is produced by
    adding a one-member edge and removing the member with remove_empty=False (public API only).
    Tuple labels are added one at a time (add_node / add_edge(members, idx=…)): the bulk forms read a 2-tuple as
    (node, attributes).  cls="SimplicialComplex": the listed edges must be a downward-closed family listed faces first
    (add_simplex(members, idx=…) then adds nothing else)"""
    H = CLASSES[cls]()
    nodes = [dec_id(n) for n in net["nodes"]]
    if any(isinstance(n, tuple) for n in nodes):
        for n in nodes:
            H.add_node(n)
    else:
        H.add_nodes_from(nodes)
    for e, ms in net["edges"]:
        e = dec_id(e)
        if cls == "SimplicialComplex":
            H.add_simplex([dec_id(x) for x in ms], idx=e)
        elif ms:
            H.add_edge([dec_id(x) for x in ms], idx=e)
        else:
            tmp = nodes[0] if nodes else "__tmp__"
            H.add_edge([tmp], idx=e)
            H.remove_node_from_edge(e, tmp, remove_empty=False)
            if not nodes:
                H.remove_node(tmp)
    if weights is not None:
        for (e, _), w in zip(net["edges"], weights):
            if w is not None:
                f = Fraction(w)
                H.set_edge_attributes({dec_id(e): (int(f) if f.denominator == 1 else float(f))}, name="weight")
    return H


def dense(a):
    return a.toarray() if hasattr(a, "toarray") else np.asarray(a)


def is_sparse(a):
    return hasattr(a, "toarray")


def tolist(a):
    return dense(a).tolist()


def labels(d):
    """index dict {i: label} -> label list in index order; None when the keys are not 0..len-1"""
    if sorted(d.keys()) != list(range(len(d))):
        return None
    return [enc_id(d[i]) for i in range(len(d))]


# ----------------------------------------------------------------------------- calling the implementation

def _call(fn, *a, **k):
    """returns ("ok", value) | (outcome enum, message)"""
    with warnings.catch_warnings():
        warnings.simplefilter("ignore")
        with np.errstate(all="ignore"):
            try:
                return "ok", fn(*a, **k)
            except (XGIError,) as ex:
                return "err:lib", str(ex)
            except ValueError as ex:
                return "err:value", str(ex)
            except ZeroDivisionError as ex:
                return "undefined", str(ex)
            except Exception as ex:  # noqa
                return "err:" + type(ex).__name__, str(ex)


def _finite(x):
    if isinstance(x, list):
        return all(_finite(y) for y in x)
    return not (isinstance(x, float) and (math.isnan(x) or math.isinf(x)))


def _same(a, b):
    """two dense results (nested lists of numbers) equal: ints exactly, floats to 1e-9"""
    if isinstance(a, list) != isinstance(b, list):
        return False
    if isinstance(a, list):
        return len(a) == len(b) and all(_same(x, y) for x, y in zip(a, b))
    if isinstance(a, float) or isinstance(b, float):
        return abs(a - b) <= TOL * max(1.0, abs(a), abs(b))
    return a == b


def call_variants(ctx, fn, H, kw, has_sparse=True, n_index=1):
    """call fn(H, **kw, sparse=…, index=…) for every combination; returns (result dict, problems).
    n_index = number of index dicts returned with index=True."""
    problems = []
    ref = None
    for sparse in ([False, True] if has_sparse else [None]):
        for index in (True, False):
            k = dict(kw)
            if sparse is not None:
                k["sparse"] = sparse
            k["index"] = index
            if ctx is not None and ref is not None:
                ctx.evaluations += 1  # run_fn counts one evaluation per case (the reference call); count the other variants here
            out, val = _call(fn, H, **k)
            if out == "ok":
                if index:
                    if not (isinstance(val, tuple) and len(val) == 1 + n_index):
                        problems.append(("index-return-shape", f"index=True returned {type(val).__name__}"))
                        continue
                    mat, dicts = val[0], list(val[1:])
                else:
                    mat, dicts = val, None
                if isinstance(mat, tuple):
                    problems.append(("index-return-shape", "index=False returned a tuple"))
                    continue
                if sparse is not None and is_sparse(mat) != sparse:
                    problems.append(("wrong-container", f"sparse={sparse} returned {type(mat).__name__}"))
                arr = dense(mat)
                r = {"out": "ok", "shape": list(arr.shape), "mat": arr.tolist()}
                if not _finite(r["mat"]):
                    r = {"out": "undefined"}
                elif dicts is not None:
                    r["dicts"] = [labels(d) for d in dicts]
            else:
                r = {"out": out, "msg": val[:160]}
            if ref is None:
                ref = r
                continue
            # compare this variant with the reference (dense, index=True)
            tag = "sparse-dense-differ" if sparse else "index-variant-differs"
            if r["out"] != ref["out"]:
                problems.append((tag, f"sparse={sparse} index={index}: outcome {r['out']} vs {ref['out']}"))
            elif r["out"] == "ok":
                if r["shape"] != ref["shape"] or not _same(r["mat"], ref["mat"]):
                    problems.append((tag, f"sparse={sparse} index={index}: shape {r['shape']} matrix {r['mat']} vs dense "
                                          f"shape {ref['shape']} {ref['mat']}"[:400]))
                if "dicts" in r and r["dicts"] != ref["dicts"]:
                    problems.append((tag, f"sparse={sparse} index={index}: index dicts {r['dicts']} vs {ref['dicts']}"[:300]))
    return ref, problems


# public function name -> (callable, has a `sparse` parameter, number of index dicts returned with index=True)
FUNCS = {
    "incidence_matrix": (xgi.incidence_matrix, True, 2),
    "adjacency_matrix": (xgi.adjacency_matrix, True, 1),
    "degree_matrix": (xgi.degree_matrix, False, 1),
    "intersection_profile": (xgi.intersection_profile, True, 1),
    "clique_motif_matrix": (xgi.clique_motif_matrix, True, 1),
    "laplacian": (xgi.laplacian, True, 1),
    "multiorder_laplacian": (xgi.multiorder_laplacian, True, 1),
    "normalized_hypergraph_laplacian": (xgi.normalized_hypergraph_laplacian, True, 1),
    "adjacency_tensor": (xgi.adjacency_tensor, False, 1),
}
SHORT = {"incidence_matrix": "incidence", "adjacency_matrix": "adjacency", "degree_matrix": "degree",
         "intersection_profile": "profile", "clique_motif_matrix": "clique", "laplacian": "laplacian",
         "multiorder_laplacian": "multiorder", "normalized_hypergraph_laplacian": "normalized", "adjacency_tensor": "tensor"}


def kwargs_of(c):
    f = SHORT[c["f"]]
    if f in ("incidence", "degree", "profile"):
        return {"order": c["order"]}
    if f == "adjacency":
        return {"order": c["order"], "s": c["s"], "weighted": c["weighted"]}
    if f == "clique":
        return {}
    if f == "laplacian":
        return {"order": c["order"], "rescale_per_node": c["rescale"]}
    if f == "multiorder":
        return {"orders": list(c["orders"]), "weights": [float(Fraction(w)) for w in c["weights"]],
                "rescale_per_node": c["rescale"]}
    if f == "normalized":
        return {"weighted": c["weighted"]}
    if f == "tensor":
        return {"order": c["order"], "normalized": c["normalized"]}
    raise KeyError(f)


_CTX = [None]


WEIGHT_DEFAULT_MARK = 1000  # added to the callback's value when its third argument is not the hypergraph


def weight_table(c):
    """{(node json, edge json): value} of a `weight=` callback case"""
    return {(json.dumps(n), json.dumps(e)): v for n, e, v in c["wt"]}


def make_weight(c, H):
    """the callback handed to incidence_matrix(weight=…): a NON-symmetric table lookup on (node, edge) with a default for
    every other pair (so swapped arguments are visible); the third argument must be the hypergraph itself"""
    tbl, dflt = weight_table(c), c["wdef"]

    def weight(node, edge, Hh):
        v = tbl.get((json.dumps(enc_id(node)), json.dumps(enc_id(edge))), dflt)
        return v if Hh is H else v + WEIGHT_DEFAULT_MARK
    return weight


def impl(c):
    fn, has_sparse, n_index = FUNCS[c["f"]]
    H = build(c["net"], c.get("weights") if c["f"] == "normalized_hypergraph_laplacian" else None, cls=c.get("cls"))
    if c.get("cls") and net_sets(net_of(H)) != net_sets(c["net"]):
        raise RuntimeError("class-variant case does not rebuild to the listed network")  # becomes an outcome, never exit 2
    kw = kwargs_of(c)
    if "wt" in c:
        kw["weight"] = make_weight(c, H)
    ref, problems = call_variants(_CTX[0], fn, H, kw, has_sparse, n_index)
    ref = dict(ref)
    ref["problems"] = problems
    return ref


# ----------------------------------------------------------------------------- brute force from members()

def members_of(c):
    """(nodes, [(edge id, member set)]) straight from the case (these are what members() shows)"""
    return c["net"]["nodes"], [(e, list(ms)) for e, ms in c["net"]["edges"]]


def of_order(edges, order):
    return [(e, ms) for e, ms in edges if order is None or len(ms) == order + 1]


def count(edges, a, b):
    return sum(1 for _, ms in edges if a in ms and b in ms)


def bf_lap(nodes, edges, d, rescale):
    """textbook order-d Laplacian d*K_d - A_d (Fractions); None if undefined"""
    es = of_order(edges, d)
    L = [[Fraction(0)] * len(nodes) for _ in nodes]
    for i, a in enumerate(nodes):
        for k, b in enumerate(nodes):
            if i == k:
                L[i][k] = Fraction(d * sum(1 for _, ms in es if a in ms))
            else:
                L[i][k] = Fraction(-count(es, a, b))
    if rescale:
        if d == 0:
            return None
        L = [[v / d for v in r] for r in L]
    return L


def quad(L, x):
    return sum(x[i] * L[i][k] * x[k] for i in range(len(x)) for k in range(len(x)))


def check_lap_like(site, mat, rng, fails, psd=True):
    """zero row sums, symmetry, x^T L x >= -1e-9 (relative) on random x and on the eigenvector of the least eigenvalue"""
    n = len(mat)
    scale = max([1.0] + [abs(v) for r in mat for v in r])
    for i in range(n):
        if abs(sum(mat[i])) > TOL * scale * max(1, n):
            fails.append((site + "-row-sum-nonzero", f"row {i} sums to {sum(mat[i])}: {mat[i]}"))
            break
    check_symmetric(site, mat, fails)
    if psd and n:
        check_psd(site, mat, rng, fails)


def check_symmetric(site, mat, fails):
    n = len(mat)
    for i in range(n):
        for k in range(i):
            if abs(mat[i][k] - mat[k][i]) > TOL * max(1.0, abs(mat[i][k])):
                fails.append((site + "-not-symmetric", f"entry ({i},{k}) = {mat[i][k]} but ({k},{i}) = {mat[k][i]}"))
                return


def check_psd(site, mat, rng, fails):
    n = len(mat)
    scale = max([1.0] + [abs(v) for r in mat for v in r])
    xs = [[rng.uniform(-1, 1) for _ in range(n)] for _ in range(4)]
    xs.append([1.0] * n)
    try:
        A = np.array(mat, dtype=float)
        w, v = np.linalg.eigh((A + A.T) / 2)
        xs.append([float(t) for t in v[:, 0]])
    except Exception:  # noqa
        pass
    for x in xs:
        q = quad(mat, x)
        if q < -TOL * scale * max(1, n * n):
            fails.append((site + "-not-psd", f"x^T L x = {q} for x = {[round(t, 6) for t in x]}"))
            return


def pred(c, r, rng=None):
    """the clauses of C12 evaluated on the implementation's result (dense reference + variants)"""
    import random as _random
    rng = rng or _random.Random(jhash(c))
    fails = list(r.get("problems", []))
    f = SHORT[c["f"]]
    nodes, edges = members_of(c)
    N = len(nodes)
    if f in ("incidence", "adjacency", "degree", "profile", "clique", "tensor"):
        if r["out"] != "ok":
            fails.append((f + "-raised", f"{r['out']}: {r.get('msg')}"))
            return fails
    if (f == "normalized" and r["out"] == "undefined" and has_empty_edge(c["net"]) and isinstance(bf_normalized(c), list)
            and not r.get("_sparse_view")):
        # Witness pattern of the known finding `sparse-dense-differ@empty-edge`: the DENSE result is all-NaN (0 * inf at the
        # empty edge's entry 1/0 of De^-1) while the SPARSE result is a finite matrix.  Only the variant problems that say
        # exactly this get the listed class; the remaining clauses are then evaluated on the sparse matrix.
        sub = sparse_only(c)
        if sub is not None:
            out = []
            for k, d in fails:
                if k == "sparse-dense-differ" and "outcome ok vs undefined" in d:
                    out.append((k + EMPTY_EDGE_SUFFIX, d + " [network has an edge without members: dense result is all-NaN, sparse result is finite]"))
                else:
                    out.append((k, d))
            return out + [(k, d + " [on the sparse result; the dense one is all-NaN]") for k, d in pred(c, sub, rng)]
    if r["out"] != "ok":
        # a call may fail only where the quantity is undefined / the documented error applies
        if f == "laplacian":
            expected = "undefined" if (c["rescale"] and c["order"] == 0 and N > 0) else "ok"
        elif f == "multiorder":
            expected = ("err:value" if len(c["orders"]) != len(c["weights"]) else
                        "undefined" if (c["rescale"] and 0 in c["orders"] and N > 0) else "ok")
        else:
            exp = bf_normalized(c)
            expected = "ok" if isinstance(exp, list) else exp
        if r["out"] != expected:
            fails.append((f + ("-raised" if expected == "ok" else "-wrong-outcome"),
                          f"{r['out']} ({r.get('msg')}), expected {expected}"))
        return fails
    mat, shape = r["mat"], r["shape"]
    dicts = r.get("dicts") or []

    if f == "incidence":
        es = of_order(edges, c["order"])
        if not es or not nodes:
            if shape != [0, 0] or dicts != [[], []]:
                fails.append(("incidence-degenerate-shape", f"shape {shape}, dicts {dicts}"))
            return fails
        if shape != [N, len(es)]:
            fails.append(("incidence-shape", f"shape {shape} for {N} nodes and {len(es)} edges of order {c['order']}"))
            return fails
        if dicts[0] != nodes or dicts[1] != [e for e, _ in es]:
            fails.append(("incidence-index-maps", f"rowdict {dicts[0]} coldict {dicts[1]}; nodes {nodes}, edges {[e for e, _ in es]}"))
            return fails
        tbl = weight_table(c) if "wt" in c else None
        for i, n in enumerate(dicts[0]):
            for j, e in enumerate(dicts[1]):
                member = n in es[j][1]
                if tbl is None:
                    want = 1 if member else 0
                    if mat[i][j] != want:
                        fails.append(("incidence-entry", f"entry (node {n!r}, edge {e!r}) = {mat[i][j]}, member = {member}"))
                        return fails
                else:
                    want = tbl.get((json.dumps(n), json.dumps(e)), c["wdef"]) if member else 0
                    # float-valued callbacks (predicate only, outside the model): the code stores them with dtype=int, so
                    # the truncated value is accepted as well as the value itself - but the same in every variant
                    # (`problems` above holds sparse-dense-differ / index-variant-differs)
                    if mat[i][j] != want and not (c.get("float_wt") and mat[i][j] == math.trunc(want)):
                        fails.append(("incidence-weight-callback-entry",
                                      f"entry (node {n!r}, edge {e!r}) = {mat[i][j]}, member = {member}, weight(node, edge, H) = "
                                      f"{tbl.get((json.dumps(n), json.dumps(e)), c['wdef'])}"))
                        return fails
        return fails

    if f in ("adjacency", "clique"):
        order, s, weighted = (c["order"], c["s"], c["weighted"]) if f == "adjacency" else (None, 1, True)
        es = of_order(edges, order)
        if shape != [N, N]:
            fails.append((f + "-shape", f"shape {shape} for {N} nodes"))
            return fails
        rows = dicts[0]
        if rows != nodes and not (rows == [] and (not es or not nodes)):
            fails.append((f + "-index-map", f"rowdict {rows}, nodes {nodes}"))
            return fails
        for i, a in enumerate(nodes):
            if mat[i][i] != 0:
                fails.append((f + "-diagonal-nonzero", f"entry ({a!r},{a!r}) = {mat[i][i]}"))
                return fails
            for k, b in enumerate(nodes):
                if mat[i][k] != mat[k][i]:
                    fails.append((f + "-not-symmetric", f"({a!r},{b!r}) = {mat[i][k]} but ({b!r},{a!r}) = {mat[k][i]}"))
                    return fails
                if i != k:
                    cnt = count(es, a, b)
                    want = (cnt if cnt >= s else 0) if weighted else (1 if cnt >= s else 0)
                    if mat[i][k] != want:
                        fails.append((f + "-count", f"({a!r},{b!r}) = {mat[i][k]}, shared edges of order {order} = {cnt}, "
                                                    f"s = {s}, weighted = {weighted}"))
                        return fails
        return fails

    if f == "degree":
        es = of_order(edges, c["order"])
        rows = dicts[0]
        if shape != [N]:
            fails.append(("degree-shape", f"shape {shape} for {N} nodes"))
            return fails
        if rows != nodes and not (rows == [] and (not es or not nodes)):
            fails.append(("degree-index-map", f"rowdict {rows}, nodes {nodes}"))
            return fails
        for i, a in enumerate(nodes):
            want = sum(1 for _, ms in es if a in ms)
            if mat[i] != want:
                fails.append(("degree-value", f"degree of {a!r} in order {c['order']} = {mat[i]}, memberships = {want}"))
                return fails
        return fails

    if f == "profile":
        es = of_order(edges, c["order"])
        if not es or not nodes:
            if shape != [0, 0] or dicts != [[]]:
                fails.append(("profile-degenerate-shape", f"shape {shape}, dicts {dicts}"))
            return fails
        if shape != [len(es), len(es)] or dicts[0] != [e for e, _ in es]:
            fails.append(("profile-shape", f"shape {shape}, coldict {dicts[0]} for edges {[e for e, _ in es]}"))
            return fails
        for j, (e, ms) in enumerate(es):
            for l, (g, ns) in enumerate(es):
                want = len(set(map(repr, ms)) & set(map(repr, ns)))
                if mat[j][l] != want:
                    fails.append(("profile-entry", f"({e!r},{g!r}) = {mat[j][l]}, |intersection| = {want}"))
                    return fails
        return fails

    if f == "tensor":
        d = c["order"]
        es = of_order(edges, d)
        if shape != [N] * (d + 1):
            fails.append(("tensor-shape", f"shape {shape} for {N} nodes, order {d}"))
            return fails
        rows = dicts[0]
        if rows != nodes and not (rows == [] and (not es or not nodes)):
            fails.append(("tensor-index-map", f"rowdict {rows}, nodes {nodes}"))
            return fails
        val = (1.0 / math.factorial(d)) if c["normalized"] else 1
        hit = {frozenset(map(repr, ms)) for _, ms in es}
        flat = flatten(mat)
        for t, v in zip(itertools.product(range(N), repeat=d + 1), flat):
            want = val if (len(set(t)) == d + 1 and frozenset(repr(nodes[i]) for i in t) in hit) else 0
            if abs(v - want) > TOL:
                fails.append(("tensor-entry", f"entry {[nodes[i] for i in t]} = {v}, expected {want}"))
                return fails
        return fails

    if f == "laplacian":
        d = c["order"]
        if N == 0:
            if shape != [0, 0]:
                fails.append(("laplacian-shape", f"shape {shape} for no nodes"))
            return fails
        if shape != [N, N]:
            fails.append(("laplacian-shape", f"shape {shape} for {N} nodes"))
            return fails
        rows = dicts[0]
        if rows != nodes and not (rows == [] and not of_order(edges, d)):
            fails.append(("laplacian-index-map", f"rowdict {rows}, nodes {nodes}"))
            return fails
        check_lap_like("laplacian", mat, rng, fails)
        L = bf_lap(nodes, edges, d, c["rescale"])
        if L is not None and not all(approx_equal(mat[i][k], str(L[i][k])) for i in range(N) for k in range(N)):
            fails.append(("laplacian-not-textbook", f"{mat} vs d*K - A = {[[str(v) for v in r] for r in L]}"[:400]))
        return fails

    if f == "multiorder":
        if shape != [N, N] or dicts[0] != nodes:
            fails.append(("multiorder-shape", f"shape {shape}, rowdict {dicts[0]} for nodes {nodes}"))
            return fails
        ws = [Fraction(w) for w in c["weights"]]
        check_lap_like("multiorder", mat, rng, fails, psd=all(w >= 0 for w in ws))
        L = [[Fraction(0)] * N for _ in nodes]
        for d, w in zip(c["orders"], ws):
            es = of_order(edges, d)
            if not es or not N:
                continue
            Ld = bf_lap(nodes, edges, d, c["rescale"])
            if Ld is None:
                return fails
            meanK = Fraction(sum(len(ms) for _, ms in es), N)
            for i in range(N):
                for k in range(N):
                    L[i][k] += Ld[i][k] * w / meanK
        if not all(approx_equal(mat[i][k], str(L[i][k])) for i in range(N) for k in range(N)):
            fails.append(("multiorder-not-textbook", f"{mat} vs sum_d w_d L_d / <K_d> = {[[str(v) for v in r] for r in L]}"[:400]))
        return fails

    if f == "normalized":
        if shape != [N, N] or dicts[0] != nodes:
            fails.append(("normalized-shape", f"shape {shape}, rowdict {dicts[0]} for nodes {nodes}"))
            return fails
        check_symmetric("normalized", mat, fails)
        exp = bf_normalized(c)
        # The known finding (known_findings/C12.json) has its OWN failure classes, emitted only for its witness pattern:
        # weighted=True, some effective edge weight != 1, and the returned matrix is exactly the textbook formula with the
        # UNWEIGHTED vertex degree in place of the weighted one.  Anything else (unit weights, weighted=False, or a matrix
        # that is not that formula) keeps the generic classes, which are not listed and are therefore reported.
        sfx = ""
        if c["weighted"] and any(w != 1 for w in edge_weights(c)):
            asis = bf_normalized(c, unweighted_degree=True)
            if isinstance(asis, list) and all(abs(mat[i][k] - asis[i][k]) <= TOL * max(1.0, abs(asis[i][k]))
                                              for i in range(N) for k in range(N)):
                sfx = KNOWN_SUFFIX
        note = " [matrix = textbook formula with the unweighted vertex degree; weights " + str(c["weights"]) + "]" if sfx else ""
        if not isinstance(exp, list):
            # (a zero weighted degree: the textbook matrix is undefined, the code's unweighted degree is not)
            fails.append(("normalized-not-textbook" + sfx, f"returned a matrix where the textbook matrix is {exp}" + note))
            return fails
        if N:
            sub = []
            check_psd("normalized", mat, rng, sub)
            fails += [(k + sfx, d + note) for k, d in sub]
        if not all(abs(mat[i][k] - exp[i][k]) <= TOL * max(1.0, abs(exp[i][k])) for i in range(N) for k in range(N)):
            fails.append(("normalized-not-textbook" + sfx,
                          (f"{[[round(v, 6) for v in r] for r in mat]} vs I - Dv^-1/2 H W De^-1 H^T Dv^-1/2 = "
                           f"{[[round(v, 6) for v in r] for r in exp]}"[:500]) + note))
        return fails
    return fails


def has_empty_edge(net):
    return any(not ms for _, ms in net["edges"])


EMPTY_EDGE_SUFFIX = "@empty-edge"


def sparse_only(c):
    """the sparse, index=True result of a normalised-Laplacian case in the format of call_variants; None unless it is a
    finite matrix"""
    try:
        H = build(c["net"], c.get("weights"), cls=c.get("cls"))
        r = one_call(xgi.normalized_hypergraph_laplacian, H, {"weighted": c["weighted"], "sparse": True, "index": True}, 1)
    except Exception:  # noqa
        return None
    if r["out"] != "ok":
        return None
    r["problems"] = []
    r["_sparse_view"] = True
    return r


def flatten(x):
    if isinstance(x, list):
        out = []
        for y in x:
            out += flatten(y)
        return out
    return [x]


def edge_weights(c):
    if not c["weighted"]:
        return [Fraction(1)] * len(c["net"]["edges"])
    return [Fraction(1) if w is None else Fraction(w) for w in c["weights"]]


def bf_normalized(c, unweighted_degree=False):
    """Zhou, Huang, Schölkopf (2006): I - Dv^{-1/2} H W De^{-1} H^T Dv^{-1/2} with d(v) = sum_e w(e) h(v,e),
    delta(e) = |e|; returns the float matrix, or "err:lib" (isolated node / zero weighted degree).  An edge WITHOUT members has
    h(v, e) = 0 for every v: it is in no term of sum_e w(e) h(u,e) h(v,e) / delta(e) and of d(v), so it is skipped (the matrix
    of the network without that edge).
    unweighted_degree=True: the same formula with d(v) = number of edges containing v (used only to recognise the witness
    pattern of the known finding)"""
    nodes, edges = members_of(c)
    if any(all(n not in ms for _, ms in edges) for n in nodes):
        return "err:lib"
    w = [wj for (_, ms), wj in zip(edges, edge_weights(c)) if ms]
    edges = [(e, ms) for e, ms in edges if ms]
    dv = [sum(((Fraction(1) if unweighted_degree else wj) for (_, ms), wj in zip(edges, w) if n in ms), Fraction(0)) for n in nodes]
    if any(d <= 0 for d in dv):
        return "err:lib"
    out = []
    for i, a in enumerate(nodes):
        row = []
        for k, b in enumerate(nodes):
            m = sum((wj / len(ms) for (_, ms), wj in zip(edges, w) if a in ms and b in ms), Fraction(0))
            row.append((1.0 if i == k else 0.0) - float(m) / math.sqrt(float(dv[i] * dv[k])))
        out.append(row)
    return out


# ----------------------------------------------------------------------------- comparison with the model

def frac_close(x, s):
    return approx_equal(x, s)


def compare(c, r, m):
    """implementation result r (dense reference) vs canonical model response m"""
    if r["out"] != m.get("out"):
        return False
    if r["out"] != "ok":
        return True
    f = SHORT[c["f"]]
    mat = r["mat"]
    if f == "degree":
        return r["shape"] == [len(m["vec"])] and all(x == v for x, v in zip(mat, m["vec"])) and r["dicts"] == [m["rows"]]
    if f == "tensor":
        flat = flatten(mat)
        return (r["shape"] == m["shape"] and len(flat) == len(m["flat"]) and r["dicts"] == [m["rows"]]
                and all(frac_close(x, v) for x, v in zip(flat, m["flat"])))
    if f == "normalized":
        M, dv = m["m"], [Fraction(x) for x in m["dv"]]
        n = len(M)
        if r["shape"] != [n, n] or r["dicts"] != [m["rows"]]:
            return False
        for i in range(n):
            for k in range(n):
                want = (1.0 if i == k else 0.0) - float(Fraction(M[i][k])) / math.sqrt(float(dv[i] * dv[k]))
                if abs(mat[i][k] - want) > TOL * max(1.0, abs(want)):
                    return False
        return True
    mm = m["mat"]
    shape = [len(mm), len(mm[0]) if mm else 0]
    if r["shape"] != shape:
        return False
    want_dicts = [m["rows"]] + ([m["cols"]] if "cols" in m else [])
    if r["dicts"] != want_dicts:
        return False
    for row, mrow in zip(mat, mm):
        if len(row) != len(mrow):
            return False
        for x, v in zip(row, mrow):
            if isinstance(v, str):
                if not frac_close(x, v):
                    return False
            elif x != v:
                return False
    return True


# ----------------------------------------------------------------------------- case generation

WEIGHT_POOL = ["1", "2", "3", "1/2", "1/4", "3/2", "1/3", "5"]
ORDER_LISTS = [[1], [2], [1, 2], [2, 1, 3], [1, 1], [3, 2, 1], [], [1, 2, 3], [0, 1], [0], [2, 0, 1], [3]]


def enc(nodes, edges):
    return {"nodes": [enc_id(n) for n in nodes], "edges": [[enc_id(e), [enc_id(x) for x in ms]] for e, ms in edges]}


def weight_case(rng, net, order):
    """incidence_matrix with a `weight=` callback: a table over all (node, edge) pairs (small ints incl. 0 and negatives,
    the matrix has dtype=int) and a default, larger than every table value, for any other argument pair"""
    wt = [[n, e, rng.choice([-3, -2, -1, 0, 2, 3, 4, 5, 6, 7, 8, 9])] for n in net["nodes"] for e, _ in net["edges"]]
    return {"f": "incidence_matrix", "net": net, "order": order, "wt": wt, "wdef": rng.choice([97, 50, -40])}


def weight_case_float(rng, net, order):
    """incidence_matrix with a FLOAT-valued `weight=` callback (predicate on the implementation only; the model has integer
    tables): non-integral values of both signs, so that a container which keeps the fraction and one which truncates it differ"""
    wt = [[n, e, rng.choice([0.5, -0.5, 1.5, 2.25, -2.75, 0.9, -1.1, 3.0, 7.5])] for n in net["nodes"] for e, _ in net["edges"]]
    return {"f": "incidence_matrix", "net": net, "order": order, "wt": wt, "wdef": rng.choice([97.5, -40.25]), "float_wt": True}


def impl_only(ctx, cases):
    """cases outside the model: implementation + predicate, no driver"""
    for c in cases:
        try:
            r = impl(c)
        except core.Infra:
            raise
        except Exception as ex:  # noqa
            r = {"out": "err:" + type(ex).__name__, "msg": str(ex)[:200]}
        ctx.evaluations += 1
        ctx.stats["fn:" + c["f"] + " (predicate only)"] += 1
        if nontrivial(c, r):
            ctx.nontrivial.add(jhash([c, r]))
        for cls, detail in pred(c, r) or []:
            ctx.violation(c["f"], cls, c, detail=detail)


def max_shared(net):
    ms = [set(map(json.dumps, m)) for _, m in net["edges"]]
    best = 0
    for a in net["nodes"]:
        for b in net["nodes"]:
            if a != b:
                best = max(best, sum(1 for m in ms if json.dumps(a) in m and json.dumps(b) in m))
    return best


def grid(rng, net, full=True):
    """every option combination of every function for one network (sparse/index are expanded inside impl).  Orders above 3
    and thresholds s above 3 are added where the network has such edges / that many shared edges (and now and then where
    it has not)"""
    cases = []
    big = sorted({len(ms) - 1 for _, ms in net["edges"] if len(ms) - 1 > 3})
    if rng.random() < 0.06:
        big = sorted(set(big) | {rng.choice([4, 5])})
    svals = [1, 2, 3]
    top = max_shared(net)
    if top >= 4 or rng.random() < 0.06:
        svals += sorted({4, min(max(top, 4), 7), rng.choice([5, 6])})
    for o in ORDERS + big:
        cases.append({"f": "incidence_matrix", "net": net, "order": o})
        cases.append({"f": "degree_matrix", "net": net, "order": o})
        cases.append({"f": "intersection_profile", "net": net, "order": o})
        for s in svals:
            for w in (False, True):
                cases.append({"f": "adjacency_matrix", "net": net, "order": o, "s": s, "weighted": w})
    # the `weight=` callback of incidence_matrix: all orders together and one single order
    cases.append(weight_case(rng, net, None))
    cases.append(weight_case(rng, net, rng.choice([0, 1, 2, 3] + big)))
    cases.append({"f": "clique_motif_matrix", "net": net})
    for d in [0, 1, 2, 3] + big:
        for resc in (False, True):
            cases.append({"f": "laplacian", "net": net, "order": d, "rescale": resc})
        if len(net["nodes"]) ** (d + 1) <= (1300 if d <= 3 else 8000):
            for nm in (False, True):
                cases.append({"f": "adjacency_tensor", "net": net, "order": d, "normalized": nm})
    for ol in [[big[0]], [1, big[-1]], big[::-1] + [2]] if big else []:
        for resc in (False, True):
            ws = [rng.choice(WEIGHT_POOL + ["0"]) for _ in ol]
            cases.append({"f": "multiorder_laplacian", "net": net, "orders": ol, "weights": ws, "rescale": resc})
    for ol in (ORDER_LISTS if full else rng.sample(ORDER_LISTS, 4)):
        for resc in (False, True):
            if resc and 0 in ol:
                continue  # rescaling the order-0 Laplacian by 0 is undefined (checked on `laplacian` itself)
            ws = [rng.choice(WEIGHT_POOL + ["0"]) for _ in ol]
            cases.append({"f": "multiorder_laplacian", "net": net, "orders": ol, "weights": ws, "rescale": resc})
    if rng.random() < 0.3:
        ol = rng.choice(ORDER_LISTS)
        cases.append({"f": "multiorder_laplacian", "net": net, "orders": [x for x in ol if x], "rescale": rng.random() < 0.5,
                      "weights": [rng.choice(WEIGHT_POOL) for _ in range(len([x for x in ol if x]) + rng.choice([1, 2]))]})
    if rng.random() < 0.2:
        ol = [x for x in rng.choice(ORDER_LISTS) if x]
        cases.append({"f": "multiorder_laplacian", "net": net, "orders": ol, "rescale": rng.random() < 0.5,
                      "weights": [rng.choice(["-1", "-1/2", "1", "2"]) for _ in ol]})
    # normalised Laplacian: the network as it is (isolated nodes => XGIError) and with its isolated nodes dropped
    used = {json.dumps(x) for _, ms in net["edges"] for x in ms}
    net2 = {"nodes": [n for n in net["nodes"] if json.dumps(n) in used], "edges": net["edges"]}
    # (a network with edges but no node at all - only empty edges - is not drawn: both variants raise ValueError from a
    # (0,0) @ (m,m) product; sparse == dense holds there)
    for nt in [t for t in ([net] if net2 == net else [net, net2]) if t["nodes"] or not t["edges"]]:
        cases.append({"f": "normalized_hypergraph_laplacian", "net": nt, "weighted": False, "weights": [None] * len(nt["edges"])})
        ws = [rng.choice(WEIGHT_POOL + [None, None, None]) for _ in nt["edges"]]
        if rng.random() < 0.05 and ws:
            ws[rng.randrange(len(ws))] = "0"
        cases.append({"f": "normalized_hypergraph_laplacian", "net": nt, "weighted": True, "weights": ws})
        if rng.random() < 0.3:
            cases.append({"f": "normalized_hypergraph_laplacian", "net": nt, "weighted": True, "weights": [None] * len(nt["edges"])})
    return cases


def special_networks():
    """degenerate shapes that random generation reaches rarely"""
    out = [([], []), ([0], []), (["a", "b", 3], []), ([1, 2], [(0, [1])]), ([1, 2], [(0, [1]), (1, [2])]),
           ([1, 2, 3], [(5, [1, 2, 3]), (7, [1, 2, 3]), ("x", [1, 2, 3])]),
           (["a", "b", "c", "d"], [(0, ["a"]), (1, ["a", "b"]), (2, ["a", "b"]), (3, ["a", "b", "c"])]),
           ([1, 2, 3], [(0, [1, 2]), (1, [])]), ([4, 2], [(0, []), (1, [])]),
           ([0, 1, 2, 3, 4], [(0, [0, 1, 2, 3]), (1, [1, 2, 3, 4]), (2, [0, 1, 2, 3])]),
           ([3, 1, 2], [(2, [2, 1]), (1, [1, 3]), (0, [3, 2]), (9, [1, 2, 3])]),
           # orders 4, 5, 6 (edges of 5, 6, 7 members) and a pair sharing 5 edges (thresholds s up to 5)
           ([0, 1, 2, 3, 4, 5, 6], [(0, [0, 1, 2, 3, 4]), (1, [1, 2, 3, 4, 5, 6]), (2, [0, 1, 2, 3, 4, 5, 6]), (3, [2, 3, 4, 5, 6]),
                                    (4, [0, 1]), (5, [6, 5, 4, 3, 2, 1])]),
           (["a", "b", "c", "d", "e"], [(0, ["a", "b", "c", "d", "e"]), (1, ["a", "b", "c", "d"]), ("x", ["e", "d", "c", "b", "a"])]),
           ([1, 2, 3], [(0, [1, 2]), (1, [1, 2]), (2, [2, 1]), (3, [1, 2, 3]), (4, [1, 2]), (5, [3])])]
    return [enc(n, e) for n, e in out]


def random_network(rng):
    r = rng.random()
    if r < 0.05:
        # edges of 5-7 members: orders 4-6
        nodes, edges = gen_hypergraph(rng, max_nodes=7, max_edges=4, max_size=7)
        if len(nodes) >= 5 and not any(len(ms) >= 5 for _, ms in edges):
            edges.append(("big", rng.sample(nodes, rng.randint(5, len(nodes)))))
        return enc(nodes, edges)
    if r < 0.10:
        # many edges on few nodes: pairs sharing 4 and more edges (thresholds s > 3)
        nodes, edges = gen_hypergraph(rng, max_nodes=4, max_edges=12, max_size=3, edge_ids=lambda m: list(range(m)))
        return enc(nodes, edges)
    r = rng.random()
    if r < 0.08:
        nodes, edges = gen_hypergraph(rng, max_nodes=6, max_edges=5, max_size=4, allow_empty_edges=True)
    elif r < 0.2:
        k = rng.choice([1, 2, 3])  # uniform hypergraph
        nodes, edges = gen_hypergraph(rng, max_nodes=6, max_edges=6, max_size=k + 1)
        edges = [(e, ms) for e, ms in edges if len(ms) == k + 1]
    elif r < 0.3:
        nodes, edges = gen_hypergraph(rng, max_nodes=5, max_edges=8, max_size=3)
    else:
        nodes, edges = gen_hypergraph(rng, max_nodes=6, max_edges=6, max_size=4)
    return enc(nodes, edges)


def nontrivial(c, r):
    return any(len(ms) >= 2 for _, ms in c["net"]["edges"]) and r.get("out") == "ok"


# ----------------------------------------------------------------------------- shrinking, corpus, replay

def fails_with(c, cls):
    try:
        r = impl(c)
    except Exception:  # noqa
        return False
    return any(k == cls for k, _ in pred(c, r))


def shrink(c, cls, budget=300):
    """greedy: drop edges, then members, then unused nodes while the predicate fails with the same class"""
    c = json.loads(json.dumps(c))
    if c["f"] == "normalized_hypergraph_laplacian":
        # prefer a witness with unit weights (outside the pattern of the known finding) when one exists
        for cand in ({**c, "weighted": False, "weights": [None] * len(c["weights"])}, {**c, "weights": [None] * len(c["weights"])}):
            if fails_with(cand, cls):
                c = json.loads(json.dumps(cand))
                break
    changed = True
    while changed and budget > 0:
        changed = False
        E = c["net"]["edges"]
        for i in range(len(E) - 1, -1, -1):
            cand = json.loads(json.dumps(c))
            del cand["net"]["edges"][i]
            if "weights" in cand and cand["f"] == "normalized_hypergraph_laplacian":
                del cand["weights"][i]
            budget -= 1
            if fails_with(cand, cls):
                c, changed = cand, True
                break
        if changed:
            continue
        for i, (e, ms) in enumerate(c["net"]["edges"]):
            for j in range(len(ms) - 1, -1, -1):
                if len(ms) <= 1:
                    break
                cand = json.loads(json.dumps(c))
                del cand["net"]["edges"][i][1][j]
                budget -= 1
                if fails_with(cand, cls):
                    c, changed = cand, True
                    break
            if changed:
                break
        if changed:
            continue
        used = {json.dumps(x) for _, ms in c["net"]["edges"] for x in ms}
        for i in range(len(c["net"]["nodes"]) - 1, -1, -1):
            if json.dumps(c["net"]["nodes"][i]) in used:
                continue
            cand = json.loads(json.dumps(c))
            del cand["net"]["nodes"][i]
            budget -= 1
            if fails_with(cand, cls):
                c, changed = cand, True
                break
    return c


def corpus_cases():
    out = []
    for p in sorted(glob.glob(os.path.join(VERIF, "corpus", "C12", "*.json"))):
        try:
            j = json.load(open(p))
            out.append(j["case"] if "case" in j else j)
        except Exception:  # noqa
            pass
    return [c for c in out if isinstance(c, dict) and c.get("f") in FUNCS]


def shrink_violations(ctx):
    for v in ctx.violations:
        if v["kind"] == "concrete" and isinstance(v["case"], dict) and v["case"].get("f") in FUNCS:
            try:
                small = shrink(v["case"], v["failure_class"])
                r = impl(small)
                d = [t for k, t in pred(small, r) if k == v["failure_class"]]
                if d:
                    v["case"], v["detail"] = small, d[0]
            except Exception:  # noqa
                pass


def conclude12(ctx, ok, dis):
    """verdict logic of DESIGN 4.3; known findings do not count as the explanation of a broken obligation or of a
    disagreement: for every function on which model and implementation differ (or for all, if the build/audit broke)
    without a concrete violation that is not a known finding, search harder, then report `unproven`"""
    known = [k for k in load_known() if k["property"] == ctx.prop]

    def explained(site=None):
        return any(v["kind"] == "concrete" and not is_known(ctx, v, known) and (site is None or v["site"] == site)
                   for v in ctx.violations)

    sites = sorted({str(c.get("f")) for c, _, _ in dis})
    open_sites = [f for f in sites if not explained(f)]
    if (not ok and not explained()) or open_sites:
        rng = ctx.rng
        more = []
        for _ in range(ctx.n(150, 1500)):
            more += grid(rng, random_network(rng), full=True)
        more = [c for c in more if not open_sites or c["f"] in open_sites]
        more = [c for c, _, _ in dis] + more
        for c in more:
            r = impl(c)
            for cls, detail in pred(c, r):
                ctx.violation(c["f"], cls, c, detail=detail)
        ctx.stats["targeted_search_cases"] = len(more)
        still = [f for f in open_sites if not explained(f)]
        if still or (not ok and not explained()):
            ctx.violation("model-tie", "unproven", {"broken": ctx.broken, "functions": still,
                                                    "example": ctx.extra.get("disagreements", [])[:1]},
                          detail="; ".join(ctx.broken)[:500], kind="unproven", broken=ctx.broken)


def replay_family(ctx, path, c):
    """replay of a held-object script or of a large-network case (implementation + predicate only; the proofs are still
    built and audited)"""
    _CTX[0] = ctx
    ok = build_and_audit(ctx, "XgiModel.Props.C12", ["XgiModel.C12.Drive"])
    if c["kind"] == "held-object":
        fails, _ = run_held(c, ctx)
        for cls, detail in fails:
            ctx.violation(c["fn"], cls, c, detail=detail)
    else:
        for f, cls, kw, detail in run_regime(c, ctx):
            if "fn" not in c or (f == c["fn"]):
                ctx.violation(f, cls, c, detail=detail)
    if not ok and not ctx.violations:
        ctx.violation("model-tie", "unproven", {"broken": ctx.broken}, detail="; ".join(ctx.broken)[:500], kind="unproven", broken=ctx.broken)
    ctx.rule = f"replay of {path}"

    def write_replay_evidence(prop, ev):
        d = os.path.join(OUT, "replay-evidence")
        os.makedirs(d, exist_ok=True)
        with open(os.path.join(d, prop + ".json"), "w") as f:
            json.dump(jsonable(ev), f, indent=1)
    saved, core.write_evidence = core.write_evidence, write_replay_evidence
    try:
        return finish(ctx, trusted_base=TRUSTED)
    finally:
        core.write_evidence = saved


def replay(ctx, path):
    """one case through the same path as a run (build + audit, predicate, correspondence, known findings, verdict).  The
    record of a replay goes to out/replay-evidence/C12.json: evidence/C12.json always describes a full run."""
    j = json.load(open(path))
    c = j["case"] if "case" in j else j
    if isinstance(c, dict) and c.get("kind") in ("held-object", "regime"):
        return replay_family(ctx, path, c)
    if not (isinstance(c, dict) and c.get("f") in FUNCS):
        raise core.Infra(f"{path}: not a C12 case (no replayable input: a `no-failing-input-found` record names broken obligations only)")
    _CTX[0] = ctx
    ok = build_and_audit(ctx, "XgiModel.Props.C12", ["XgiModel.C12.Drive"])
    if predicate_only(c):
        impl_only(ctx, [c])  # outside the model: predicate on the implementation only
        dis = []
    else:
        dis = run_fn(ctx, "C12", [c], impl, pred=pred, compare=compare, nontrivial=nontrivial)
    known = [k for k in load_known() if k["property"] == ctx.prop]
    if (dis or not ok) and not any(not is_known(ctx, v, known) for v in ctx.violations):
        ctx.violation("model-tie", "unproven", {"broken": ctx.broken, "example": ctx.extra.get("disagreements", [])[:1]},
                      detail="; ".join(ctx.broken)[:500], kind="unproven", broken=ctx.broken)
    ctx.rule = f"replay of {path}"

    def write_replay_evidence(prop, ev):
        d = os.path.join(OUT, "replay-evidence")
        os.makedirs(d, exist_ok=True)
        with open(os.path.join(d, prop + ".json"), "w") as f:
            json.dump(jsonable(ev), f, indent=1)
    saved, core.write_evidence = core.write_evidence, write_replay_evidence
    try:
        return finish(ctx, trusted_base=TRUSTED)
    finally:
        core.write_evidence = saved


# ----------------------------------------------------------------------------- second-round families (review 2)
# held-object / state across calls, regime (large network), tuple labels, class variants.  All of them evaluate the
# statement's clauses on the implementation only (no model call): the driver reads int/str IDs and small networks.

def net_of(H):
    """the network as the views of the object show it"""
    return {"nodes": [enc_id(n) for n in H.nodes],
            "edges": [[enc_id(e), [enc_id(x) for x in H.edges.members(e)]] for e in H.edges]}


def net_sets(net):
    return ([json.dumps(n) for n in net["nodes"]], [(json.dumps(e), sorted(json.dumps(x) for x in ms)) for e, ms in net["edges"]])


def is_tuple_net(net):
    return any(isinstance(n, list) for n in net["nodes"]) or any(isinstance(e, list) for e, _ in net["edges"])


def predicate_only(c):
    """cases outside the model correspondence: float callbacks; tuple labels (the driver answers bad-op on them); class
    variants; the normalised Laplacian of a network with an empty edge (the model answers `undefined`, the sparse code and the
    repaired dense code return the matrix of the network without that edge)"""
    return bool(c.get("float_wt") or c.get("cls") or is_tuple_net(c["net"])
                or (c["f"] == "normalized_hypergraph_laplacian" and has_empty_edge(c["net"])))


def one_call(fn, H, kw, n_index):
    """ONE call fn(H, **kw) -> result dict in the format of call_variants (dense matrix, shape, index label lists)"""
    out, val = _call(fn, H, **kw)
    if out != "ok":
        return {"out": out, "msg": str(val)[:160]}
    try:
        if kw.get("index"):
            if not (isinstance(val, tuple) and len(val) == 1 + n_index):
                return {"out": "bad-return", "msg": f"index=True returned {type(val).__name__}"}
            mat, dicts = val[0], list(val[1:])
        else:
            mat, dicts = val, None
        if isinstance(mat, tuple):
            return {"out": "bad-return", "msg": "index=False returned a tuple"}
        arr = dense(mat)
        r = {"out": "ok", "shape": list(arr.shape), "mat": arr.tolist()}
        if "sparse" in kw and is_sparse(mat) != bool(kw["sparse"]):
            return {"out": "bad-return", "msg": f"sparse={kw['sparse']} returned {type(mat).__name__}"}
        if not _finite(r["mat"]):
            return {"out": "undefined"}
        if dicts is not None:
            r["dicts"] = [labels(d) for d in dicts]
        return r
    except Exception as ex:  # noqa
        return {"out": "err:" + type(ex).__name__, "msg": str(ex)[:160]}


def same_result(a, b):
    if a["out"] != b["out"]:
        return False
    if a["out"] != "ok":
        return True
    return a["shape"] == b["shape"] and _same(a["mat"], b["mat"]) and a.get("dicts") == b.get("dicts")


# ---- 1. held object: one Hypergraph, several option tuples, edits in between

HELD_LISTS = {1: [[1], [2], [3]], 2: [[1, 2], [2, 1], [1, 3], [2, 3]], 3: [[1, 2, 3], [3, 2, 1], [1, 1, 2]]}
HELD_WEIGHTS = {1: [["1"], ["2"], ["1/2"]], 2: [["1", "1"], ["1", "2"], ["1/2", "3"], ["0", "1"]],
                3: [["1", "1", "1"], ["1", "2", "3"], ["2", "1/2", "0"]]}


def held_base(rng, f):
    """option tuple A (fields as in the ordinary cases + sparse/index)"""
    s = SHORT[f]
    a = {"index": True}
    if FUNCS[f][1]:
        a["sparse"] = rng.random() < 0.25
    if s in ("incidence", "degree", "profile"):
        a["order"] = rng.choice([None, None, 1, 2])
        if s == "incidence":
            a["wconst"] = None
    elif s == "adjacency":
        a.update(order=rng.choice([None, 1, 2]), s=rng.choice([1, 1, 2]), weighted=rng.random() < 0.5)
    elif s == "laplacian":
        a.update(order=rng.choice([1, 2, 2, 3]), rescale=rng.random() < 0.3)
    elif s == "multiorder":
        k = rng.choice([1, 2, 2, 3])
        a.update(orders=rng.choice(HELD_LISTS[k]), weights=rng.choice(HELD_WEIGHTS[k]), rescale=rng.random() < 0.3)
    elif s == "normalized":
        a["weighted"] = rng.random() < 0.5
    elif s == "tensor":
        a.update(order=rng.choice([1, 2]), normalized=rng.random() < 0.5)
    return a


def held_variants(f, a):
    """every option tuple that differs from `a` in exactly ONE argument"""
    out = []

    def alt(key, vals):
        for v in vals:
            if key in a and v != a[key]:
                out.append({**a, key: v})
    alt("order", [None, 0, 1, 2, 3] if SHORT[f] not in ("laplacian", "tensor") else [0, 1, 2, 3])
    alt("s", [1, 2, 3])
    for key in ("weighted", "rescale", "normalized", "sparse", "index"):
        alt(key, [False, True])
    alt("wconst", [None, 2, -3])
    if "orders" in a:
        alt("orders", HELD_LISTS[len(a["orders"])])
        alt("weights", HELD_WEIGHTS[len(a["orders"])])
    return out


def held_kwargs(f, o):
    c = {"f": f, **{k: v for k, v in o.items() if k not in ("sparse", "index", "wconst")}}
    kw = kwargs_of(c)
    if o.get("wconst") is not None:
        kw["weight"] = (lambda v: (lambda node, edge, H: v))(o["wconst"])
    for k in ("sparse", "index"):
        if k in o:
            kw[k] = o[k]
    return kw


def apply_ops(H, ops):
    for op in ops:
        if op[0] == "remove_edge":
            H.remove_edge(dec_id(op[1]))
        elif op[0] == "add_edge":
            H.add_edge([dec_id(x) for x in op[1]], idx=dec_id(op[2]))
        elif op[0] == "remove_node":
            H.remove_node(dec_id(op[1]))
        else:
            raise ValueError(op)


def held_script(rng, f, net, weights):
    """a replayable call/edit script for ONE held object: A, B1, B2 (one argument changed each), a count-preserving edit
    (stale.count_preserving_edit_hg, recorded as explicit operations), A and B again in random order, an ordinary edit (add an
    edge / remove a node), A and B again"""
    from ..stale import count_preserving_edit_hg
    a = held_base(rng, f)
    vs = held_variants(f, a)
    bs = rng.sample(vs, min(2, len(vs)))
    steps = [{"call": a}] + [{"call": b} for b in bs]
    Hs = build(net, weights)
    before = {json.dumps(enc_id(e)): sorted(json.dumps(enc_id(x)) for x in Hs.edges.members(e)) for e in Hs.edges}
    try:
        done = count_preserving_edit_hg(rng, Hs)
    except Exception:  # noqa
        done = False
    ops = []
    if done:
        after = {json.dumps(enc_id(e)): [enc_id(x) for x in Hs.edges.members(e)] for e in Hs.edges}
        ops = [["remove_edge", json.loads(e)] for e in before if e not in after]
        ops += [["add_edge", ms, json.loads(e)] for e, ms in after.items() if e not in before]
    if ops:
        again = [a] + [rng.choice(bs)] if bs else [a]
        rng.shuffle(again)
        steps += [{"edit": ops}] + [{"call": o} for o in again]
    nodes = list(Hs.nodes)
    if nodes and rng.random() < 0.35:
        ops2 = [["remove_node", enc_id(rng.choice(nodes))]]
    else:
        ms = rng.sample(nodes, min(len(nodes), rng.randint(2, 3))) if nodes else []
        ms = [enc_id(x) for x in ms] + (["h2-new-node"] if rng.random() < 0.3 or not ms else [])
        ops2 = [["add_edge", ms, "h2-new-edge"]]
    again = [a] + ([rng.choice(bs)] if bs else [])
    rng.shuffle(again)
    steps += [{"edit": ops2}] + [{"call": o} for o in again]
    c = {"kind": "held-object", "fn": f, "net": net, "steps": steps}
    if weights is not None:
        c["weights"] = weights
    return c


def run_held(case, ctx=None):
    """execute a held-object script; every call on the held object is compared with the same call on H.copy() and, when it
    returns index maps, judged by the predicate `pred` against the network the views show at that moment"""
    f = case["fn"]
    fn, _, n_index = FUNCS[f]
    fails = []
    H = build(case["net"], case.get("weights"))
    wmap = {json.dumps(e): w for (e, _), w in zip(case["net"]["edges"], case.get("weights") or [None] * len(case["net"]["edges"]))}
    prev, edited, any_ok = None, False, False
    for i, st in enumerate(case["steps"]):
        if "edit" in st:
            try:
                apply_ops(H, st["edit"])
            except Exception as ex:  # noqa
                fails.append(("held-object-edit-raised", f"step {i} {st['edit']}: {type(ex).__name__}: {ex}"))
                return fails, any_ok
            edited = True
            continue
        o = st["call"]
        kw = held_kwargs(f, o)
        held = one_call(fn, H, kw, n_index)
        fresh = one_call(fn, H.copy(), held_kwargs(f, o), n_index)
        if ctx is not None:
            ctx.evaluations += 2
        any_ok = any_ok or held["out"] == "ok"
        if not same_result(held, fresh):
            cls = ("stale-result-after-edit" if edited else "stale-result-other-options" if prev is not None and prev != o
                   else "held-object-differs-from-copy")
            fails.append((cls, f"step {i}: {f}(H, **{o}) on the held object = {json.dumps(held)[:220]} but on H.copy() = "
                               f"{json.dumps(fresh)[:220]}" + (f"; previous call on H had {prev}" if prev is not None else "")))
        if o.get("index") and held["out"] != "bad-return":
            net = net_of(H)
            c = {"f": f, "net": net, **{k: v for k, v in o.items() if k not in ("sparse", "index", "wconst")}}
            if o.get("wconst") is not None:
                c.update(wt=[], wdef=o["wconst"])
            if f == "normalized_hypergraph_laplacian":
                c["weights"] = [wmap.get(json.dumps(e)) for e, _ in net["edges"]]
            try:
                sub = pred(c, {**held, "problems": []})
            except Exception as ex:  # noqa
                sub = [("held-object-malformed-result", f"{type(ex).__name__}: {ex}")]
            # (the classes of the open known finding are reported by the ordinary family, with its own witness pattern)
            fails += [(k, f"step {i}, {o}: " + d) for k, d in sub if not k.endswith(KNOWN_SUFFIX) and not k.endswith(EMPTY_EDGE_SUFFIX)]
        elif held["out"] == "bad-return":
            fails.append(("index-return-shape", f"step {i}, {o}: {held['msg']}"))
        prev, edited = o, False
    return fails, any_ok


def held_family(ctx, rng, n):
    for _ in range(n):
        net = random_network(rng)
        net = {"nodes": net["nodes"], "edges": [e for e in net["edges"] if e[1]]}
        for f in FUNCS:
            weights = None
            if f == "normalized_hypergraph_laplacian":
                weights = [rng.choice(WEIGHT_POOL + [None, None]) for _ in net["edges"]]
            try:
                case = held_script(rng, f, net, weights)
                fails, any_ok = run_held(case, ctx)
            except Exception as ex:  # noqa
                case, fails, any_ok = {"kind": "held-object", "fn": f, "net": net}, [("held-object-crashed", f"{type(ex).__name__}: {ex}")], False
            ctx.stats["held-object sequences"] += 1
            ctx.stats["held-object sequences:" + f] += 1
            if any_ok:
                ctx.nontrivial.add(jhash(case))
            for cls, detail in fails:
                ctx.violation(f, cls, case, detail=detail)


# ---- 2. regime: one large network

REGIME_S = [1, 2, 129, 130, 131]
BIG = 2 ** 53 + 1


def regime_net(p):
    """deterministic from the parameters: n_nodes labels (ints of both signs, strings, 2**53+1 and 2**53+2 - equal as
    floats -, the decimal string of 2**53+1), `parallel` edges on the pair (2**53+1, "v0") among n_other random edges of
    1-5 members (some containing that pair, duplicates, singletons); some labels stay isolated; edge IDs int/str and one
    integer above 2**53"""
    import random
    g = random.Random(p["gen_seed"])
    n = max(3, p["n_nodes"])
    pool = [BIG, "v0", BIG + 1, str(BIG), 0, -1, "0"]
    i = 1
    while len(pool) < n:
        pool.append(i if i % 3 else "n%d" % i)
        i += 1
    nodes = pool[:n]
    usable = nodes[: max(3, n - 3)]  # the last three labels stay isolated (when n > 5)
    edges = [[BIG, "v0"] for _ in range(p["parallel"])]
    for _ in range(p["n_other"]):
        k = min(len(usable), g.choice([1, 2, 2, 2, 3, 3, 4, 5]))
        ms = g.sample(usable, k)
        r = g.random()
        if r < 0.08 and k >= 2:
            ms = [BIG, "v0"] + [x for x in ms if x not in (BIG, "v0")][: k - 2]
        elif r < 0.16 and len(edges) > p["parallel"]:
            ms = list(g.choice(edges[p["parallel"]:]))
        edges.append(ms)
    g.shuffle(edges)
    g.shuffle(nodes)
    ids = []
    for j in range(len(edges)):
        ids.append(BIG + 2 if j == 5 else ("e%d" % j if j % 7 == 3 else j))
    return nodes, list(zip(ids, edges))


def _first_diff(a, b):
    idx = np.argwhere(~np.isclose(np.asarray(a, dtype=float), np.asarray(b, dtype=float), rtol=1e-9, atol=1e-9))
    return tuple(int(x) for x in idx[0]) if len(idx) else None


def run_regime(p, ctx=None):
    """the statement's clauses on a large network against a brute-force construction from members() (numpy int64/float64
    arrays filled by loops over the member sets; no incidence product)"""
    fails = []
    nodes0, edges0 = regime_net(p)
    H = xgi.Hypergraph()
    for x in nodes0:
        H.add_node(x)
    for e, ms in edges0:
        H.add_edge(ms, idx=e)
    nodes = list(H.nodes)
    elist = list(H.edges)
    mem = {e: set(H.edges.members(e)) for e in elist}
    pos = {x: i for i, x in enumerate(nodes)}
    N = len(nodes)
    nodes_enc = [enc_id(x) for x in nodes]

    def brute(order):
        es = [e for e in elist if order is None or len(mem[e]) == order + 1]
        B = np.zeros((N, len(es)), dtype=np.int64)
        C = np.zeros((N, N), dtype=np.int64)
        for j, e in enumerate(es):
            for a in mem[e]:
                B[pos[a], j] = 1
                for b in mem[e]:
                    if a != b:
                        C[pos[a], pos[b]] += 1
        return es, B, C

    def variants(f, kw):
        fn, has_sparse, n_index = FUNCS[f]
        ref, problems = call_variants(ctx, fn, H, kw, has_sparse, n_index)
        if ctx is not None:
            ctx.evaluations += 1
            ctx.stats["fn:" + f + " (large network, predicate only)"] += 1
        for k, d in problems:
            fails.append((f, k, kw, d))
        if ref["out"] != "ok":
            fails.append((f, SHORT[f] + "-raised", kw, f"{ref['out']}: {ref.get('msg')}"))
            return None, None
        return np.array(ref["mat"]), ref.get("dicts")

    def guard(f, kw, body):
        try:
            body()
        except Exception as ex:  # noqa
            fails.append((f, SHORT[f] + "-malformed-result", kw, f"{type(ex).__name__}: {ex}"))

    def lab(i):
        return repr(nodes[i])

    def lap_like(f, kw, mat, want, psd=True):
        scale = max(1.0, float(np.abs(want).max()) if want.size else 1.0)
        rs = np.abs(mat.sum(axis=1))
        if rs.size and rs.max() > TOL * scale * N:
            i = int(rs.argmax())
            fails.append((f, SHORT[f] + "-row-sum-nonzero", kw, f"row of node {lab(i)} sums to {mat[i].sum()}"))
        if not np.allclose(mat, mat.T, rtol=1e-9, atol=1e-9):
            fails.append((f, SHORT[f] + "-not-symmetric", kw, f"entries {_first_diff(mat, mat.T)} differ from their transposes"))
        elif psd and N:
            lo = float(np.linalg.eigvalsh((mat + mat.T) / 2).min())
            if lo < -1e-7 * scale * N:
                fails.append((f, SHORT[f] + "-not-psd", kw, f"least eigenvalue {lo}"))
        d = _first_diff(mat, want) if mat.shape == want.shape else "shape"
        if d is not None:
            fails.append((f, SHORT[f] + "-not-textbook", kw, f"shape {mat.shape}; first difference at {d}: "
                          + (f"nodes ({lab(d[0])}, {lab(d[1])}): {mat[d]} vs textbook {want[d]}" if d != "shape" else f"expected {want.shape}")))

    deg, Cs = {}, {}
    for order in (None, 1, 2):
        es, B, C = brute(order)
        deg[order], Cs[order] = B.sum(axis=1), C
        es_enc = [enc_id(e) for e in es]

        def incidence(order=order, es=es, B=B, es_enc=es_enc):
            kw = {"order": order}
            mat, dicts = variants("incidence_matrix", kw)
            if mat is None:
                return
            if list(mat.shape) != [N, len(es)]:
                fails.append(("incidence_matrix", "incidence-shape", kw, f"shape {mat.shape} for {N} nodes and {len(es)} edges"))
            elif dicts != [nodes_enc, es_enc]:
                fails.append(("incidence_matrix", "incidence-index-maps", kw, "index maps are not the node / edge labels in view order"))
            elif not np.array_equal(mat, B):
                i, j = np.argwhere(mat != B)[0]
                fails.append(("incidence_matrix", "incidence-entry", kw, f"entry (node {lab(i)}, edge {es[j]!r}) = {mat[i, j]}, member = {bool(B[i, j])}"))
        if order != 2:
            guard("incidence_matrix", {"order": order}, incidence)

        def degree(order=order, B=B):
            kw = {"order": order}
            mat, dicts = variants("degree_matrix", kw)
            if mat is None:
                return
            if list(mat.shape) != [N] or dicts != [nodes_enc]:
                fails.append(("degree_matrix", "degree-shape", kw, f"shape {mat.shape}, index map wrong = {dicts != [nodes_enc]}"))
            elif not np.array_equal(mat, B.sum(axis=1)):
                i = int(np.argwhere(mat != B.sum(axis=1))[0][0])
                fails.append(("degree_matrix", "degree-value", kw, f"degree of {lab(i)} = {mat[i]}, memberships = {B.sum(axis=1)[i]}"))
        guard("degree_matrix", {"order": order}, degree)

        if order == 2:
            continue
        for weighted in (False, True):
            for s in REGIME_S + [max(1, int(C.max()))]:
                kw = {"order": order, "s": s, "weighted": weighted}

                def adjacency(kw=kw, C=C, s=s, weighted=weighted):
                    mat, dicts = variants("adjacency_matrix", kw)
                    if mat is None:
                        return
                    want = np.where(C >= s, C if weighted else 1, 0)
                    if list(mat.shape) != [N, N] or dicts != [nodes_enc]:
                        fails.append(("adjacency_matrix", "adjacency-shape", kw, f"shape {mat.shape}, index map wrong = {dicts != [nodes_enc]}"))
                    elif np.diag(mat).any():
                        fails.append(("adjacency_matrix", "adjacency-diagonal-nonzero", kw, f"diagonal {np.diag(mat)[np.diag(mat) != 0][:3]}"))
                    elif not np.array_equal(mat, mat.T):
                        fails.append(("adjacency_matrix", "adjacency-not-symmetric", kw, f"{_first_diff(mat, mat.T)}"))
                    elif not np.array_equal(mat, want):
                        i, k = np.argwhere(mat != want)[0]
                        fails.append(("adjacency_matrix", "adjacency-count", kw,
                                      f"({lab(i)},{lab(k)}) = {mat[i, k]}, shared edges of order {kw['order']} = {C[i, k]}, s = {s}, weighted = {weighted}"))
                guard("adjacency_matrix", kw, adjacency)

    def profile():
        mat, dicts = variants("intersection_profile", {"order": None})
        if mat is None:
            return
        want = np.array([[len(mem[a] & mem[b]) for b in elist] for a in elist], dtype=np.int64).reshape(len(elist), len(elist))
        if mat.shape != want.shape or dicts != [[enc_id(e) for e in elist]]:
            fails.append(("intersection_profile", "profile-shape", {"order": None}, f"shape {mat.shape}"))
        elif not np.array_equal(mat, want):
            j, l = np.argwhere(mat != want)[0]
            fails.append(("intersection_profile", "profile-entry", {"order": None}, f"({elist[j]!r},{elist[l]!r}) = {mat[j, l]}, |intersection| = {want[j, l]}"))
    guard("intersection_profile", {"order": None}, profile)

    def clique():
        mat, dicts = variants("clique_motif_matrix", {})
        if mat is None:
            return
        if mat.shape != (N, N) or not np.array_equal(mat, Cs[None]):
            d = _first_diff(mat, Cs[None]) if mat.shape == (N, N) else None
            fails.append(("clique_motif_matrix", "clique-count", {}, f"shape {mat.shape}; " + (f"({lab(d[0])},{lab(d[1])}) = {mat[d]}, shared edges = {Cs[None][d]}" if d else "")))
    guard("clique_motif_matrix", {}, clique)

    for d in (1, 2):
        for normalized in ((False, True) if d == 1 else (False,)):
            kw = {"order": d, "normalized": normalized}

            def tensor(kw=kw, d=d, normalized=normalized):
                mat, dicts = variants("adjacency_tensor", kw)
                if mat is None:
                    return
                want = np.zeros((N,) * (d + 1))
                for e in elist:
                    if len(mem[e]) == d + 1:
                        for t in itertools.permutations([pos[x] for x in mem[e]]):
                            want[t] = 1.0 / math.factorial(d) if normalized else 1
                if mat.shape != want.shape or dicts != [nodes_enc]:
                    fails.append(("adjacency_tensor", "tensor-shape", kw, f"shape {mat.shape}"))
                elif not np.allclose(mat, want, rtol=0, atol=TOL):
                    t = _first_diff(mat, want)
                    fails.append(("adjacency_tensor", "tensor-entry", kw, f"entry {[lab(i) for i in t]} = {mat[t]}, expected {want[t]}"))
            guard("adjacency_tensor", kw, tensor)

    Ld = {}
    for d in (1, 2):
        for resc in (False, True):
            want = (d * np.diag(deg[d]) - Cs[d]).astype(float) / (d if resc else 1)
            Ld[d, resc] = want
            kw = {"order": d, "rescale_per_node": resc}

            def lap(kw=kw, want=want):
                mat, dicts = variants("laplacian", kw)
                if mat is None:
                    return
                if dicts != [nodes_enc]:
                    fails.append(("laplacian", "laplacian-index-map", kw, "index map is not the node labels in view order"))
                lap_like("laplacian", kw, mat.astype(float), want)
            guard("laplacian", kw, lap)
    for resc in (False, True):
        for ws in ([1.0, 1.0], [0.5, 3.0]):
            kw = {"orders": [1, 2], "weights": ws, "rescale_per_node": resc}

            def multi(kw=kw, ws=ws, resc=resc):
                mat, dicts = variants("multiorder_laplacian", kw)
                if mat is None:
                    return
                want = np.zeros((N, N))
                for d, w in zip([1, 2], ws):
                    if deg[d].sum():
                        want += w * Ld[d, resc] / (deg[d].sum() / N)
                if dicts != [nodes_enc]:
                    fails.append(("multiorder_laplacian", "multiorder-shape", kw, "index map is not the node labels in view order"))
                lap_like("multiorder_laplacian", kw, mat.astype(float), want)
            guard("multiorder_laplacian", kw, multi)

    # normalised Laplacian: the same network without its isolated nodes (they raise XGIError, checked by the small cases)
    def normalized():
        nonlocal H, N, nodes, pos, nodes_enc
        iso = [x for x in nodes if not any(x in m for m in mem.values())]
        H = H.copy()
        H.remove_nodes_from(iso)
        nodes = list(H.nodes)
        N, pos, nodes_enc = len(nodes), {x: i for i, x in enumerate(nodes)}, [enc_id(x) for x in nodes]
        M, dv = np.zeros((N, N)), np.zeros(N)
        for e in elist:
            for a in mem[e]:
                dv[pos[a]] += 1
                for b in mem[e]:
                    M[pos[a], pos[b]] += 1.0 / len(mem[e])
        want = np.eye(N) - M / np.sqrt(np.outer(dv, dv))
        for weighted in (False, True):
            kw = {"weighted": weighted}
            mat, dicts = variants("normalized_hypergraph_laplacian", kw)
            if mat is None:
                continue
            if dicts != [nodes_enc]:
                fails.append(("normalized_hypergraph_laplacian", "normalized-shape", kw, "index map is not the node labels in view order"))
            sub = []
            f0 = len(fails)
            lap_like("normalized_hypergraph_laplacian", kw, mat.astype(float), want)
            # (row sums of the normalised Laplacian are not zero: drop that clause)
            fails[f0:] = [x for x in fails[f0:] if not x[1].endswith("-row-sum-nonzero")]
    guard("normalized_hypergraph_laplacian", {}, normalized)
    return fails


def regime_family(ctx, rng, n):
    for _ in range(n):
        p = {"kind": "regime", "gen_seed": rng.randrange(10 ** 9), "n_nodes": rng.randint(70, 76),
             "parallel": rng.randint(130, 136), "n_other": rng.randint(35, 50)}
        try:
            fails = run_regime(p, ctx)
        except Exception as ex:  # noqa
            fails = [("regime", "large-network-check-crashed", {}, f"{type(ex).__name__}: {ex}")]
        ctx.stats["large networks (>=70 nodes, >=130 parallel edges, labels above 2**53)"] += 1
        ctx.nontrivial.add(jhash(p))
        seen = set()
        for f, cls, kw, detail in fails:
            if (f, cls) in seen:
                continue
            seen.add((f, cls))
            # smallest parameter set of the same generator that still shows the same failure
            best = p
            for small in ({**p, "n_nodes": 3, "n_other": 1}, {**p, "n_nodes": 6, "n_other": 4}, {**p, "n_nodes": 20, "n_other": 15}):
                try:
                    hit = [(k2, d2) for f2, c2, k2, d2 in run_regime(small) if f2 == f and c2 == cls]
                    if hit:
                        best, (kw, detail) = small, hit[0]
                        break
                except Exception:  # noqa
                    pass
            ctx.violation(f, cls, {**best, "fn": f, "kwargs": kw,
                                   "how": "harness.props.c12.regime_net(case) -> (nodes, [(edge id, members)]); build with add_node / add_edge(members, idx=id) and call fn(H, **kwargs)"},
                          detail=detail)


# ---- 3. tuple labels and 4. class variants (ordinary cases, predicate only)

TUPLE_NODES = [(1, 2), (2, 1), ("a",), (1, (2, 3)), ("a", "b"), (0,), (1, 2, 3), 5, "5", 0, ("0",), (BIG, 1)]
TUPLE_EDGES = [(0, 0), ("e", 1), (1,), 0, "z", (2, (1,)), 1, ("z",), (1, 2), "0", (0,), (BIG,)]


def tuple_network(rng):
    nodes, edges = gen_hypergraph(rng, max_nodes=6, max_edges=6, max_size=4, labels=lambda k: rng.sample(TUPLE_NODES, k),
                                  edge_ids=lambda m: rng.sample(TUPLE_EDGES, m))
    if not any(isinstance(n, tuple) for n in nodes):
        nodes.append((9, 9))
    return enc(nodes, edges)


def simplicial_network(rng):
    """a downward-closed family as a SimplicialComplex shows it, faces listed before the simplices containing them"""
    S = xgi.SimplicialComplex()
    labs = rng.choice([[0, 1, 2, 3, 4], ["a", "b", "c", "d"], [3, "x", -1, 7, "y"]])
    S.add_nodes_from(labs)
    for _ in range(rng.randint(1, 3)):
        S.add_simplex(rng.sample(labs, rng.randint(1, min(4, len(labs)))))
    net = net_of(S)
    net["edges"].sort(key=lambda em: len(em[1]))
    return net


def variant_cases(rng, net, cls, k):
    cs = grid(rng, net, full=False)
    keep = [c for c in cs if c["f"] == "normalized_hypergraph_laplacian"]
    rest = [c for c in cs if c["f"] != "normalized_hypergraph_laplacian" and "wt" not in c]
    cs = keep + rng.sample(rest, min(k, len(rest)))
    if cls:
        cs = [{**c, "cls": cls, **({"weights": [None] * len(c["weights"])} if c["f"] == "normalized_hypergraph_laplacian" else {})}
              for c in cs]
    return cs


def label_and_class_cases(ctx, rng):
    cases = []
    for _ in range(ctx.n(6, 60)):
        cs = variant_cases(rng, tuple_network(rng), None, 70)
        ctx.stats["opt:tuple-label networks (predicate only)"] += 1
        cases += cs
    for _ in range(ctx.n(4, 40)):
        cases += variant_cases(rng, simplicial_network(rng), "SimplicialComplex", 50)
        net = random_network(rng)
        cases += variant_cases(rng, net, "MyH", 50)
        ctx.stats["opt:class-variant networks (SimplicialComplex + trivial subclass, predicate only)"] += 2
    return cases


TRUSTED = TRUSTED_COMMON + [
    "numpy / scipy.sparse as the pure dense functions they are documented to be (dot, fill_diagonal/setdiag, >=, diag, sum, mean, "
    "toarray for densifying); np.linalg.eigh only to pick one extra test vector for the PSD clause",
    "the brute-force reference construction from members() inside harness/props/c12.py and the float rule |x - p/q| <= 1e-9 max(1,|p/q|)",
]


def run(ctx):
    _CTX[0] = ctx
    ok = build_and_audit(ctx, "XgiModel.Props.C12", ["XgiModel.C12.Drive"])
    rng = ctx.rng
    ctx.rule = ("corpus/C12 first; networks: hand-picked degenerate shapes (incl. edges of 5-7 members and a pair sharing 5 edges) + "
                "gen_hypergraph (1-7 nodes, 0-12 edges of size 0-7; int/str/mixed/negative labels in shuffled order, explicit edge "
                "ids, multi-edges, singletons, isolated nodes, empty edges, uniform); for each network the full option grid: order in "
                "{None,0,1,2,3} plus every order > 3 present (and now and then an absent one), s in {1,2,3} plus {4..7} where a pair "
                "shares >= 4 edges, weighted, rescale_per_node, 12 order lists with random rational weights (also wrong lengths, "
                "negative), two `weight=` callbacks of incidence_matrix (non-symmetric integer tables over (node, edge) with a "
                "default for other argument pairs; third argument must be H) and, for a sample of the networks, one FLOAT-valued "
                "callback (non-integral values; implementation + predicate only: all (sparse, index) variants equal, entry = the "
                "value or its truncation at member pairs, 0 elsewhere), edge weights for the normalised Laplacian (unit, "
                "non-unit, absent, 0; networks WITH an empty edge are drawn for it too - predicate only), tensor orders 0-4; every "
                "case is run for every (sparse, index) combination; then call/edit/call sequences for stale state (stale.check_hg); "
                "HELD-OBJECT scripts (per run 40 networks x each of the 9 functions): on ONE Hypergraph call with option tuple A, "
                "then with two tuples that differ from A in exactly one argument (order, s, weighted, rescale_per_node, normalized, "
                "sparse, index, a constant weight= callback, another orders / weights list), a count-preserving edit "
                "(stale.count_preserving_edit_hg), A and B again, an ordinary edit (add an edge, possibly with a new node / remove a "
                "node), A and B again - every call is compared with the same call on H.copy() and judged by the predicate against "
                "the structure the views show at that moment; REGIME: one large network per run (70-76 node labels: ints of both "
                "signs, strings, 2**53+1 and 2**53+2, the decimal string of 2**53+1; 130-136 parallel edges on one pair among 35-50 "
                "other edges of 1-5 members; 3 isolated labels; an edge ID above 2**53): incidence (orders None, 1), adjacency "
                "(orders None, 1 x weighted x s in {1,2,129,130,131,max count}), degree (None,1,2), intersection profile, clique "
                "motif, tensor (orders 1, 2), laplacian (orders 1, 2 x rescale), multiorder ([1,2] x two weight lists x rescale), "
                "normalised (isolated nodes removed) against numpy arrays filled by loops over members(), all (sparse, index) "
                "variants, eigvalsh for PSD - predicate only, no model call; TUPLE node labels and tuple edge IDs (6 networks built "
                "with add_node / add_edge(members, idx=...) one at a time; predicate only: the driver reads int/str IDs) and CLASS "
                "variants (4 SimplicialComplex - downward-closed families built with add_simplex - and 4 networks of a trivial "
                "subclass of Hypergraph; predicate only), each with a sample of 50-70 cases of the option grid.  evaluations = calls of the public functions; non-trivial = distinct "
                "(case, result) whose network has an edge with >= 2 members and whose call returned a matrix; `opt:*` entries of "
                "`distribution` count the option values reached")
    cases = corpus_cases()
    ctx.stats["corpus_cases"] = len(cases)
    nets = special_networks() + [random_network(rng) for _ in range(ctx.n(120, 1900))]
    for net in nets:
        cases += grid(rng, net, full=True)
    ctx.stats["networks_random_and_special"] = len(nets)
    if not ctx.quick:
        n_ex = 0
        for nodes, edges in all_small_hypergraphs(4, 3):
            cases += grid(rng, enc(nodes, edges), full=True)
            n_ex += 1
        ctx.exhaustive = True
        ctx.extra["exhaustive_space"] = (f"correspondence and predicate over all {n_ex} hypergraphs on 4 nodes with <= 3 distinct edges "
                                         "x the full option grid x (sparse, index)")
    for c in cases:  # option histogram (what the grid actually reached)
        if c.get("s", 0) > 3:
            ctx.stats["opt:s>3"] += 1
        if isinstance(c.get("order"), int) and c["order"] > 3 or any(d > 3 for d in c.get("orders", [])):
            ctx.stats["opt:order>3"] += 1
        if "wt" in c:
            ctx.stats["opt:weight-callback"] += 1
        if c["f"] == "normalized_hypergraph_laplacian":
            ctx.stats["opt:normalized weighted=%s%s" % (c["weighted"], " nonunit" if c["weighted"] and any(w not in (None, "1") for w in c["weights"]) else "")] += 1
            if "0" in c["weights"]:
                ctx.stats["opt:normalized weight 0"] += 1
    # float-valued `weight=` callbacks: outside the model (integer tables) - implementation + predicate only: every
    # (sparse, index) variant must return the same matrix (the property's sparse == dense clause for this argument)
    fcases = [c for c in cases if predicate_only(c)]
    cases = [c for c in cases if not predicate_only(c)]
    ctx.stats["opt:normalized with an empty edge (predicate only)"] = sum(1 for c in fcases if c["f"] == "normalized_hypergraph_laplacian")
    for net in nets[:: max(1, len(nets) // ctx.n(40, 400))]:
        if net["edges"] and net["nodes"]:
            fcases.append(weight_case_float(rng, net, rng.choice([None, None, 1, 2])))
    ctx.stats["opt:weight-callback-float (predicate only)"] = sum(1 for c in fcases if c.get("float_wt"))
    # tuple node labels / tuple edge IDs (built one at a time) and class variants (SimplicialComplex, a trivial subclass)
    fcases += label_and_class_cases(ctx, rng)
    impl_only(ctx, fcases)
    dis = []
    for i in range(0, len(cases), 20000):
        dis += run_fn(ctx, "C12", cases[i:i + 20000], impl, pred=pred, compare=compare, nontrivial=nontrivial)

    # no hidden state: matrices of an edited network must be those of its current structure (call; count-preserving edit; call)
    from ..stale import check_hg
    from ..fn import build as _build, gen_hypergraph as _gen
    import xgi as _xgi

    def _net(rng):
        nodes, edges = _gen(rng, max_nodes=6, max_edges=5, max_size=4)
        edges = [(i, ms) for i, (_, ms) in enumerate(edges)]
        return _build(nodes, edges)
    check_hg(ctx, ctx.rng, _net, {
        "degree_matrix": lambda H: _xgi.degree_matrix(H),
        "degree_matrix(order=1)": lambda H: _xgi.degree_matrix(H, order=1),
        "incidence_matrix": lambda H: _xgi.incidence_matrix(H, sparse=False),
        "adjacency_matrix": lambda H: _xgi.adjacency_matrix(H, sparse=False),
        "adjacency_matrix(order=1)": lambda H: _xgi.adjacency_matrix(H, order=1, sparse=False),
        "intersection_profile": lambda H: _xgi.intersection_profile(H, sparse=False),
        "clique_motif_matrix": lambda H: _xgi.clique_motif_matrix(H, sparse=False),
        "laplacian(order=1)": lambda H: _xgi.laplacian(H, order=1, sparse=False),
        "laplacian(order=2)": lambda H: _xgi.laplacian(H, order=2, sparse=False),
        "multiorder_laplacian": lambda H: _xgi.multiorder_laplacian(H, [1, 2], [1, 1], sparse=False),
        "normalized_hypergraph_laplacian": lambda H: _xgi.normalized_hypergraph_laplacian(H, sparse=False),
    }, ctx.n(40, 800))
    # one held object, several option tuples, edits in between (a memo keyed on too few arguments); one large network
    held_family(ctx, rng, ctx.n(40, 400))
    regime_family(ctx, rng, ctx.n(1, 4))
    conclude12(ctx, ok, dis)
    shrink_violations(ctx)
    ctx.assumptions = [
        "labels int/str (bool/float IDs outside the model); networks satisfy Net.WF (what the views of a consistent Hypergraph show, C01)",
        "s >= 1; order None or >= 0; laplacian/multiorder orders are ints; `weight=` callbacks of incidence_matrix are integer-valued "
        "functions of (node, edge) (the matrix has dtype=int; float callbacks are truncated by numpy: outside the model - a sample of float-valued callbacks "
        "is run through the predicate only, where sparse == dense == index variants is required and either the value or its "
        "truncation is accepted as the entry)",
        "rescale_per_node with order 0 divides by zero: the model answers `undefined` and the implementation's NaN matrix (dense) / "
        "ZeroDivisionError (sparse) are both read as `undefined`; multiorder order lists containing 0 are generated only without rescaling",
        "normalised Laplacian: the model describes the code as it is (unweighted vertex degree also for weighted=True); the predicate "
        "checks the textbook matrix with weighted vertex degrees and PSD for every generated weight list, which the unchanged code "
        "violates for weights != 1.  That known finding has its own failure classes (`…@weighted-nonunit`), emitted only when "
        "weighted=True, some weight != 1 and the returned matrix equals the textbook formula with the unweighted degree; any other "
        "failure at this site keeps the generic classes and is reported.  sqrt is taken by the harness (entry-wise delta_ik - M_ik / "
        "sqrt(Dv_i Dv_k) from the model's rational M and Dv).  Networks with an EMPTY edge are drawn for this function as "
        "predicate-only cases (the model answers `undefined` there): the expected matrix is that of the network without the empty "
        "edge (h(v,e) = 0 for every v: the edge is in no term); before /repo a2407af the code returned it with sparse=True and an all-NaN "
        "matrix with sparse=False (found in the second hardening round, fixed; the class sparse-dense-differ@empty-edge is still emitted "
        "for exactly that pattern and is no longer listed in known_findings).  A network with edges but no node at all is not drawn (both variants "
        "raise ValueError from a (0,0) @ (m,m) product)",
        "sparse == dense is a fact about scipy exhibited by the runs only",
        "held-object scripts, the large network, tuple labels (node labels / edge IDs that are tuples, also nested and holding "
        "an integer above 2**53) and class variants (SimplicialComplex, a trivial subclass) are evaluated on the implementation "
        "only (brute force from members(); no model call: the model correspondence covers int/str labels, <= 7 nodes, <= 12 edges); "
        "in held-object scripts the two failure classes of the open weighted-degree finding are left to the ordinary family",
    ]
    return finish(ctx, trusted_base=TRUSTED)
