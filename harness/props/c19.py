"""C19 — derived networks satisfy their set-theoretic definitions.

For every generated case (network x function x arguments) the real xgi function is run, the set-theoretic
definition from the property statement is evaluated by brute force on what it returned (the failing-input
search), and the returned network (nodes in order, edges in order, members, memberships, three attribute levels,
counter, frozen flag, outcome kind) is compared with what the Lean model (lean/XgiModel/C19/Derived.lean and the
in-place functions of Core/HG.lean) computes for the same request.  `cleanup` / `convert_labels_to_integers` of
SimplicialComplex and DiHypergraph are compared with the C03 / C02 models through the same driver (C19/Other.lean).
Every call that returns a new network must leave its argument untouched.
"""
import copy
import glob
import itertools
import json
import os
import warnings

import xgi
from xgi.exception import XGIError

from .. import fn
from .. import hg as MH
from .. import dhg as MD
from .. import c19_r2 as R2
from ..core import (Infra, TRUSTED_COMMON, VERIF, build_and_audit, canon, dec_id, enc_attrs, enc_attrs_req, enc_id,
                    finish, idkey, jhash, run_driver)

ATTR_KEYS = ["w", "color", "label", "m"]
ATTR_VALS = [0, 1, 2, "r", "g", None, [1, 2]]

# ----------------------------------------------------------------------------- building and encoding networks


def _attrs(pairs):
    return {k: MH._val(v) for k, v in pairs}


def build_enc(enc):
    """rebuild a real network from its encoding (nodes, edges with explicit ids, attributes, net, frozen, cls)"""
    sc = enc.get("cls", "hg") == "sc"
    H = xgi.SimplicialComplex() if sc else xgi.Hypergraph()
    nattr = {json.dumps(k): a for k, a in enc.get("nattr", [])}
    eattr = {json.dumps(k): a for k, a in enc.get("eattr", [])}
    H.add_nodes_from([(dec_id(n), _attrs(nattr.get(json.dumps(n), []))) for n in enc["nodes"]])
    items = [([dec_id(x) for x in ms], dec_id(e), _attrs(eattr.get(json.dumps(e), []))) for e, ms in enc["edges"]]
    if items:
        with warnings.catch_warnings():
            warnings.simplefilter("ignore")
            (H.add_simplices_from if sc else H.add_edges_from)(items)
    for k, v in enc.get("net", []):
        H[k] = MH._val(v)
    if enc.get("frozen"):
        H.freeze()
    return H


def enc_full(H, cls="hg"):
    """the request encoding of a real network: view order, members in set-iteration order"""
    try:
        uid = next(copy.copy(H._edge_uid))
    except Exception:  # noqa
        uid = 0
    return {"nodes": [enc_id(n) for n in H.nodes],
            "edges": [[enc_id(e), [enc_id(x) for x in H.edges.members(e)]] for e in H.edges],
            "nattr": [[enc_id(n), enc_attrs_req(H.nodes[n])] for n in H.nodes if H.nodes[n]],
            "eattr": [[enc_id(e), enc_attrs_req(H.edges[e])] for e in H.edges if H.edges[e]],
            "net": enc_attrs_req(H._net_attr), "uid": uid, "frozen": bool(H.is_frozen), "cls": cls}


def rand_attrs(rng, p):
    if rng.random() > p:
        return {}
    return {rng.choice(ATTR_KEYS): rng.choice(ATTR_VALS) for _ in range(rng.randint(1, 2))}


def gen_net(rng, cls="hg", max_nodes=6, max_edges=6, labels=None, edge_ids=None, attrs=0.4, empty_edges=True,
            frozen=0.1, **kw):
    """a random network encoding (built once to obtain the real orders)"""
    nodes, edges = fn.gen_hypergraph(rng, max_nodes=max_nodes, max_edges=max_edges, labels=labels, edge_ids=edge_ids,
                                     allow_empty_edges=empty_edges and cls == "hg", **kw)
    if cls == "sc":
        edges = [(e, ms) for e, ms in edges if ms]
    seen, es = set(), []
    for e, ms in edges:
        if repr(e) not in seen:
            seen.add(repr(e)); es.append((e, ms))
    enc = {"nodes": [enc_id(n) for n in nodes], "edges": [[enc_id(e), [enc_id(x) for x in ms]] for e, ms in es],
           "nattr": [[enc_id(n), enc_attrs_req(a)] for n in nodes for a in [rand_attrs(rng, attrs)] if a],
           "eattr": [[enc_id(e), enc_attrs_req(a)] for e, _ in es for a in [rand_attrs(rng, attrs)] if a],
           "net": enc_attrs_req(rand_attrs(rng, 0.3)), "frozen": rng.random() < frozen, "cls": cls}
    return enc


# ----------------------------------------------------------------------------- running one case on the implementation

FUNCS = ["subhypergraph", "dual", "dual2", "lshift", "complement", "cut_to_order", "k_skeleton", "from_max_simplices",
         "maximal", "lch", "relabel", "cleanup", "copy", "components"]
FLAGS = ["isolates", "singletons", "multiedges", "connected", "relabel"]


def _ids(l):
    return None if l is None else [dec_id(x) for x in l]


def call(req, H, H2=None):
    """perform the call described by the request on the real network(s); returns the network to observe"""
    f = req["f"]
    if f == "copy":
        return H.copy()
    if f == "subhypergraph":
        return xgi.subhypergraph(H, nodes=_ids(req.get("nodes")), edges=_ids(req.get("edges")), keep_isolates=req["keep_isolates"])
    if f == "dual":
        return H.dual()
    if f == "dual2":
        return H.dual().dual()
    if f == "lshift":
        return H << H2
    if f == "complement":
        return xgi.complement(H)
    if f == "cut_to_order":
        return xgi.cut_to_order(H, req["order"])
    if f == "k_skeleton":
        return xgi.k_skeleton(H, req["order"])
    if f == "from_max_simplices":
        return xgi.from_max_simplices(H)
    if f == "maximal":
        return list(H.edges.maximal(strict=req["strict"]))
    if f == "lch":
        return xgi.largest_connected_hypergraph(H)
    if f == "components":
        return conn_queries(H, _ids(req.get("probe", [])))
    if f == "relabel":
        r = xgi.convert_labels_to_integers(H, label_attribute=req["label_attribute"], in_place=req["in_place"])
        return H if req["in_place"] else r
    if f == "cleanup":
        r = H.cleanup(**{k: req[k] for k in FLAGS}, in_place=req["in_place"])
        return H if req["in_place"] else r
    raise AssertionError(f)


def conn_queries(H, probe):
    """the connectivity queries of xgi/algorithms/connected.py that largest_connected_hypergraph and the `connected`
    step of cleanup rest on, each called on its own (a call that raises is recorded as {"$err": kind})"""
    def q(th):
        try:
            return th()
        except Exception as e:  # noqa
            return {"$err": MH.outcome_of(e, False)}

    def ids(c):
        if not isinstance(c, (set, frozenset)):
            raise AssertionError(f"a component must be a set, got {type(c).__name__}")
        return sorted((enc_id(x) for x in c), key=idkey)

    def exact(v, t):
        if type(v) is not t:
            raise AssertionError(f"expected {t.__name__}, got {type(v).__name__}")
        return v
    return {"comps": q(lambda: [ids(c) for c in xgi.connected_components(H)]),
            "number": q(lambda: exact(xgi.number_connected_components(H), int)),
            "connected": q(lambda: exact(xgi.is_connected(H), bool)),
            "largest": q(lambda: ids(xgi.largest_connected_component(H))),
            "ncc": [[enc_id(n), q(lambda n=n: ids(xgi.node_connected_component(H, n)))] for n in probe]}


def in_place(req):
    return req["f"] in ("relabel", "cleanup") and req["in_place"]


def run_impl(req):
    """(request completed with the real encodings, canonical result, exception)"""
    H = build_enc(req["H"])
    req = dict(req)
    req["H"] = enc_full(H, req["H"].get("cls", "hg"))
    H2 = None
    if "H2" in req:
        H2 = build_enc(req["H2"])
        req["H2"] = enc_full(H2, req["H2"].get("cls", "hg"))
    exc, R = None, None
    before = [MH.snapshot(X, "ok") for X in (H, H2) if X is not None]
    with warnings.catch_warnings(record=True) as w:
        warnings.simplefilter("always")
        try:
            R = call(req, H, H2)
        except Exception as e:  # noqa
            exc = e
    out = MH.outcome_of(exc, any(issubclass(x.category, UserWarning) for x in w))
    mutated = None
    if not in_place(req):
        # every function of this property except the in_place=True variants returns a NEW network (or a view):
        # the argument(s) must be exactly what they were
        after = [MH.snapshot(X, "ok") for X in (H, H2) if X is not None]
        if after != before:
            k = 0 if after[0] != before[0] else 1
            diff = [x for x in before[k] if before[k][x] != after[k].get(x)]
            mutated = (f"argument {'H' if k == 0 else 'H2'} changed in {diff}: nodes {before[k]['nodes']} -> {after[k]['nodes']}, "
                       f"edges {before[k]['edges']} -> {after[k]['edges']}")
        elif R is H or (H2 is not None and R is H2):
            mutated = "the call returned its argument, not a new network"
    if exc is not None and not in_place(req):
        return req, {"out": out, "arg_mutated": mutated}, exc
    if req["f"] == "maximal":
        return req, {"out": out, "ids": [enc_id(i) for i in R], "arg_mutated": mutated}, exc
    if req["f"] == "components":
        return req, dict(R, out=out, arg_mutated=mutated), exc
    snap = MH.snapshot(H if exc is not None else R, out)
    snap["arg_mutated"] = mutated
    return req, snap, exc


# ----------------------------------------------------------------------------- normal forms for the comparison

FIELDS = ["out", "nodes", "edges", "mem", "memb", "nattr", "eattr", "nattrK", "eattrK", "net", "uid", "frozen"]


def norm(f, snap):
    """what is compared: everything, except orders that come from Python set iteration"""
    if f == "maximal" and "ids" in snap:
        return {"out": snap["out"], "ids": snap["ids"]}
    if f == "components" and "comps" in snap:
        # components as sorted lists, in the order they are yielded; a query that raised: "err"
        e = lambda v: "err" if (isinstance(v, dict) and "$err" in v) or v == "err" else v
        c = lambda v: sorted(v, key=idkey) if isinstance(v, list) else e(v)
        comps = e(snap["comps"])
        return {"out": snap["out"], "comps": [c(x) for x in comps] if isinstance(comps, list) else comps,
                "number": e(snap["number"]), "connected": e(snap["connected"]), "largest": c(snap["largest"]),
                "ncc": [[n, c(v)] for n, v in snap["ncc"]]}
    if "nodes" not in snap:
        return {"out": snap["out"]}
    s = {k: snap[k] for k in FIELDS}
    if f in ("dual", "dual2"):
        # the node order of a dual is the iteration order of the membership sets
        s["nodes"] = sorted(s["nodes"], key=idkey)
        s["memb"] = sorted(s["memb"], key=lambda p: idkey(p[0]))
        s["nattr"] = sorted(s["nattr"], key=lambda p: idkey(p[0]))
    if f == "dual2":
        s["edges"] = sorted(s["edges"], key=idkey)
        s["mem"] = sorted(s["mem"], key=lambda p: idkey(p[0]))
        s["eattr"] = sorted(s["eattr"], key=lambda p: idkey(p[0]))
        s.pop("uid")
    if f == "complement":
        # edges are created in the iteration order of a set of strings: compare the multiset of member sets
        s["mem"] = sorted((m for _, m in s["mem"]), key=json.dumps)
        s["memb"] = [[n, len(es)] for n, es in s["memb"]]
    return s


# ----------------------------------------------------------------------------- the property predicate (brute force)

def _net(enc):
    """(nodes, {edge: frozenset}, edge order, nattr, eattr, net) of an encoding, as plain Python values keyed by repr"""
    nodes = [dec_id(n) for n in enc["nodes"]]
    eo = [dec_id(e) for e, _ in enc["edges"]]
    mem = {dec_id(e): frozenset(dec_id(x) for x in ms) for e, ms in enc["edges"]}
    nattr = {dec_id(n): sorted(([k, canon_val(v)] for k, v in a), key=lambda p: p[0]) for n, a in enc.get("nattr", [])}
    eattr = {dec_id(e): sorted(([k, canon_val(v)] for k, v in a), key=lambda p: p[0]) for e, a in enc.get("eattr", [])}
    net = sorted(([k, canon_val(v)] for k, v in enc.get("net", [])), key=lambda p: p[0])
    return nodes, mem, eo, nattr, eattr, net


def canon_val(v):
    if isinstance(v, dict) and "$set" in v:
        return sorted((canon_val(x) for x in v["$set"]), key=idkey)
    return v


def _res(snap):
    nodes = [dec_id(n) for n in snap["nodes"]]
    eo = [dec_id(e) for e in snap["edges"]]
    mem = {dec_id(e): (frozenset(dec_id(x) for x in ms) if isinstance(ms, list) else ms) for e, ms in snap["mem"]}
    nattr = {dec_id(n): a for n, a in snap["nattr"]}
    eattr = {dec_id(e): a for e, a in snap["eattr"]}
    return nodes, mem, eo, nattr, eattr, snap["net"]


def components(nodes, mem):
    """connected components by union-find, listed in the order of their first node"""
    parent = {n: n for n in nodes}

    def find(x):
        while parent[x] != x:
            parent[x] = parent[parent[x]]
            x = parent[x]
        return x
    for ms in mem.values():
        ms = [m for m in ms if m in parent]
        for a in ms[1:]:
            parent[find(a)] = find(ms[0])
    comps = {}
    for n in nodes:
        comps.setdefault(find(n), []).append(n)
    return list(comps.values())


def wf_fails(snap):
    """the result must itself be a well-formed network (two-way incidence, one attribute record per ID)"""
    return MH_c01_pred(snap)


def MH_c01_pred(snap):
    from .c01 import pred as p01
    return [("result-" + c, d) for c, d in p01(snap, None, None, None)]


def pred(req, snap, exc):
    """the definition of req['f'] evaluated on the result, and: a call that returns a new network leaves its
    argument(s) untouched"""
    fails = pred_def(req, snap, exc)
    if snap.get("arg_mutated"):
        fails = fails + [("argument-mutated", f"{req['f']}({ {k: v for k, v in req.items() if k not in ('H', 'H2', 'f')} }): {snap['arg_mutated']}")]
    return fails


def pred_def(req, snap, exc):
    """list of (failure_class, detail): the set-theoretic definition of req['f'] evaluated on the result"""
    f = req["f"]
    fails = []
    nodes, mem, eo, nattr, eattr, net = _net(req["H"])
    cls = req["H"].get("cls", "hg")
    ne, ee = (lambda n: nattr.get(n, [])), (lambda e: eattr.get(e, []))
    sizes = [len(m) for m in mem.values()]
    max_order = (max(sizes) - 1) if sizes else (0 if nodes else None)

    def bad(c, d=""):
        fails.append((c, d))

    if f == "maximal" and "ids" in snap:
        # EdgeView.maximal on any hypergraph (empty edges included): the edges no other edge strictly contains
        # (strict: no other edge contains at all, so repeated edges never qualify), as a view in edge order
        if req["strict"]:
            want = [e for e in eo if not any(j != e and mem[e] <= mem[j] for j in eo)]
        else:
            want = [e for e in eo if not any(mem[e] < mem[j] for j in eo)]
        got = [dec_id(i) for i in snap["ids"]]
        if got != want:
            bad("maximal-edges", f"strict={req['strict']}: got {got!r} want {want!r}")
        return fails

    if f == "components" and "comps" in snap:
        return conn_pred(req, snap, nodes, mem)

    if "nodes" not in snap or snap["out"].startswith("err"):
        # --- calls that raised: decide whether raising is what the definition allows
        o = snap["out"]
        if f in ("cut_to_order", "k_skeleton"):
            if f == "k_skeleton" and cls != "sc":
                return fails if o == "err:lib" else [("wrong-error", o)]
            if max_order is None:
                return fails                      # null network: no admissible order
            if req["order"] > max_order:
                return fails if o == "err:lib" else [("wrong-error", f"order above the maximum must raise XGIError, got {o}")]
            return [("raised", f"{f}({req['order']}) raised {type(exc).__name__}: {exc} (max order {max_order})")]
        if f == "from_max_simplices":
            if cls != "sc":
                return fails if o == "err:lib" else [("wrong-error", o)]
            return [("raised", f"{type(exc).__name__}: {exc}")]
        if f == "lch" and not nodes:
            return fails                          # the null network has no component: raising or returning it are both fine
        if f == "cleanup":
            fl = {k: req[k] for k in FLAGS}
            exp = expected_cleanup(fl, nodes, mem, eo)
            if exp is None and o == "err:type":
                # a class of repeated edges whose IDs Python cannot sort (merge_duplicate_edges takes the smallest)
                return fails
        if f in ("relabel", "cleanup") and req["in_place"] and req["H"].get("frozen"):
            return fails if o == "err:lib" else [("wrong-error", o)]
        if f == "cleanup":
            if exp is None:
                return [("wrong-error", o)]
            if exp[2] and o == "err:value":
                return [("raises-on-null-network", f"cleanup({fl}) raised {type(exc).__name__}: {exc} — nothing is left "
                         "when the connected step runs")]
            return [("raised", f"cleanup({fl}) raised {type(exc).__name__}: {exc}")]
        return [("raised", f"{f} raised {type(exc).__name__}: {exc}")]

    rn, rmem, reo, rnattr, reattr, rnet = _res(snap)
    fails += wf_fails(snap)
    if any(not isinstance(m, frozenset) for m in rmem.values()):
        return fails
    rne, ree = (lambda n: rnattr.get(n, [])), (lambda e: reattr.get(e, []))

    def same_on(what, got, want):
        if got != want:
            bad(what, f"got {got!r} want {want!r}"[:400])

    if f in ("copy",):
        same_on("nodes", rn, nodes); same_on("edges", reo, eo); same_on("members", rmem, mem)
        same_on("node-attrs", {n: rne(n) for n in rn}, {n: ne(n) for n in nodes})
        same_on("edge-attrs", {e: ree(e) for e in reo}, {e: ee(e) for e in eo})
        same_on("net-attrs", rnet, net); same_on("frozen", snap["frozen"], False)

    elif f == "subhypergraph":
        sel_n = set(nodes) if req.get("nodes") is None else (set(_ids(req["nodes"])) & set(nodes))
        sel_e = set(eo) if req.get("edges") is None else (set(_ids(req["edges"])) & set(eo))
        want_e = [e for e in eo if e in sel_e and mem[e] <= sel_n]
        want_n = [n for n in nodes if n in sel_n]
        if not req["keep_isolates"]:
            want_n = [n for n in want_n if any(n in mem[e] for e in want_e)]
        same_on("nodes", rn, want_n); same_on("edges", reo, want_e)
        same_on("members", rmem, {e: mem[e] for e in want_e})
        same_on("node-attrs", {n: rne(n) for n in rn}, {n: ne(n) for n in want_n})
        same_on("edge-attrs", {e: ree(e) for e in reo}, {e: ee(e) for e in want_e})
        same_on("net-attrs", rnet, net); same_on("frozen", snap["frozen"], True)

    elif f == "dual":
        same_on("nodes", sorted(map(repr, rn)), sorted(map(repr, eo)))
        same_on("edges", reo, nodes)
        same_on("members", rmem, {n: frozenset(e for e in eo if n in mem[e]) for n in nodes})
        same_on("node-attrs", {n: rne(n) for n in rn}, {e: ee(e) for e in eo})
        same_on("edge-attrs", {e: ree(e) for e in reo}, {n: ne(n) for n in nodes})
        same_on("net-attrs", rnet, net)

    elif f == "dual2":
        # an involution (also in the presence of isolated nodes and empty edges, which turn into each other)
        same_on("nodes", sorted(map(repr, rn)), sorted(map(repr, nodes)))
        same_on("edges", sorted(map(repr, reo)), sorted(map(repr, eo)))
        same_on("members", rmem, mem)
        same_on("node-attrs", {n: rne(n) for n in rn}, {n: ne(n) for n in nodes})
        same_on("edge-attrs", {e: ree(e) for e in reo}, {e: ee(e) for e in eo})
        same_on("net-attrs", rnet, net)

    elif f == "lshift":
        n2, m2, eo2, na2, ea2, net2 = _net(req["H2"])
        same_on("nodes", rn, nodes + [n for n in n2 if n not in set(nodes)])
        same_on("edges", reo, list(range(len(eo) + len(eo2))))
        same_on("members", [rmem[e] for e in reo], [mem[e] for e in eo] + [m2[e] for e in eo2])
        merged = lambda a, b: sorted({**dict(map(tuple_kv, a)), **dict(map(tuple_kv, b))}.items())
        same_on("node-attrs", {n: sorted(map(tuple_kv, rne(n))) for n in rn},
                {n: merged(ne(n) if n in set(nodes) else [], na2.get(n, [])) for n in rn})
        same_on("edge-attrs", [ree(e) for e in reo], [ee(e) for e in eo] + [ea2.get(e, []) for e in eo2])
        same_on("net-attrs", sorted(map(tuple_kv, rnet)), merged(net, net2))

    elif f == "complement":
        same_on("nodes", rn, nodes)
        if nodes:
            k = max(sizes) if sizes else 1
            present = set(mem.values())
            want = {frozenset(c) for r in range(1, min(k, len(nodes)) + 1) for c in itertools.combinations(nodes, r)} - present
            got = [rmem[e] for e in reo]
            if len(set(got)) != len(got):
                bad("repeated-edge", f"{got}")
            same_on("absent-sets", set(got), want)
            same_on("edge-ids", reo, list(range(len(got))))

    elif f in ("cut_to_order", "k_skeleton"):
        if max_order is not None and req["order"] > max_order:
            bad("accepted-order-above-max", f"order {req['order']} > {max_order}")
        want_e = [e for e in eo if len(mem[e]) - 1 <= req["order"]]
        same_on("nodes", rn, nodes); same_on("edges", reo, want_e)
        same_on("members", rmem, {e: mem[e] for e in want_e})
        same_on("node-attrs", {n: rne(n) for n in rn}, {n: ne(n) for n in nodes})
        same_on("edge-attrs", {e: ree(e) for e in reo}, {e: ee(e) for e in want_e})
        same_on("net-attrs", rnet, net); same_on("frozen", snap["frozen"], False)

    elif f == "from_max_simplices":
        all_s = set(mem.values())
        want = [mem[e] for e in eo if not any(mem[e] < t for t in all_s)]
        same_on("nodes", rn, nodes)
        same_on("maximal-simplices", [rmem[e] for e in reo], want)
        same_on("edge-ids", reo, list(range(len(want))))

    elif f == "lch":
        comps = components(nodes, mem)
        if comps:
            big = max(len(c) for c in comps)
            if set(rn) not in [set(c) for c in comps]:
                bad("not-a-component", f"{rn} vs {comps}")
            elif len(rn) != big:
                bad("not-largest", f"{rn} vs {comps}")
            # (the statement says "a largest component" and the documentation promises no tie-break: any one is accepted)
        want_n = [n for n in nodes if n in set(rn)]
        want_e = [e for e in eo if mem[e] <= set(rn)]
        same_on("nodes", rn, want_n); same_on("edges", reo, want_e)
        same_on("members", rmem, {e: mem[e] for e in want_e})
        same_on("node-attrs", {n: rne(n) for n in rn}, {n: ne(n) for n in want_n})
        same_on("edge-attrs", {e: ree(e) for e in reo}, {e: ee(e) for e in want_e})
        same_on("net-attrs", rnet, net); same_on("frozen", snap["frozen"], False)

    elif f == "relabel":
        la = req["label_attribute"]
        pos = {n: i for i, n in enumerate(nodes)}
        same_on("nodes", rn, list(range(len(nodes)))); same_on("edges", reo, list(range(len(eo))))
        same_on("members", [rmem.get(i) for i in range(len(eo))], [frozenset(pos[x] for x in mem[e]) for e in eo])
        lab = lambda a, x: sorted([p for p in a if p[0] != la] + [[la, MH_enc_label(x)]], key=lambda p: p[0])
        same_on("node-attrs", [rne(i) for i in range(len(nodes))], [lab(ne(n), n) for n in nodes])
        same_on("edge-attrs", [ree(i) for i in range(len(eo))], [lab(ee(e), e) for e in eo])
        same_on("net-attrs", rnet, net)

    elif f == "cleanup":
        fails += cleanup_pred(req, nodes, mem, eo, ne, ee, net, rn, rmem, reo, rne, ree, rnet)
    return fails


def conn_pred(req, snap, nodes, mem):
    """connected_components is the partition of the nodes into the classes of 'joined by a chain of edges' (union-find),
    number_connected_components counts them, is_connected says whether there is exactly one, largest_connected_component
    is the first class of maximal size, node_connected_component(n) is the class of n (XGIError for a foreign node).
    On the null network is_connected / largest_connected_component have nothing to answer: raising is accepted.
    Failure classes are written "<function>/<class>": the violation is reported under that function (site_class)."""
    fails = []
    bad = lambda c, d="": fails.append((c, d))
    ids = lambda c: sorted((enc_id(x) for x in c), key=idkey)
    isErr = lambda v: isinstance(v, dict) and "$err" in v
    exp = [ids(c) for c in components(nodes, mem)]
    got = snap["comps"]
    if isErr(got):
        bad("connected_components/raised", f"connected_components raised ({got['$err']})")
    elif sorted(map(json.dumps, got)) != sorted(map(json.dumps, exp)):
        bad("connected_components/components-not-the-partition", f"connected_components yields {got}, the classes are {exp}")
    if isErr(snap["number"]):
        bad("number_connected_components/raised", f"number_connected_components raised ({snap['number']['$err']})")
    elif snap["number"] != len(exp):
        bad("number_connected_components/number-of-components", f"number_connected_components = {snap['number']}, there are {len(exp)} classes {exp}")
    if nodes:
        if isErr(snap["connected"]):
            bad("is_connected/raised", f"is_connected raised ({snap['connected']['$err']}) on a network with nodes {ids(nodes)}")
        elif snap["connected"] != (len(exp) == 1):
            bad("is_connected/is-connected-wrong", f"is_connected = {snap['connected']}, the classes are {exp}")
        big = max(len(c) for c in exp)
        L = snap["largest"]
        if isErr(L):
            bad("largest_connected_component/raised", f"largest_connected_component raised ({L['$err']})")
        elif L not in exp:
            bad("largest_connected_component/not-a-component", f"largest_connected_component = {L}, the classes are {exp}")
        elif len(L) != big:
            bad("largest_connected_component/not-largest", f"largest_connected_component = {L}, the classes are {exp}")
        # ("a largest component": no tie-break is documented, any class of maximal size is accepted)
    for n, v in snap["ncc"]:
        cls_ = next((c for c in exp if n in c), None)
        if cls_ is None:
            if not (isErr(v) and v["$err"] == "err:lib"):
                bad("node_connected_component/wrong-error", f"node_connected_component of the foreign node {n!r} must raise XGIError, got {v}")
        elif isErr(v):
            bad("node_connected_component/raised", f"node_connected_component({n!r}) raised ({v['$err']})")
        elif v != cls_:
            bad("node_connected_component/node-component-wrong", f"node_connected_component({n!r}) = {v}, its class is {cls_}")
    return fails


def tuple_kv(p):
    return (p[0], json.dumps(p[1], sort_keys=True))


def MH_enc_label(x):
    from ..core import enc_val
    return enc_val(x)


def first_maximal_is_string_first(enc):
    """from_max_simplices hands lists of members to add_edges_from, which decides the format by the first member
    of the first edge: a string first among non-strings is rejected ("Members cannot be specified as a string")"""
    mem = {json.dumps(e): ms for e, ms in enc["edges"]}
    sets = [frozenset(map(json.dumps, ms)) for ms in mem.values()]
    for e, ms in enc["edges"]:
        s = frozenset(map(json.dumps, ms))
        if not any(s < t for t in sets):
            return bool(ms) and isinstance(ms[0], str) and not all(isinstance(x, str) for x in ms)
    return False


def expected_cleanup(fl, nodes, mem, eo, prefer=None):
    """the network the definition asks for, by brute force: (nodes kept, edges kept, nothing left at the connected
    step); None when a class of repeated edges has IDs that Python's sorted cannot order.  `prefer`: a node set; when
    several components are largest, the one equal to `prefer` is taken ("a largest component": no tie-break is promised),
    otherwise the first"""
    keep = list(eo)
    if not fl["multiedges"]:
        classes = {}
        for e in eo:
            classes.setdefault(mem[e], []).append(e)
        rep = {}
        for ms, ids in classes.items():
            try:
                rep[ms] = sorted(ids)[0] if len(ids) > 1 else ids[0]
            except TypeError:
                return None
        keep = [e for e in eo if rep[mem[e]] == e]
    if not fl["singletons"]:
        keep = [e for e in keep if len(mem[e]) != 1]
    kn = list(nodes)
    if not fl["isolates"]:
        kn = [n for n in kn if any(n in mem[e] for e in keep)]
    null = False
    if fl["connected"]:
        comps = components(kn, {e: mem[e] for e in keep})
        null = not comps
        if comps:
            big = max(len(c) for c in comps)
            largest = [c for c in comps if len(c) == big]
            first = next((c for c in largest if prefer is not None and set(c) == set(prefer)), largest[0])
            kn = [n for n in kn if n in set(first)]
            keep = [e for e in keep if mem[e] <= set(first)]        # (empty edges stay: they exclude nothing)
    return kn, keep, null


def cleanup_pred(req, nodes, mem, eo, ne, ee, net, rn, rmem, reo, rne, ree, rnet):
    """the guarantees, 'only by deleting or merging', and the exact expected network by brute force"""
    fails = []
    bad = lambda c, d="": fails.append((c, d))
    fl = {k: req[k] for k in FLAGS}
    # --- guarantees on the result
    if not fl["isolates"]:
        iso = [n for n in rn if not any(n in m for m in rmem.values())]
        if iso:
            bad("isolated-node-left", f"{iso}")
    if not fl["singletons"]:
        sg = [e for e in reo if len(rmem[e]) == 1]
        if sg:
            bad("singleton-left", f"{sg}")
    if not fl["multiedges"]:
        if len(set(rmem.values())) != len(rmem):
            bad("repeated-edge-left", f"{rmem}")
    if fl["connected"]:
        if len(components(rn, rmem)) > 1:
            bad("not-connected", f"{components(rn, rmem)}")
    if fl["relabel"]:
        if rn != list(range(len(rn))) or reo != list(range(len(reo))):
            bad("labels-not-a-range", f"{rn} {reo}")
    # --- the original label of every surviving node / edge
    if fl["relabel"]:
        def old(attrs):
            v = dict(map(tuple, map(lambda p: (p[0], p[1]), attrs))).get("label")
            return dec_label(v)
        on = {n: old(rne(n)) for n in rn}
        oe = {e: old(ree(e)) for e in reo}
    else:
        on = {n: n for n in rn}
        oe = {e: e for e in reo}
    if any(on[n] not in set(nodes) for n in rn):
        bad("node-not-original", f"{on}")
        return fails
    if any(oe[e] not in mem for e in reo):
        bad("edge-not-original", f"{oe}")
        return fails
    # --- brute-force expected network (sets), independent of the library
    exp = expected_cleanup(fl, nodes, mem, eo, prefer={on[n] for n in rn})
    if exp is None:
        return fails
    kn, keep, _ = exp
    if sorted(map(repr, (on[n] for n in rn))) != sorted(map(repr, kn)):
        bad("nodes-differ-from-definition", f"got {[on[n] for n in rn]} want {kn}")
    if sorted(map(repr, (oe[e] for e in reo))) != sorted(map(repr, keep)):
        bad("edges-differ-from-definition", f"got {[oe[e] for e in reo]} want {keep}")
    else:
        inv = {v: k for k, v in on.items()}
        for e in reo:
            want = frozenset(inv.get(x, ("?", x)) for x in mem[oe[e]])
            if rmem[e] != want:
                bad("members-changed", f"edge {oe[e]!r}: got {set(rmem[e])} want {set(want)}")
    # order: surviving nodes keep their relative order
    pos = {n: i for i, n in enumerate(nodes)}
    if [pos[on[n]] for n in rn] != sorted(pos[on[n]] for n in rn):
        bad("node-order-changed", f"{[on[n] for n in rn]}")
    strip = lambda a: [p for p in a if not (fl["relabel"] and p[0] == "label")]
    for n in rn:
        if strip(rne(n)) != strip(ne(on[n])):
            bad("node-attrs-changed", f"{on[n]!r}: {rne(n)} vs {ne(on[n])}")
    for e in reo:
        if strip(ree(e)) != strip(ee(oe[e])):
            bad("edge-attrs-changed", f"{oe[e]!r}: {ree(e)} vs {ee(oe[e])}")
    if rnet != net:
        bad("net-attrs-changed", f"{rnet} vs {net}")
    return fails


def dec_label(v):
    if isinstance(v, dict) and "$o" in v:
        t = v["$o"]
        if t.startswith("(") and t.endswith(")"):       # a tuple ID, written "(a, b)" by core.enc_val
            return dec_id(json.loads("[" + t[1:-1] + "]"))
        return dec_id(json.loads(t))
    return v


# ----------------------------------------------------------------------------- case generation

def gen_case(rng, f=None, small=False):
    f = f or rng.choice(FUNCS)
    mx = 4 if small else 6
    if f in ("k_skeleton", "from_max_simplices") or (f == "cut_to_order" and rng.random() < 0.4):
        cls = "sc" if rng.random() < 0.92 else "hg"
    else:
        cls = "hg"
    if cls == "sc":
        H = gen_net(rng, "sc", max_nodes=5, max_edges=3, frozen=0.05)
    elif f == "complement":
        H = gen_net(rng, "hg", max_nodes=5, max_edges=5, frozen=0.05)
    else:
        H = gen_net(rng, "hg", max_nodes=mx, max_edges=mx)
    req = {"f": f, "H": H}
    nodes = H["nodes"]
    eids = [e for e, _ in H["edges"]]
    pick = lambda pool, extra: (None if rng.random() < 0.3 else
                                [x for x in pool if rng.random() < 0.6] + ([rng.choice(extra)] if rng.random() < 0.2 else []))
    if f == "subhypergraph":
        req["nodes"] = pick(nodes, [99, "zz", 0])
        req["edges"] = pick(eids, [99, "zz", 0])
        req["keep_isolates"] = rng.random() < 0.6
    elif f == "lshift":
        lab = rng.choice(fn.LABELS)
        req["H2"] = gen_net(rng, "hg", max_nodes=mx, max_edges=mx, labels=lab if rng.random() < 0.7 else None)
        if rng.random() < 0.5:      # same label universe: overlapping nodes and overlapping edge IDs
            pool = [dec_id(n) for n in nodes] + [77, "q", 78, "r", 79, "s"]
            epool = [dec_id(e) for e in eids] + list(range(50, 60))
            req["H2"] = gen_net(rng, "hg", max_nodes=mx, max_edges=mx, labels=lambda k: pool[:k], edge_ids=lambda m: epool[:m])
    elif f in ("cut_to_order", "k_skeleton"):
        req["order"] = rng.randint(-1, 4)
    elif f == "maximal":
        req["strict"] = rng.random() < 0.4
    elif f == "components":
        req["probe"] = list(nodes) + ([rng.choice([99, "zz", -1])] if rng.random() < 0.4 else [])
    elif f == "relabel":
        req["label_attribute"] = rng.choice(["label", "old", "w"])
        req["in_place"] = rng.random() < 0.5
    elif f == "cleanup":
        for k in FLAGS:
            req[k] = rng.random() < 0.5
        req["in_place"] = rng.random() < 0.5
    return req


def all_flag_cases(H):
    for bits in itertools.product([False, True], repeat=5):
        for ip in (False, True):
            yield {"f": "cleanup", "H": H, **dict(zip(FLAGS, bits)), "in_place": ip}


AWKWARD = [
    {"nodes": [], "edges": []},
    {"nodes": [1, 2, 3], "edges": []},
    {"nodes": [1, 2], "edges": [[0, [1]], [1, [2]]]},                                  # all singletons
    {"nodes": [1, 2, 3, 4], "edges": [[0, [1, 2]], [1, [3, 4]]]},                       # two components, tie
    {"nodes": [4, 3, 2, 1, 0], "edges": [["b", [1, 0]], ["a", [3, 4]], ["c", [2]]]},
    {"nodes": [1, 2, 3], "edges": [[0, [1, 2]], [1, [1, 2]], [2, [2, 1]], [3, [3]], [4, [3]]]},   # multi-edges
    {"nodes": [1, 2, 3], "edges": [[0, []], [1, []], [2, [1, 2]]]},                     # empty edges
    {"nodes": ["a", "b", 1], "edges": [[5, ["a", 1]], ["x", ["a", 1]], [2, ["b"]]]},  # dup class with unorderable IDs
    {"nodes": [1, 2, 3, 4, 5, 6], "edges": [[0, [1, 2]], [1, [2, 3]], [2, [4, 5]], [3, [5, 6]], [4, [6]]]},
    {"nodes": [0, 1, 2], "edges": [[0, [0, 1, 2]], [1, [0, 1]], [2, [0, 1, 2]], [3, [2]]]},
    {"nodes": [1], "edges": [[0, []], [1, []]]},                                        # only empty edges: all maximal
    # classes of repeated edges with sortable IDs of every kind (tuples, strings, ints), attributes on each member
    {"nodes": [1, 2, 3], "edges": [[[1, 2], [1, 2]], [[0, 5], [2, 1]], ["b", [2, 3]], ["a", [3, 2]], [7, [1]], [3, [1]]],
     "eattr": [[[1, 2], [["w", 1]]], [[0, 5], [["w", 2], ["m", 0]]], ["b", [["color", "r"]]], ["a", [["color", "g"]]],
               [7, [["w", 7]]], [3, [["w", 3]]]]},
    {"nodes": [1, 2], "edges": [[[1, "a"], [1, 2]], [["b", 0], [2, 1]]]},               # mixed tuples: unsortable class
]


def small_scope_cases():
    """exhaustive small scope of the correspondence: every hypergraph with <=3 distinct edges on 4 nodes (plus one
    multi-edge variant) x every function and argument in a small grid"""
    for nodes, edges in fn.all_small_hypergraphs(4, 3, 1):
        H = {"nodes": nodes, "edges": [[e, ms] for e, ms in edges]}
        variants = [H]
        if edges:
            variants.append({"nodes": nodes, "edges": H["edges"] + [[len(edges), list(edges[0][1])]]})
        for V in variants:
            for f in ("dual", "dual2", "complement", "lch", "copy"):
                yield {"f": f, "H": V}
            yield {"f": "components", "H": V, "probe": list(nodes) + [99]}
            for st in (False, True):
                yield {"f": "maximal", "H": V, "strict": st}
            for o in (-1, 0, 1, 2, 3):
                yield {"f": "cut_to_order", "H": V, "order": o}
            for ns in (None, [0, 1], [1, 2, 3]):
                for es in (None, [0, 2]):
                    yield {"f": "subhypergraph", "H": V, "nodes": ns, "edges": es, "keep_isolates": ns is None}
            yield {"f": "relabel", "H": V, "label_attribute": "label", "in_place": False}
            for bits in itertools.product([False, True], repeat=5):
                yield {"f": "cleanup", "H": V, **dict(zip(FLAGS, bits)), "in_place": False}
        if len(edges) <= 2:
            S = {"nodes": nodes, "edges": H["edges"], "cls": "sc"}
            S["edges"] = [p for p in S["edges"] if p[1]]
            yield {"f": "from_max_simplices", "H": S}
            for o in (0, 1, 2):
                yield {"f": "k_skeleton", "H": S, "order": o}


# ----------------------------------------------------------------------------- shrinking

def shrink(req, still, budget=150):
    req = copy.deepcopy(req)

    def attempts(r):
        for key in ("H", "H2"):
            if key not in r:
                continue
            H = r[key]
            for i in range(len(H["edges"]) - 1, -1, -1):
                c = copy.deepcopy(r); del c[key]["edges"][i]; yield c
            for i in range(len(H["nodes"]) - 1, -1, -1):
                n = H["nodes"][i]
                c = copy.deepcopy(r); del c[key]["nodes"][i]
                c[key]["edges"] = [[e, [x for x in ms if x != n]] for e, ms in c[key]["edges"]]
                yield c
            for k in ("nattr", "eattr", "net"):
                if H.get(k):
                    c = copy.deepcopy(r); c[key][k] = []; yield c
            if H.get("frozen"):
                c = copy.deepcopy(r); c[key]["frozen"] = False; yield c
        for k in ("nodes", "edges"):
            if isinstance(r.get(k), list) and r["f"] == "subhypergraph":
                for i in range(len(r[k])):
                    c = copy.deepcopy(r); del c[k][i]; yield c
    changed = True
    while changed and budget > 0:
        changed = False
        for c in attempts(req):
            budget -= 1
            if budget <= 0:
                break
            try:
                if still(c):
                    req, changed = c, True
                    break
            except Exception:  # noqa
                continue
    return req


def pred_classes(req):
    r, snap, exc = run_impl(copy.deepcopy(req))
    return r, [c for c, _ in pred(r, snap, exc)], pred(r, snap, exc)



# ----------------------------------------------------------------------------- cleanup / relabelling of the other two classes
# SimplicialComplex.cleanup, DiHypergraph.cleanup and convert_labels_to_integers on both: brute-force predicate on the
# implementation (guarantees, exact expected network with attributes and recorded old labels, argument untouched when
# in_place=False) AND differential against the C03 / C02 state-machine models through the C19 driver.

OTHER_SITE = {"sc_cleanup": "SimplicialComplex.cleanup", "dh_cleanup": "DiHypergraph.cleanup",
              "sc_relabel": "convert_labels_to_integers", "dh_relabel": "convert_labels_to_integers"}
DH_FIELDS = ["out", "nodes", "edges", "tail", "head", "membIn", "membOut", "nattr", "eattr", "nattrK", "eattrK", "net",
             "uid", "frozen", "indeg", "outdeg", "deg", "tailsize", "headsize", "size"]


def build_dh(enc):
    DH = xgi.DiHypergraph()
    nattr = {json.dumps(k): a for k, a in enc.get("nattr", [])}
    eattr = {json.dumps(k): a for k, a in enc.get("eattr", [])}
    # built through add_node / add_edge, NOT through the bulk methods that convert_labels_to_integers itself uses to
    # rebuild the network: a defect of add_nodes_from / add_edges_from must not be baked into the input in the same way
    # as into the result (edges: one at a time for an odd number of edges, in bulk otherwise — both paths stay in use)
    for n in enc["nodes"]:
        DH.add_node(dec_id(n), **_attrs(nattr.get(json.dumps(n), [])))
    items = [(([dec_id(x) for x in t], [dec_id(x) for x in h]), dec_id(e), _attrs(eattr.get(json.dumps(e), [])))
             for e, t, h in enc["edges"]]
    if len(items) % 2:
        for members, idx, a in items:
            DH.add_edge(members, idx=idx, **a)
    elif items:
        DH.add_edges_from(items)
    for k, v in enc.get("net", []):
        DH[k] = MH._val(v)
    if enc.get("frozen"):
        DH.freeze()
    return DH


def enc_dh(DH):
    try:
        uid = next(copy.copy(DH._edge_uid))
    except Exception:  # noqa
        uid = 0
    return {"nodes": [enc_id(n) for n in DH.nodes],
            "edges": [[enc_id(e), [enc_id(x) for x in DH.edges.tail(e)], [enc_id(x) for x in DH.edges.head(e)]] for e in DH.edges],
            "nattr": [[enc_id(n), enc_attrs_req(DH.nodes[n])] for n in DH.nodes if DH.nodes[n]],
            "eattr": [[enc_id(e), enc_attrs_req(DH.edges[e])] for e in DH.edges if DH.edges[e]],
            "net": enc_attrs_req(DH._net_attr), "uid": uid, "frozen": bool(DH.is_frozen)}


class _View:
    """plain-Python picture of a network of either class: nodes / edges in view order, members as (tail, head)
    frozensets (undirected: (members, ∅)), deep copies of the three attribute levels"""

    def __init__(self, N, directed):
        self.nodes = list(N.nodes)
        self.edges = list(N.edges)
        if directed:
            self.mem = {e: (frozenset(N.edges.dimembers(e)[0]), frozenset(N.edges.dimembers(e)[1])) for e in self.edges}
        else:
            self.mem = {e: (frozenset(N.edges.members(e)), frozenset()) for e in self.edges}
        self.nattr = {n: copy.deepcopy(dict(N.nodes[n])) for n in self.nodes}
        self.eattr = {e: copy.deepcopy(dict(N.edges[e])) for e in self.edges}
        self.net = copy.deepcopy(dict(N._net_attr))
        self.frozen = bool(N.is_frozen)

    def key(self):
        return (self.nodes, self.edges, self.mem, self.nattr, self.eattr, self.net, self.frozen)


def _other_expected(req, V, prefer=None):
    """the network the definition asks for, by brute force: (surviving nodes in order, surviving edges in order);
    `prefer`: the node set of the result (among several largest components any one is accepted)"""
    f = req["f"]
    und = {e: t | h for e, (t, h) in V.mem.items()}
    kn, keep = list(V.nodes), list(V.edges)
    if f in ("sc_cleanup", "dh_cleanup") and not req["isolates"]:
        used = set().union(*und.values()) if und else set()
        kn = [n for n in kn if n in used]
    if f == "sc_cleanup" and req["connected"]:
        comps = components(kn, {e: und[e] for e in keep})
        if comps:
            big = max(len(c) for c in comps)
            largest = [set(c) for c in comps if len(c) == big]
            first = next((c for c in largest if prefer is not None and c == set(prefer)), largest[0])
            kn = [n for n in kn if n in first]
    # a simplex / edge survives iff all its nodes do (only nodes outside every kept edge are ever deleted)
    keep = [e for e in keep if und[e] <= set(kn)]
    return kn, keep


def run_other(req):
    """(request completed with the real encoding, snapshot for the differential comparison, [(failure_class, detail)])"""
    f = req["f"]
    directed = f.startswith("dh_")
    req = dict(req)
    if directed:
        N = build_dh(req["DH"]); req["DH"] = enc_dh(N)
    else:
        N = build_enc(req["H"]); req["H"] = enc_full(N, "sc")
    V0 = _View(N, directed)
    ip = req["in_place"]
    relab = req.get("relabel", True)
    la = req.get("label_attribute", "label")
    if f.endswith("_cleanup"):
        flags = {k: req[k] for k in (("isolates", "relabel") if directed else ("isolates", "connected", "relabel"))}
        what = f"{type(N).__name__}.cleanup({flags}, in_place={ip})"
    else:
        what = f"convert_labels_to_integers({type(N).__name__}, label_attribute={la!r}, in_place={ip})"
    exc, R = None, None
    with warnings.catch_warnings(record=True) as w:
        warnings.simplefilter("always")
        try:
            if f.endswith("_cleanup"):
                R = N.cleanup(**flags, in_place=ip)
            else:
                R = xgi.convert_labels_to_integers(N, label_attribute=la, in_place=ip)
        except Exception as ex:  # noqa
            exc = ex
    out = MH.outcome_of(exc, any(issubclass(x.category, UserWarning) for x in w))
    fails = []
    bad = lambda c, d="": fails.append((c, d))
    V1 = _View(N, directed)                                   # the argument after the call
    if not ip and V1.key() != V0.key():
        diff = [k for k, x, y in zip(("nodes", "edges", "members", "node-attrs", "edge-attrs", "net-attrs", "frozen"),
                                     V0.key(), V1.key()) if x != y]
        bad("argument-mutated", f"{what} changed its argument ({', '.join(diff)}): nodes {V0.nodes} -> {V1.nodes}, "
                                f"edges {V0.edges} -> {V1.edges}")
    res = N if ip else R
    if exc is not None:
        snap = (MD.snapshot(MD.Box(N), out) if directed else MH.snapshot(N, out)) if ip else {"out": out}
        if V0.frozen and ip and out == "err:lib":
            if V1.key() != V0.key():
                bad("frozen-network-changed", f"{what} raised on a frozen network after changing it")
            return req, snap, fails
        bad("raised", f"{what} raised {type(exc).__name__}: {exc}")
        return req, snap, fails
    if ip and f.endswith("_cleanup") and R is not N:
        bad("in-place-returns-other-object", what)
    if not ip and (R is None or R is N):
        bad("not-a-new-network", f"{what} returned {'None' if R is None else 'its argument'}")
        return req, {"out": out}, fails
    snap = MD.snapshot(MD.Box(res), out) if directed else MH.snapshot(res, out)
    VR = _View(res, directed)
    # --- the result is a well-formed network of its class
    if directed:
        from .c02 import clauses as dh_clauses
        fails += [("result-" + c, d) for c, d in dh_clauses(snap)][:1]
    else:
        fails += wf_fails(snap)[:1]
        sets = {t for t, _ in VR.mem.values()}
        for t in list(sets):
            for k in range(2, len(t)):        # xgi stores the faces with >= 2 nodes
                for c in itertools.combinations(sorted(t, key=repr), k):
                    if frozenset(c) not in sets:
                        bad("result-not-closed", f"{set(t)} is a simplex of the result but its face {set(c)} is not")
                        break
                else:
                    continue
                break
    und = {e: t | h for e, (t, h) in VR.mem.items()}
    # --- the guarantees, read off the result alone
    if f.endswith("_cleanup") and not req["isolates"]:
        used = set().union(*und.values()) if und else set()
        iso = [n for n in VR.nodes if n not in used]
        if iso:
            bad("isolated-node-left", f"{what}: {iso}")
    if f == "sc_cleanup" and req["connected"] and len(components(VR.nodes, und)) > 1:
        bad("not-connected", f"{what}: {components(VR.nodes, und)}")
    if relab and (VR.nodes != list(range(len(VR.nodes))) or VR.edges != list(range(len(VR.edges)))):
        bad("labels-not-a-range", f"{what}: nodes {VR.nodes} edges {VR.edges}")
    # --- old labels, recorded under the label attribute
    if relab:
        miss = [n for n in VR.nodes if la not in VR.nattr[n]] + [("edge", e) for e in VR.edges if la not in VR.eattr[e]]
        if miss:
            bad("old-label-not-recorded", f"{what}: no {la!r} attribute on {miss}")
            return req, snap, fails
        on = {n: VR.nattr[n][la] for n in VR.nodes}
        oe = {e: VR.eattr[e][la] for e in VR.edges}
    else:
        on = {n: n for n in VR.nodes}
        oe = {e: e for e in VR.edges}
    # --- exactly the expected survivors, in the original order, with their members and attributes
    try:
        prefer = set(on.values())
    except TypeError:      # a recorded "old label" that is not even hashable is no ID of the source
        bad("old-label-not-an-id", f"{what}: recorded labels {list(on.values())!r}"[:300])
        return req, snap, fails
    kn, keep = _other_expected(req, V0, prefer=prefer)
    got_n, got_e = [on[n] for n in VR.nodes], [oe[e] for e in VR.edges]
    same = lambda x, y: list(map(repr, x)) == list(map(repr, y))
    if not same(got_n, kn):
        bad("nodes-differ-from-definition", f"{what}: got {got_n} want {kn}")
        return req, snap, fails
    if not same(got_e, keep):
        bad("edges-differ-from-definition", f"{what}: got {got_e} want {keep}")
        return req, snap, fails
    new = {o: n for n, o in on.items()}
    strip = lambda a: {k: v for k, v in a.items() if not (relab and k == la)}
    for e in VR.edges:
        want = tuple(frozenset(new[x] for x in side) for side in V0.mem[oe[e]])
        if VR.mem[e] != want:
            bad("members-changed", f"{what}: edge {oe[e]!r}: got {tuple(map(set, VR.mem[e]))} want {tuple(map(set, want))}")
        if strip(VR.eattr[e]) != strip(V0.eattr[oe[e]]):
            bad("edge-attrs-changed", f"{what}: edge {oe[e]!r}: got {VR.eattr[e]} had {V0.eattr[oe[e]]}")
    for n in VR.nodes:
        if strip(VR.nattr[n]) != strip(V0.nattr[on[n]]):
            bad("node-attrs-changed", f"{what}: node {on[n]!r}: got {VR.nattr[n]} had {V0.nattr[on[n]]}")
    if VR.net != V0.net:
        bad("net-attrs-changed", f"{what}: got {VR.net} had {V0.net}")
    if VR.frozen and not (ip and V0.frozen):
        bad("result-frozen", what)
    return req, snap, fails


def norm_other(f, snap):
    if "nodes" not in snap:
        return {"out": snap["out"]}
    return {k: snap.get(k) for k in (DH_FIELDS if f.startswith("dh_") else FIELDS)}


def gen_dh(rng, frozen=0.08):
    nodes, edges = fn.gen_hypergraph(rng, max_nodes=6, max_edges=5, allow_empty_edges=True)
    des, seen = [], set()
    for e, ms in edges:
        if repr(e) in seen:
            continue
        seen.add(repr(e))
        k = rng.randint(0, len(ms))
        head = ms[k:] + ([rng.choice(nodes)] if rng.random() < 0.3 else [])
        des.append([enc_id(e), [enc_id(x) for x in ms[:k]], [enc_id(x) for x in dict.fromkeys(head)]])
    return {"nodes": [enc_id(n) for n in nodes], "edges": des,
            "nattr": [[enc_id(n), enc_attrs_req(a)] for n in nodes for a in [rand_attrs(rng, 0.5)] if a],
            "eattr": [[e, enc_attrs_req(a)] for e, _, _ in des for a in [rand_attrs(rng, 0.5)] if a],
            "net": enc_attrs_req(rand_attrs(rng, 0.4)), "frozen": rng.random() < frozen}


def gen_other(rng, f=None):
    f = f or rng.choice(["sc_cleanup", "sc_cleanup", "dh_cleanup", "dh_cleanup", "sc_relabel", "dh_relabel"])
    req = {"f": f, "in_place": rng.random() < 0.5}
    if f.startswith("sc_"):
        req["H"] = gen_net(rng, "sc", max_nodes=6, max_edges=3, frozen=0.08, attrs=0.5)
    else:
        req["DH"] = gen_dh(rng)
    if f.endswith("_relabel"):
        req["label_attribute"] = rng.choice(["label", "old", "w"])
    else:
        req["isolates"] = rng.random() < 0.5
        req["relabel"] = rng.random() < 0.5
        if f == "sc_cleanup":
            req["connected"] = rng.random() < 0.5
    return req


OTHER_AWKWARD = [
    {"f": "sc_cleanup", "H": {"nodes": [], "edges": [], "cls": "sc"}},
    {"f": "sc_cleanup", "H": {"nodes": [1, 2, 3], "edges": [], "cls": "sc", "nattr": [[2, [["w", 1]]]]}},
    {"f": "sc_cleanup", "H": {"nodes": [9, 1, 2, 3, 4], "edges": [["a", [1, 2]], ["b", [3, 4]]], "cls": "sc",
                              "eattr": [["a", [["w", 1]]], ["b", [["label", "x"]]]], "net": [["name", "n"]]}},
    {"f": "sc_cleanup", "H": {"nodes": ["x", 5, 6, 7, 8], "edges": [[3, [5, 6, 7]], [1, [8]]], "cls": "sc",
                              "nattr": [[5, [["label", 0]]], ["x", [["w", 2]]]], "eattr": [[3, [["w", [1, 2]]]]]}},
    {"f": "dh_cleanup", "DH": {"nodes": [], "edges": []}},
    {"f": "dh_cleanup", "DH": {"nodes": [3, 1, 2], "edges": [["e", [], []]], "eattr": [["e", [["w", 1]]]]}},
    {"f": "dh_cleanup", "DH": {"nodes": ["a", "b", "c", "d"], "edges": [[7, ["a"], ["b", "c"]], [2, ["c"], ["c"]]],
                               "nattr": [["a", [["label", "z"]]], ["d", [["w", 0]]]],
                               "eattr": [[7, [["w", 5], ["color", "r"]]], [2, [["label", None]]]], "net": [["name", "n"]]}},
]


def other_awkward_cases():
    for A in OTHER_AWKWARD:
        sc = A["f"].startswith("sc_")
        for ip in (False, True):
            for iso in (False, True):
                for rel in (False, True):
                    for con in ((False, True) if sc else (None,)):
                        r = dict(copy.deepcopy(A), isolates=iso, relabel=rel, in_place=ip)
                        if sc:
                            r["connected"] = con
                        yield r
            r = dict(copy.deepcopy(A), f=A["f"][:3] + "relabel", label_attribute="label", in_place=ip)
            yield r


def shrink_other(req, still, budget=120):
    req = copy.deepcopy(req)
    key = "DH" if "DH" in req else "H"

    def attempts(r):
        H = r[key]
        for i in range(len(H["edges"]) - 1, -1, -1):
            c = copy.deepcopy(r); del c[key]["edges"][i]; yield c
        for i in range(len(H["nodes"]) - 1, -1, -1):
            n = H["nodes"][i]
            c = copy.deepcopy(r); del c[key]["nodes"][i]
            c[key]["edges"] = [[p[0]] + [[x for x in side if x != n] for side in p[1:]] for p in c[key]["edges"]]
            yield c
        for k in ("nattr", "eattr", "net"):
            if H.get(k):
                for i in range(len(H[k])):
                    c = copy.deepcopy(r); del c[key][k][i]; yield c
        if H.get("frozen"):
            c = copy.deepcopy(r); c[key]["frozen"] = False; yield c
    changed = True
    while changed and budget > 0:
        changed = False
        for c in attempts(req):
            budget -= 1
            if budget <= 0:
                break
            try:
                if still(c):
                    req, changed = c, True
                    break
            except Exception:  # noqa
                continue
    return req


def evaluate_other(ctx, reqs):
    done, results = [], []
    for req in reqs:
        r, snap, fails = run_other(copy.deepcopy(req))
        ctx.evaluations += 1
        ctx.stats["fn:" + r["f"]] += 1
        ctx.stats["out:" + snap["out"]] += 1
        if fails:
            cls0 = fails[0][0]

            def still(c, cls0=cls0):
                return cls0 in [x for x, _ in run_other(copy.deepcopy(c))[2]]
            small = shrink_other(req, still)
            r2, _, f2 = run_other(copy.deepcopy(small))
            detail = next((d for c, d in f2 if c == cls0), fails[0][1])
            ctx.violation(OTHER_SITE[r["f"]], cls0, r2, detail=detail)
        net = r.get("DH") or r["H"]
        if any(sum(len(side) for side in p[1:]) >= 2 for p in net["edges"]):
            ctx.nontrivial.add(jhash([r, snap.get("nodes"), snap.get("mem"), snap.get("tail"), snap.get("head")]))
        if r["f"].startswith("dh_"):
            ctx.sample({"request": {k: v for k, v in r.items() if k != "DH"}, "DH": r["DH"], "impl": norm_other(r["f"], snap)}, cap=5)
        done.append(r)
        results.append((norm_other(r["f"], snap), fails))
    return done, results


def correspond_other(ctx, done, results):
    resps = run_driver("C19", done)
    dis = []
    for r, (im, fails), m in zip(done, results, resps):
        if m.get("out") == "bad-op":
            raise Infra(f"model rejected request (harness defect): {json.dumps(r)[:400]}")
        if m.get("out") == "unmodelled":
            ctx.stats["unmodelled"] += 1
            continue
        ctx.traces += 1
        mo = norm_other(r["f"], canon(m))
        if mo != im and not fails and other_largest(r, im):
            ctx.stats["other-largest-component:" + r["f"]] += 1
            continue
        if mo != im:
            if fails:
                ctx.stats["disagree-on-violation:" + r["f"]] += 1
                continue
            dis.append((r, im, mo))
            ctx.stats["disagree:" + r["f"]] += 1
    if dis:
        ctx.extra.setdefault("disagreements", [])
        for r, im, mo in dis[:5]:
            diff = [k for k in set(im) | set(mo) if im.get(k) != mo.get(k)]
            ctx.extra["disagreements"].append({"request": r, "fields": diff, "impl": {k: im.get(k) for k in diff},
                                               "model": {k: mo.get(k) for k in diff}})
        ctx.extra["disagreements_total"] = ctx.extra.get("disagreements_total", 0) + len(dis)
        ctx.broken.append(f"correspondence C19: model and implementation differ on {len(dis)} of {len(done)} cases "
                          f"(functions: {sorted({r['f'] for r, _, _ in dis})})")
    return dis

# ----------------------------------------------------------------------------- the check

SITE = {"subhypergraph": "subhypergraph", "dual": "Hypergraph.dual", "dual2": "Hypergraph.dual", "lshift": "Hypergraph.__lshift__",
        "complement": "complement", "cut_to_order": "cut_to_order", "k_skeleton": "k_skeleton",
        "from_max_simplices": "from_max_simplices", "maximal": "EdgeView.maximal", "lch": "largest_connected_hypergraph",
        "relabel": "convert_labels_to_integers", "cleanup": "Hypergraph.cleanup", "copy": "Hypergraph.copy",
        "components": "connected_components"}


def site_class(f, cls_):
    """(site, failure class) of a predicate failure: the connectivity queries name their own function"""
    if "/" in cls_:
        site, c = cls_.split("/", 1)
        return site, c
    return SITE[f], cls_


def evaluate(ctx, reqs):
    """run the implementation + predicate on the requests; returns (completed requests, normal forms)"""
    done, results = [], []
    for req in reqs:
        r, snap, exc = run_impl(req)
        ctx.evaluations += 1
        ctx.stats["fn:" + r["f"]] += 1
        ctx.stats["out:" + snap["out"]] += 1
        fails = pred(r, snap, exc)
        if fails:
            cls0 = fails[0][0]

            def still(c, cls0=cls0):
                return cls0 in pred_classes(c)[1]
            small = shrink(req, still)
            r2, _, f2 = pred_classes(small)
            detail = next((d for c, d in f2 if c == cls0), fails[0][1])
            ctx.violation(*site_class(r["f"], cls0), r2, detail=detail)
        if any(len(ms) >= 2 for _, ms in r["H"]["edges"]):
            ctx.nontrivial.add(jhash([r, snap.get("nodes"), snap.get("mem")]))
        ctx.sample({"request": {k: v for k, v in r.items() if k not in ("H", "H2")}, "H": r["H"], "impl": norm(r["f"], snap)}, cap=3)
        done.append(r)
        results.append((norm(r["f"], snap), fails))
    return done, results


def _orig_nodes(im, relabelled):
    """the original labels of the nodes of a snapshot (read from the 'label' attribute after a relabelling)"""
    if not relabelled:
        return [dec_id(n) for n in im["nodes"]]
    na = {json.dumps(n): {k: v for k, v in a} for n, a in im["nattr"]}
    return [dec_label(na.get(json.dumps(n), {}).get("label")) for n in im["nodes"]]


def other_largest(r, im):
    """True when several components are largest and the implementation kept another one than the first (the model keeps
    the first; the statement says "a largest component", so this is not a disagreement — the predicate has judged it)"""
    try:
        f = r["f"]
        if f in OTHER_SITE:
            if f != "sc_cleanup" or not r.get("connected") or "nodes" not in im:
                return False
            V = _View(build_enc(r["H"]), False)
            got = _orig_nodes(im, r.get("relabel"))
            return _other_expected(r, V)[0] != _other_expected(r, V, prefer=set(got))[0]
        if "nodes" not in im:
            return False
        nodes, mem, eo, *_ = _net(r["H"])
        if f == "lch":
            comps = components(nodes, mem)
            big = max((len(c) for c in comps), default=0)
            first = next((c for c in comps if len(c) == big), [])
            rn = [dec_id(n) for n in im["nodes"]]
            return len(rn) == big and set(rn) != set(first)
        if f == "cleanup" and r.get("connected"):
            fl = {k: r[k] for k in FLAGS}
            got = _orig_nodes(im, fl["relabel"])
            a, b = expected_cleanup(fl, nodes, mem, eo), expected_cleanup(fl, nodes, mem, eo, prefer=set(got))
            return a is not None and b is not None and a[0] != b[0]
    except Exception:  # noqa
        return False
    return False


def correspond(ctx, done, results):
    resps = run_driver("C19", done)
    dis = []
    for r, (im, fails), m in zip(done, results, resps):
        if m.get("out") == "bad-op":
            raise Infra(f"model rejected request (harness defect): {json.dumps(r)[:400]}")
        if m.get("out") == "unmodelled":
            ctx.stats["unmodelled"] += 1
            continue
        ctx.traces += 1
        mo = norm(r["f"], canon(m))
        if r["f"] == "components" and not r["H"]["nodes"]:
            # the null network: whether is_connected / largest_connected_component raise is left open (see conn_pred)
            mo = dict(mo, connected=im.get("connected"), largest=im.get("largest"))
        if r["f"] == "components" and isinstance(im.get("largest"), list) and isinstance(mo.get("largest"), list) \
                and len(im["largest"]) == len(mo["largest"]) and im["largest"] in (im.get("comps") or []):
            mo = dict(mo, largest=im["largest"])      # a tie: any class of maximal size is "a largest component"
        if r["f"] == "lch" and not r["H"]["nodes"] and im["out"] == "err:value":
            ctx.stats["lch-null-network-raises"] += 1      # accepted either way (see assumptions)
            continue
        if mo != im and not fails and other_largest(r, im):
            ctx.stats["other-largest-component:" + r["f"]] += 1     # a tie: the model keeps the first, any one is accepted
            continue
        if mo != im:
            if fails:
                # the implementation violates the definition on this input: already reported as concrete
                ctx.stats["disagree-on-violation:" + r["f"]] += 1
                continue
            dis.append((r, im, mo))
            ctx.stats["disagree:" + r["f"]] += 1
    if dis:
        ctx.extra.setdefault("disagreements", [])
        for r, im, mo in dis[:5]:
            diff = [k for k in set(im) | set(mo) if im.get(k) != mo.get(k)]
            ctx.extra["disagreements"].append({"request": r, "fields": diff, "impl": {k: im.get(k) for k in diff},
                                               "model": {k: mo.get(k) for k in diff}})
        ctx.extra["disagreements_total"] = ctx.extra.get("disagreements_total", 0) + len(dis)
        ctx.broken.append(f"correspondence C19: model and implementation differ on {len(dis)} of {len(done)} cases "
                          f"(functions: {sorted({r['f'] for r, _, _ in dis})})")
    return dis


def load_corpus(other=False, r2=False):
    out = []
    for p in sorted(glob.glob(os.path.join(VERIF, "corpus", "C19", "*.json"))):
        try:
            j = json.load(open(p))
            out.append(j.get("case", j))
        except Exception:  # noqa
            pass
    if r2:
        return [c for c in out if isinstance(c, dict) and c.get("f") == "r2"]
    return [c for c in out if isinstance(c, dict) and "f" in c and ("H" in c or "DH" in c) and (c["f"] in OTHER_SITE) == other]


def run(ctx):
    ok = build_and_audit(ctx, "XgiModel.Props.C19", ["XgiModel.C19.Drive", "XgiModel.Props.C19O", "XgiModel.Props.C19C"],
                         audit_extra=["XgiModel.Props.C19O", "XgiModel.Props.C19C"])
    rng = ctx.rng
    reqs = load_corpus()
    ctx.stats["corpus_cases"] = len(reqs)
    for H in AWKWARD:
        reqs += list(all_flag_cases(H))
        for f in ("dual", "dual2", "complement", "lch", "copy"):
            reqs.append({"f": f, "H": H})
        reqs.append({"f": "components", "H": H, "probe": list(H["nodes"]) + [99]})
        for st in (False, True):
            reqs.append({"f": "maximal", "H": H, "strict": st})
        for o in (-1, 0, 1, 2):
            reqs.append({"f": "cut_to_order", "H": H, "order": o})
        reqs.append({"f": "relabel", "H": H, "label_attribute": "label", "in_place": False})
        reqs.append({"f": "lshift", "H": H, "H2": AWKWARD[(AWKWARD.index(H) + 3) % len(AWKWARD)]})
    for f in FUNCS:
        reqs += [gen_case(rng, f) for _ in range(ctx.n(250, 2500))]
    # every flag combination on random networks
    for _ in range(ctx.n(30, 250)):
        reqs += list(all_flag_cases(gen_net(rng, "hg", max_nodes=7, max_edges=7, frozen=0.0)))
    if not ctx.quick:
        reqs += list(small_scope_cases())
        ctx.exhaustive = True
        ctx.extra["exhaustive_scope"] = ("correspondence and predicate on every hypergraph with <=3 distinct edges over 4 nodes "
                                         "(plus a multi-edge variant) x {dual, dual2, complement, lch, copy, maximal strict/non-strict, cut_to_order -1..3, "
                                         "subhypergraph 3x2 selections, relabel, all 32 cleanup flag settings}; simplicial "
                                         "complexes generated by <=2 simplices x {from_max_simplices, k_skeleton 0..2}")
    done, results = evaluate(ctx, reqs)
    oreqs = [c for c in load_corpus(other=True)] + list(other_awkward_cases()) + [gen_other(rng) for _ in range(ctx.n(1500, 8000))]
    odone, oresults = evaluate_other(ctx, oreqs)
    dis = correspond(ctx, done, results) + correspond_other(ctx, odone, oresults)
    # second-round families (predicate only; see harness/c19_r2.py): other classes, held objects, exotic labels,
    # containers, one large network
    R2.evaluate(ctx, copy.deepcopy(R2.FIXED) + load_corpus(r2=True) + R2.gen_cases(rng, ctx.n(8, 100)) + R2.regime_cases(rng))

    ctx.extra["unmodelled_cases"] = ctx.stats.get("unmodelled", 0)      # requests the model declined (skipped in the comparison)
    if ctx.stats.get("unmodelled", 0) > 0.05 * max(1, len(done) + len(odone)):
        ctx.broken.append(f"correspondence C19: the model declined {ctx.stats['unmodelled']} of {len(done) + len(odone)} requests "
                          "(the generators are meant to stay inside the model)")

    def search():
        # broken tie and no failing input yet: many more cases on the functions involved
        fs = sorted({r["f"] for r, _, _ in dis}) or (FUNCS + list(OTHER_SITE))
        more = [rng.choice(fs) for _ in range(ctx.n(1500, 10000))]
        ctx.stats["targeted_cases"] = len(more)
        evaluate(ctx, [gen_case(rng, f) for f in more if f not in OTHER_SITE])
        evaluate_other(ctx, [gen_other(rng, f) for f in more if f in OTHER_SITE])
    fn.conclude(ctx, ok, dis, search)
    ctx.rule = ("networks from harness/fn.py generators (any int/str/mixed labels, isolated nodes, singletons, multi-edges, "
                "empty edges, node/edge/network attributes, sometimes frozen) x function x arguments (node/edge selections "
                "cutting through edges and naming foreign IDs, orders -1..4, EdgeView.maximal strict/non-strict (empty and "
                "repeated edges included), all 2^5 cleanup flag settings x in_place, a "
                "second network with overlapping nodes and edge IDs for <<), plus a fixed list of awkward networks; simplicial complexes and "
                "directed hypergraphs with node / edge / network attributes (sometimes frozen, a 'label' key already present, empty directed "
                "edges, nodes in both tail and head) x cleanup flag settings x in_place x label_attribute; corpus/C19 first; "
                "non-trivial = distinct (request, result) with an edge of >=2 members")
    ctx.rule += ("; second-round families (harness/c19_r2.py, predicate only): SimplicialComplex / DiHypergraph / trivial subclasses through every "
                 "function, held objects (call, count-preserving or ordinary edit, same and other arguments again), tuple node labels and edge IDs, "
                 "date / Enum / frozenset / bytes node labels, selection containers (list, tuple, set, frozenset, dict view, generator, ndarray), one "
                 "large hypergraph (76 nodes, 135 parallel edges, labels and IDs around 2**53) and one large complex per run")
    ctx.assumptions = ["cases compared with the model: node labels int / str / mixed, edge IDs int / str / tuples of ints or strs in the hand-written awkward "
                       "networks only; tuple node labels, tuple edge IDs and labels float() cannot read are generated in the second-round families "
                       "(predicate only); bool/float IDs outside both",
                       "among several components of maximal size any one is accepted (the statement says 'a largest component'); the model keeps the first, "
                       "a tie resolved differently is not counted as a disagreement",
                       "node order of a dual and edge order of a complement come from Python set iteration and are compared as sets",
                       "SimplicialComplex.copy on a closed complex is modelled as an equal unfrozen network",
                       "cleanup / largest_connected_hypergraph are modelled as repaired in /repo 4b127bb (the null network is left "
                       "alone); largest_connected_hypergraph(null network) raising ValueError (older trees) is still accepted",
                       "edge IDs of one kind (int, str, tuple of ints, tuple of strs) are ordered as Python does; every other class of "
                       "repeated-edge IDs counts as unsortable in the shared model (mixed tuples that Python can still order are not generated)",
                       "EdgeView.maximal is driven directly on hypergraphs (a SimplicialComplex cannot hold an empty simplex)",
                       "SimplicialComplex.cleanup / DiHypergraph.cleanup / convert_labels_to_integers on both: compared with the C03 / C02 "
                       "state-machine models (SC.cleanup, SC.relabel, DHG.cleanup, DHG.relabel, copies for in_place=False) and checked by "
                       "the predicate; int / str IDs only (no tuple IDs) for these two classes",
                       "a call that returns a new network must leave its argument(s) exactly as they were (public snapshot before / after) "
                       "and must not return the argument itself"]
    return finish(ctx, trusted_base=TRUSTED_COMMON + [
        "harness/props/c19.py: brute-force definitions (itertools, union-find) used as the predicate; network builder/encoder",
        "the private read copy.copy(H._edge_uid) for the counter"])


def replay(ctx, path):
    j = json.load(open(path))
    case = j.get("case", j)
    if case.get("f") == "r2":
        res = R2.run_case(case)
        print(json.dumps({"case": case, "predicate_failures": [[s_, c, d] for s_, c, d, _ in res]}, default=repr)[:4000])
        for s_, c, d, _ in res:
            ctx.violation(s_, c, case, detail=d)
        return finish(ctx, trusted_base=TRUSTED_COMMON)
    if case.get("f") in OTHER_SITE:
        r, snap, fails = run_other(copy.deepcopy(case))
        print(json.dumps({"request": r, "impl": norm_other(r["f"], snap), "predicate_failures": fails}, default=repr)[:4000])
        for c, d in fails:
            ctx.violation(OTHER_SITE[case["f"]], c, r, detail=d)
        return finish(ctx, trusted_base=TRUSTED_COMMON)
    r, snap, exc = run_impl(case)
    fails = pred(r, snap, exc)
    print(json.dumps({"request": r, "impl": norm(r["f"], snap), "predicate_failures": fails}, default=repr)[:4000])
    for c, d in fails:
        ctx.violation(*site_class(r["f"], c), r, detail=d)
    return finish(ctx, trusted_base=TRUSTED_COMMON)
