"""C18 — frozen networks cannot be structurally modified."""
import inspect
import warnings

import xgi
from xgi.exception import XGIError

from .. import dhg as MD
from .. import hg as MH
from ..c18_translate import write as translate
from ..core import TRUSTED_COMMON, build_and_audit, finish
from ..fn import conclude
from ..sm import run_sm

FIELDS = ["out", "nodes", "edges", "mem", "memb", "frozen"]
WEIGHTS = {"freeze": 6}


# ----------------------------------------------------------------------------- probing the real classes

def structure(H):
    if isinstance(H, xgi.DiHypergraph):
        return (list(H.nodes), list(H.edges),
                {repr(e): (sorted(map(repr, H.edges.tail(e))), sorted(map(repr, H.edges.head(e)))) for e in H.edges},
                {repr(n): sorted(map(repr, H.nodes.memberships(n))) for n in H.nodes})
    return (list(H.nodes), list(H.edges), {repr(e): sorted(map(repr, H.edges.members(e))) for e in H.edges},
            {repr(n): sorted(map(repr, H.nodes.memberships(n))) for n in H.nodes})


def build(cls, rng, spec=None):
    nodes = [0, 1, 2, 3, 4, 5]
    if cls is xgi.DiHypergraph:
        H = cls()
        H.add_nodes_from(nodes)
        H.add_edges_from([([0, 1], [2]), ([2], [3, 4]), ([1, 4], [0]), ([5], [5])])
    elif cls is xgi.SimplicialComplex:
        H = cls()
        H.add_nodes_from(nodes + [9])
        H.add_simplices_from([[0, 1, 2], [2, 3], [3, 4]])
    else:
        H = cls()
        H.add_nodes_from(nodes + [9])
        H.add_edges_from([[0, 1, 2], [2, 3], [3, 4], [2, 3], [5]])
    return H


def arg_tuples(cls, name, H, rng):
    """argument tuples (args, kwargs) to try for a public callable; explicit table + generic fallback"""
    nodes, edges = list(H.nodes), list(H.edges)
    n0, n1 = nodes[0], nodes[3]
    e0, e1 = edges[0], edges[1]
    directed = cls is xgi.DiHypergraph
    mem = ([7, 8], [0]) if directed else [7, 0]
    T = {
        "add_node": [((42,), {})],
        "add_nodes_from": [(([42, 43],), {})],
        "remove_node": [((n0,), {}), ((n1,), {"strong": True})],
        "remove_nodes_from": [(([n0, n1],), {})],
        "add_edge": [((mem,), {}), ((mem,), {"idx": "new"})],
        "add_edges_from": [(([mem],), {})],
        "add_weighted_edges_from": [(([(0, 7, 2.0)],), {})],
        "remove_edge": [((e0,), {})],
        "remove_edges_from": [(([e0, e1],), {})],
        "add_node_to_edge": [((e0, 77, "in"), {}) if directed else ((e0, 77), {}), (("brandnew", 0, "out"), {}) if directed else (("brandnew", 0), {})],
        # directed fixture: edge e0 = ([0, 1] -> [2]); direction "in" names the tail side, "out" the head side
        "remove_node_from_edge": [((e0, 0, "in"), {}), ((e0, 2, "out"), {})] if directed else [((e0, 0), {})],
        "clear": [((), {})],
        "clear_edges": [((), {})],
        "double_edge_swap": [((1, 4, 0, 2), {}), ((0, 3, 0, 1), {})],
        "random_edge_shuffle": [((0, 2), {}), ((0, 1), {})],
        "update": [((), {"edges": [[7, 8]]}), ((), {"nodes": [55]})],
        "merge_duplicate_edges": [((), {}), ((), {"rename": "new"})],
        "cleanup": [((), {}), ((), {"relabel": False, "connected": False} if not directed else {"relabel": False})],
        "add_simplex": [(([7, 8, 0],), {})],
        "add_simplices_from": [(([[7, 8, 0]],), {})],
        "add_weighted_simplices_from": [(([(0, 7, 2.0)],), {})],
        "remove_simplex_id": [((e0,), {})],
        "remove_simplex_ids_from": [(([e0],), {})],
        "close": [((), {})],
        "set_node_attributes": [((1,), {"name": "c"})],
        "set_edge_attributes": [((1,), {"name": "c"})],
        "freeze": [], "copy": [((), {})], "dual": [((), {})], "has_simplex": [(([0, 1],), {})],
    }
    if name in T:
        return T[name]
    # generic fallback for methods this table does not know (new mutators are probed too): argument tuples of arity 0..3
    # over small pools of existing / new nodes and edges, lists and pairs of them
    import itertools as _it
    other = cls()
    try:
        (other.add_simplex if cls is xgi.SimplicialComplex else other.add_edge)(([70], [71]) if directed else [70, 71])
    except Exception:  # noqa
        pass
    pool = [n0, n1, 77, e0, e1, "brandnew", [n0, n1], [n0, 77], [[n0, 77]], ([7, 8], [n0]), {"zz": [n0, n1]}, True, "in", "out",
            other, {n0: "renamed", n1: "renamed2"}, {e0: "renamed"}, "k"]
    out = [((), {})]
    for ar in (1, 2, 3):
        combos = list(_it.product(pool, repeat=ar))
        rng.shuffle(combos)
        out += [(c, {}) for c in combos[: {1: 18, 2: 48, 3: 40}[ar]]]
    return out


LIB_INPLACE = {
    "convert_labels_to_integers(in_place)": lambda H: xgi.convert_labels_to_integers(H, in_place=True),
    "largest_connected_hypergraph(in_place)": lambda H: xgi.largest_connected_hypergraph(H, in_place=True),
}


MUTATION_DUNDERS = ("__setitem__", "__delitem__", "__setattr__", "__delattr__")


def is_mutation_dunder(name):
    """operator methods through which an object is changed in place: `H <<= G`, `H |= G`, `del H[x]`, `H[x] = y` ..."""
    return name in MUTATION_DUNDERS or (name.startswith("__i") and name.endswith("__") and name not in ("__init__", "__iter__", "__init_subclass__", "__index__", "__int__", "__invert__"))


def candidates(cls):
    out = []
    for name, member in inspect.getmembers(cls):
        if name.startswith("_") and not (is_mutation_dunder(name) and any(name in k.__dict__ for k in cls.__mro__ if k is not object)):
            continue
        if isinstance(inspect.getattr_static(cls, name), property):
            continue
        if callable(member):
            out.append(name)
    return out


def call_quiet(f, *a, **k):
    with warnings.catch_warnings():
        warnings.simplefilter("ignore")
        try:
            f(*a, **k)
            return None
        except Exception as e:  # noqa
            return e


def probe(ctx):
    rng = ctx.rng
    import random as _random
    _random.seed(ctx.seed)          # methods under probe draw from the global generator (random_edge_shuffle)
    mutators = {}
    for cls in (xgi.Hypergraph, xgi.DiHypergraph, xgi.SimplicialComplex):
        cname = cls.__name__
        found = []
        for name in candidates(cls):
            for args, kw in arg_tuples(cls, name, build(cls, rng), rng):
                A = build(cls, rng)
                before = structure(A)
                excA = call_quiet(getattr(A, name), *args, **kw)
                changes = structure(A) != before
                ctx.evaluations += 1
                ctx.stats[f"probe:{cname}"] += 1
                if not changes:
                    continue
                found.append(name)
                ctx.nontrivial.add(hash((cname, name, repr(args), repr(kw))))
                B = build(cls, rng)
                B.freeze()
                before = structure(B)
                excB = call_quiet(getattr(B, name), *args, **kw)
                case = {"class": cname, "method": name, "args": repr(args), "kwargs": repr(kw)}
                if structure(B) != before:
                    ctx.violation(f"{cname}.{name}", "frozen-network-mutated", case,
                                  detail=f"{cname}.{name}{args}{kw} changed a frozen network (raised: {type(excB).__name__ if excB else None})")
                elif not isinstance(excB, XGIError):
                    ctx.violation(f"{cname}.{name}", "frozen-no-library-error", case,
                                  detail=f"{cname}.{name}{args}{kw} on a frozen network raised {type(excB).__name__ if excB else 'nothing'} instead of XGIError")
                if not B.is_frozen:
                    ctx.violation(f"{cname}.{name}", "is-frozen-lost", case, detail="is_frozen became False")
        # SimplicialComplex once more on a fixture whose simplices are stored as plain sets (the inherited
        # random_edge_shuffle leaves them so): inherited methods that die on a frozenset before writing do write there
        if cls is xgi.SimplicialComplex:
            def shuffled():
                S = build(cls, rng)
                import random as _r
                _r.seed(1)
                call_quiet(S.random_edge_shuffle, list(S.edges)[0], list(S.edges)[1])
                return S
            for name in candidates(cls):
                for args, kw in arg_tuples(cls, name, shuffled(), rng)[:12]:
                    A = shuffled()
                    before = structure(A)
                    call_quiet(getattr(A, name), *args, **kw)
                    ctx.evaluations += 1
                    if structure(A) == before:
                        continue
                    B = shuffled(); B.freeze()
                    before = structure(B)
                    excB = call_quiet(getattr(B, name), *args, **kw)
                    case = {"class": cname, "fixture": "after random_edge_shuffle", "method": name, "args": repr(args), "kwargs": repr(kw)}
                    if structure(B) != before:
                        ctx.violation(f"{cname}.{name}", "frozen-network-mutated", case,
                                      detail=f"{cname}.{name}{args}{kw} changed a frozen complex whose simplices are plain sets (raised: {type(excB).__name__ if excB else None})")
        # in-place library functions
        if cls is not xgi.DiHypergraph:
            libs = dict(LIB_INPLACE)
        else:
            libs = {"convert_labels_to_integers(in_place)": LIB_INPLACE["convert_labels_to_integers(in_place)"]}
        for lname, f in libs.items():
            A = build(cls, rng)
            A.add_node("zz")            # makes relabelling and component restriction change something
            before = structure(A)
            call_quiet(f, A)
            ctx.evaluations += 1
            if structure(A) == before:
                continue
            found.append(lname)
            B = build(cls, rng); B.add_node("zz"); B.freeze()
            before = structure(B)
            excB = call_quiet(f, B)
            case = {"class": cname, "function": lname}
            if structure(B) != before:
                ctx.violation(f"{cname}:{lname}", "frozen-network-mutated", case, detail=f"{lname} changed a frozen {cname}")
            elif not isinstance(excB, XGIError):
                ctx.violation(f"{cname}:{lname}", "frozen-no-library-error", case,
                              detail=f"{lname} on a frozen {cname} raised {type(excB).__name__ if excB else 'nothing'} instead of XGIError")
        mutators[cname] = sorted(set(found))
        # is_frozen, copy of a frozen network, subhypergraph
        H = build(cls, rng)
        if H.is_frozen:
            ctx.violation(f"{cname}.is_frozen", "fresh-network-frozen", {"class": cname}, detail="is_frozen True on a new network")
        H.freeze()
        if not H.is_frozen:
            ctx.violation(f"{cname}.is_frozen", "not-frozen-after-freeze", {"class": cname}, detail="is_frozen False after freeze()")
        C = H.copy()
        if C.is_frozen or structure(C) != structure(H):
            ctx.violation(f"{cname}.copy", "copy-of-frozen", {"class": cname}, detail=f"copy of a frozen network: frozen={C.is_frozen}, equal={structure(C) == structure(H)}")
        exc = call_quiet(C.add_node, 1234)
        if exc is not None or 1234 not in C.nodes:
            ctx.violation(f"{cname}.copy", "copy-not-editable", {"class": cname}, detail=f"copy of a frozen network not editable: {exc!r}")
        # clones of a frozen network (copy, pickle, deepcopy): `is_frozen` must tell the truth about the clone — reported
        # frozen => a mutator raises the library's error and changes nothing; reported editable => the edit succeeds — and
        # an edit of the clone never changes the frozen original
        import copy as _copy, pickle as _pickle
        for how, mk in (("copy()", lambda F: F.copy()), ("pickle", lambda F: _pickle.loads(_pickle.dumps(F))),
                        ("deepcopy", lambda F: _copy.deepcopy(F))):
            F = build(cls, rng); F.freeze()
            sF = structure(F)
            try:
                with warnings.catch_warnings():
                    warnings.simplefilter("ignore")
                    K = mk(F)
            except Exception:  # noqa
                continue
            ctx.evaluations += 1
            sK = structure(K)
            exc = call_quiet(K.add_node, 4321)
            case = {"class": cname, "clone": how}
            if K.is_frozen and (not isinstance(exc, XGIError) or structure(K) != sK):
                ctx.violation(f"{cname}.is_frozen", "clone-reports-frozen-but-is-editable", case,
                              detail=f"{how} of a frozen {cname}: is_frozen=True but add_node -> {exc!r}, changed={structure(K) != sK}")
            if not K.is_frozen and exc is not None:
                ctx.violation(f"{cname}.is_frozen", "clone-reports-editable-but-refuses", case,
                              detail=f"{how} of a frozen {cname}: is_frozen=False but add_node raised {exc!r}")
            if structure(F) != sF or not F.is_frozen:
                ctx.violation(f"{cname}.{how}", "frozen-network-mutated", case, detail=f"editing the {how} of a frozen {cname} changed the frozen original")
        if True:   # all three classes: a class subhypergraph() does not support simply raises and is skipped
            import inspect as _insp
            params = _insp.signature(xgi.subhypergraph).parameters
            variants = [dict(nodes=[0, 1, 2, 3]), dict(edges=list(build(cls, rng).edges)[:2]), dict(nodes=[0, 1, 2, 3, 9], edges=list(build(cls, rng).edges)[:2]), dict(),
                        dict(nodes=[]), dict(edges=[]), dict(nodes=[], edges=[]), dict(nodes=[9]), dict(nodes=[5]), dict(nodes=list(build(cls, rng).nodes))]
            flags = [{}]
            for pname, par in params.items():   # every boolean option of subhypergraph, both values
                if isinstance(par.default, bool):
                    flags = [dict(f, **{pname: v}) for f in flags for v in (True, False)]
            for var in variants:
                for fl in flags:
                    kw = dict(var, **fl)
                    try:
                        S = xgi.subhypergraph(build(cls, rng), **kw)
                    except Exception:  # noqa
                        continue
                    ctx.evaluations += 1
                    b = structure(S)
                    exc = call_quiet(S.add_node, 99)
                    exc2 = call_quiet(S.remove_node, 0) if 0 in S.nodes else XGIError("n/a")
                    adder = S.add_simplex if cls is xgi.SimplicialComplex else S.add_edge
                    exc3 = call_quiet(adder, ([1], [2]) if cls is xgi.DiHypergraph else [1, 2])
                    exc = exc if isinstance(exc3, XGIError) else exc3
                    if not S.is_frozen or not isinstance(exc, XGIError) or not isinstance(exc2, XGIError) or structure(S) != b:
                        ctx.violation("subhypergraph", "result-not-frozen", {"class": cname, "kwargs": repr(kw)},
                                      detail=f"subhypergraph({kw}) result: is_frozen={S.is_frozen}, add_node -> {exc!r}, remove_node -> {exc2!r}")
    # library functions that (re)populate an existing instance passed as `create_using`: on a frozen instance they must
    # raise the library's error and leave it unchanged (discovered by introspection)
    import inspect as _insp2
    datas = [None, [[7, 8], [8, 9]], {"a": [7, 8]}, 3]
    for fname in sorted(dir(xgi)):
        f = getattr(xgi, fname, None)
        if fname.startswith("_") or not callable(f) or _insp2.isclass(f):
            continue
        try:
            sig = _insp2.signature(f)
        except (TypeError, ValueError):
            continue
        if "create_using" not in sig.parameters:
            continue
        for cls in (xgi.Hypergraph, xgi.DiHypergraph, xgi.SimplicialComplex):
            cname = cls.__name__
            for data in datas:
                npos = [p for p in sig.parameters.values() if p.default is p.empty and p.kind in (p.POSITIONAL_ONLY, p.POSITIONAL_OR_KEYWORD)]
                args = [data] * len(npos) if npos else []
                if data is None and npos:
                    continue
                A = build(cls, rng)
                before = structure(A)
                excA = call_quiet(f, *args, create_using=A)
                ctx.evaluations += 1
                if structure(A) == before:
                    continue      # did not touch the instance with these arguments (or refused them)
                found_key = f"xgi.{fname}(create_using=)"
                mutators.setdefault(cname, [])
                if found_key not in mutators[cname]:
                    mutators[cname].append(found_key)
                B = build(cls, rng)
                B.freeze()
                before = structure(B)
                excB = call_quiet(f, *args, create_using=B)
                case = {"class": cname, "create_using_function": fname, "data": repr(data)}
                if structure(B) != before:
                    ctx.violation(f"xgi.{fname}(create_using=)", "frozen-network-mutated", case,
                                  detail=f"xgi.{fname}({', '.join(map(repr, args))}, create_using=<frozen {cname}>) changed the frozen network (raised: {type(excB).__name__ if excB else None})")
                elif not isinstance(excB, XGIError):
                    ctx.violation(f"xgi.{fname}(create_using=)", "frozen-no-library-error", case,
                                  detail=f"xgi.{fname}(…, create_using=<frozen {cname}>) raised {type(excB).__name__ if excB else 'nothing'} instead of XGIError")
                break
    ctx.extra["structural_mutators_found_by_probing"] = mutators
    from ..c18_translate import extract as _extract
    tab = _extract()
    blind = {}
    for key, cname in (("hypergraph", "Hypergraph"), ("dihypergraph", "DiHypergraph"), ("simplicialcomplex", "SimplicialComplex")):
        miss = [m for m in tab[key]["frozen"] if m not in mutators.get(cname, [])]
        if miss:
            blind[cname] = miss
    # names that freeze() disables but that the probe never saw changing structure on the unfrozen fixture: the probe could
    # not notice if they were dropped from the freeze list (reported, so that the argument table gets fixed)
    ctx.extra["freeze_listed_but_never_observed_mutating"] = blind
    ctx.stats["probe_blind_names"] = sum(len(v) for v in blind.values())
    return mutators


def pred_hg(snap, op, prev, exc):
    """on the implementation, along histories: once frozen, the structure never changes again"""
    if prev.get("frozen") and any(snap[k] != prev[k] for k in ("nodes", "edges", "mem", "memb")):
        return [("frozen-network-mutated", f"{op['op']} changed a frozen Hypergraph")]
    if prev.get("frozen") and not snap.get("frozen"):
        return [("is-frozen-lost", f"{op['op']} unfroze the network")]
    return []


# directed class: the model of C02 (lean/XgiModel/C02/DHG.lean, driver DHG), theorems in Props/C18D.lean
FIELDS_D = ["out", "nodes", "edges", "tail", "head", "membIn", "membOut", "frozen"]
WEIGHTS_D = {"freeze": 6}
IN_PLACE_D = lambda op: not (op["op"] == "copy" or (op["op"] == "cleanup" and not op["in_place"]))


class DRecv:
    """harness.dhg with one more observation: whether the *receiver* of the call kept its structure and its flag
    (`copy` / `cleanup(in_place=False)` hand back another object and the history continues there; the frozen
    receiver they were called on must stay as it was)"""
    NAME, factory, gen_history, to_request, nontrivial = MD.NAME, staticmethod(MD.factory), staticmethod(MD.gen_history), staticmethod(MD.to_request), staticmethod(MD.nontrivial)

    @staticmethod
    def apply_impl(box, op):
        recv = box.H
        before = (structure(recv), bool(recv.is_frozen))
        r = MD.apply_impl(box, op)
        box.recv_kept = (structure(recv), bool(recv.is_frozen)) == before
        return r

    @staticmethod
    def snapshot(box, out="ok"):
        s = MD.snapshot(box, out)
        s["recv_kept"] = getattr(box, "recv_kept", True)
        return s


def pred_dhg(snap, op, prev, exc):
    """on the implementation, along directed histories: a frozen DiHypergraph never changes structure again"""
    if not prev.get("frozen"):
        return []
    if not snap["recv_kept"]:
        return [("frozen-network-mutated", f"DiHypergraph: {op['op']} changed the frozen network it was called on")]
    if IN_PLACE_D(op):
        if any(snap[k] != prev[k] for k in ("nodes", "edges", "tail", "head", "membIn", "membOut")):
            return [("frozen-network-mutated", f"DiHypergraph: {op['op']} changed a frozen network")]
        if not snap.get("frozen"):
            return [("is-frozen-lost", f"DiHypergraph: {op['op']} unfroze the network")]
    return []


def run(ctx):
    import warnings
    warnings.filterwarnings("ignore", message=".*is deprecated in SimplicialComplex.*")   # stderr noise of the probes
    from ..c18_translate import extract
    tab = extract()
    ctx.extra["freeze_table"] = {k: v["frozen"] for k, v in tab.items()}
    # Props/C18D.lean: the same theorems on the directed model (C18_table_dihypergraph over the regenerated table, …)
    # Props/C18S.lean: the same theorems on the simplicial model (C18_table_simplicialcomplex over the regenerated table, …)
    ok = build_and_audit(ctx, "XgiModel.Props.C18", ["XgiModel.Drive.HG", "XgiModel.Props.C18D", "XgiModel.C02.Drive",
                                                      "XgiModel.Props.C18S"],
                         audit_extra=("XgiModel.Props.C18D", "XgiModel.Props.C18S"), translate=translate)
    ctx.rule = ("(a) probing: every public callable of the three classes (introspection) and the in-place library functions, with "
                "argument tuples from a table plus a generic fallback; those that change structure on an unfrozen network must raise "
                "XGIError and change nothing on a frozen twin; (b) histories on xgi.Hypergraph containing freeze(), compared with the "
                "model on (outcome, nodes, edges, members, memberships, frozen); (c) histories on xgi.DiHypergraph containing freeze() "
                "(incl. cleanup, relabelling, copy), compared with the directed model on (outcome, nodes, edges, tail, head, in/out "
                "memberships, frozen), the receiver of every call on a frozen network re-read afterwards; non-trivial = distinct "
                "(class, method, args) that mutates, resp. distinct states")
    probe(ctx)
    dis, hist = run_sm(ctx, MH, "HG", FIELDS, pred_hg, ctx.n(200, 6000), weights=WEIGHTS, model_ok=ok,
                       corr_name="correspondence HG~Hypergraph incl. freeze")
    keep = {k: ctx.stats[k] for k in ("histories", "corpus_histories")}
    dis_d, _ = run_sm(ctx, DRecv, "DHG", FIELDS_D, pred_dhg, ctx.n(150, 4000), weights=WEIGHTS_D, model_ok=ok,
                      corr_name="correspondence DHG~DiHypergraph incl. freeze")
    ctx.stats["histories_directed"] = ctx.stats["histories"] - ctx.stats["corpus_histories"]
    ctx.stats["histories"], ctx.stats["corpus_histories"] = keep["histories"], keep["corpus_histories"]
    dis = list(dis) + list(dis_d)
    conclude(ctx, ok, dis)
    ctx.assumptions = ["probing argument table is hand-written per method name; unknown (new) methods get a generic fallback",
                       "the theorem part covers the undirected model (Props/C18) and the directed model (Props/C18D); the simplicial class is decided by probing"]
    return finish(ctx, trusted_base=TRUSTED_COMMON + ["AST translator harness/c18_translate.py (reads the `self.X = frozen` assignments of freeze())"])


def replay(ctx, path):
    import ast
    import json
    from ..sm import replay_sm
    j = json.load(open(path))
    case = j.get("case", {})
    if "method" in case or "function" in case:
        cls = getattr(xgi, case["class"])
        B = build(cls, ctx.rng)
        if "function" in case:
            B.add_node("zz"); B.freeze(); before = structure(B)
            exc = call_quiet(LIB_INPLACE[case["function"]], B)
        else:
            B.freeze(); before = structure(B)
            exc = call_quiet(getattr(B, case["method"]), *ast.literal_eval(case["args"]), **ast.literal_eval(case["kwargs"]))
        if structure(B) != before or not isinstance(exc, XGIError):
            print(f"VIOLATION property=C18 replay={path}")
            print(f"  reproduced: frozen {case['class']} {case.get('method') or case.get('function')}: changed={structure(B) != before}, raised={type(exc).__name__ if exc else None}")
            return 1
        print(f"replay {path}: not reproduced on the current tree")
        return 0
    if case.get("class") == "DiHypergraph":
        return replay_sm(ctx, DRecv, "DHG", FIELDS_D, pred_dhg, path)
    return replay_sm(ctx, MH, "HG", FIELDS, pred_hg, path)
