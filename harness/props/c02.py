"""C02 — directed incidence integrity (tail/head vs out/in) under every edit history."""
import json
import os

from .. import dhg as M
from ..core import unlisted_violations  # noqa: E402
from ..core import TRUSTED_COMMON, build_and_audit, finish
from ..sm import first_pred_failure, run_sm, targeted_search

# the incidence projection compared with the model after every call (also after calls that raised)
FIELDS = ["out_class", "nodes", "edges", "tail", "head", "membIn", "membOut", "indeg", "outdeg", "deg",
          "tailsize", "headsize", "size", "nattrK", "eattrK", "nattr_missing", "eattr_missing"]
# the whole observable state (C02_FIELDS=full): adds attribute values, network attributes, counter, frozen
# flag and the exact outcome kind
FULL = ["out", "nodes", "edges", "tail", "head", "membIn", "membOut", "indeg", "outdeg", "deg", "tailsize",
        "headsize", "size", "nattr", "eattr", "nattrK", "eattrK", "net", "uid", "frozen"]


# input families of harness/dhg.py (share of the histories that use them): explicit edge IDs outside int/str (uuid.UUID,
# 10**309, 1.0 / 2.0 / 2.5 / 4.0, numpy integers, bytes), the same list / set object as tail and head, tuple node labels
WEIGHTS = {"$exotic": 0.12, "$alias": 0.15, "$tuples": 0.08, "$large": 0.002}


def _has_none(m):
    return isinstance(m, dict) and (None in m.get("tail", []) or None in m.get("head", []))


def qualifier(op):
    """the mode of the call, appended to the failure class so that findings are told apart by the argument
    shape that triggers them (weak vs strong removal; a None member; automatic vs explicit edge id; bulk format)"""
    name = op["op"]
    if name in ("remove_node", "remove_nodes_from"):
        return ":strong" if op.get("strong") else ":weak"
    if name == "add_edge":
        if _has_none(op.get("members")):
            return ":none-member"
        return ":auto-id" if op.get("idx") == "$auto" else ":explicit-id"
    if name == "add_edges_from":
        if any(_has_none(it.get("members")) for it in op.get("items", [])):
            return ":none-member"
        return f":fmt{op.get('fmt')}"
    return ""


def pred(snap, op, prev, exc):
    q = qualifier(op)
    if snap.get("out") == "err:hang":        # harness/dhg.py watchdog: the call never came back
        return [] if getattr(exc, "presumed", False) else [("call-does-not-return" + q, str(exc))]
    return [(cls + q, detail) for cls, detail in clauses(snap)]


def _norm(j):
    """IDs as dict keys: a float that is an integer is the key of the int it equals (2.0 == 2, same hash) — an edge added as 2
    and named 2.0 in a later call is one edge (harness/dhg.py shows exotic IDs as "$x:<kind>:<text>")"""
    if isinstance(j, list):
        return [_norm(x) for x in j]
    if isinstance(j, str) and j.startswith("$x:float:") and float(j[9:]).is_integer():
        return int(float(j[9:]))
    return j


def clauses(snap):
    """the WFd clauses of lean/XgiModel/C02/Lemmas.lean evaluated on the implementation's observable state.
    Clauses are evaluated in a fixed order (IDs, attribute records, dangling references, the four pairings);
    the first failing clause names the failure class."""
    fails = []
    snap = {f: _norm(snap[f]) if f in ("nodes", "edges", "tail", "head", "membIn", "membOut", "nattr", "eattr", "nattrK", "eattrK") else snap[f]
            for f in snap}
    nodes, edges = snap["nodes"], snap["edges"]
    nset, eset = {repr(n) for n in nodes}, {repr(e) for e in edges}
    tail = {repr(e): v for e, v in snap["tail"]}
    head = {repr(e): v for e, v in snap["head"]}
    mout = {repr(n): v for n, v in snap["membOut"]}
    minn = {repr(n): v for n, v in snap["membIn"]}
    # --- IDs are hashable scalars of the kinds that were handed in (harness/dhg.py safe_id marks anything else)
    bad = [x for x in list(nodes) + list(edges) if isinstance(x, str) and x.startswith("$bad:")]
    for _, v in list(snap["tail"]) + list(snap["head"]) + list(snap["membIn"]) + list(snap["membOut"]):
        if isinstance(v, list):
            bad += [x for x in v if isinstance(x, str) and x.startswith("$bad:")]
    if bad:
        fails.append(("id-outside-domain", f"an object that was never given as an ID is stored as a node / edge / member: {bad[:3]}"))
    # --- IDs: None is never an ID, no ID listed twice
    if None in nodes or None in edges:
        fails.append(("none-id", "None is a node or edge id"))
    if len(nset) != len(nodes) or len(eset) != len(edges):
        fails.append(("duplicate-id", f"nodes {nodes} edges {edges}"))
    # --- everything readable; sets are sets
    for what, table in (("tail", snap["tail"]), ("head", snap["head"]), ("in-memberships", snap["membIn"]), ("out-memberships", snap["membOut"])):
        for k, v in table:
            if not isinstance(v, list):
                fails.append(("unreadable", f"{what} of {k!r}: {v}"))
            elif len({repr(x) for x in v}) != len(v):
                fails.append(("duplicate-in-set", f"{what} of {k!r}: {v}"))
    # --- exactly one attribute record per node and per edge, none for anything else
    if any(a == "$missing" for _, a in snap["nattr"]) or sorted(map(repr, snap["nattrK"])) != sorted(nset):
        fails.append(("node-attr-record", f"node attribute records {snap['nattrK']} vs nodes {nodes}"))
    if any(a == "$missing" for _, a in snap["eattr"]) or sorted(map(repr, snap["eattrK"])) != sorted(eset):
        fails.append(("edge-attr-record", f"edge attribute records {snap['eattrK']} vs edges {edges}"))
    ok = lambda v: v if isinstance(v, list) else []
    # --- closedness: no node refers to an absent edge, no edge refers to an absent node
    for side, table in (("in", snap["membIn"]), ("out", snap["membOut"])):
        for n, es in table:
            for e in ok(es):
                if repr(e) not in eset:
                    fails.append(("membership-not-an-edge", f"node {n!r} lists edge {e!r} in its {side}-memberships but that edge does not exist"))
    for side, table in (("tail", snap["tail"]), ("head", snap["head"])):
        for e, ns in table:
            for n in ok(ns):
                if repr(n) not in nset:
                    fails.append(("member-not-a-node", f"edge {e!r} lists {n!r} in its {side} which is not a node"))
    # --- the four pairings
    for e, ns in snap["tail"]:
        for n in ok(ns):
            if repr(n) in nset and e not in ok(mout.get(repr(n))):
                fails.append(("tail-without-out", f"{n!r} in tail({e!r}) but {e!r} not in out-memberships({n!r})"))
    for n, es in snap["membOut"]:
        for e in ok(es):
            if repr(e) in eset and n not in ok(tail.get(repr(e))):
                fails.append(("out-without-tail", f"{e!r} in out-memberships({n!r}) but {n!r} not in tail({e!r})"))
    for e, ns in snap["head"]:
        for n in ok(ns):
            if repr(n) in nset and e not in ok(minn.get(repr(n))):
                fails.append(("head-without-in", f"{n!r} in head({e!r}) but {e!r} not in in-memberships({n!r})"))
    for n, es in snap["membIn"]:
        for e in ok(es):
            if repr(e) in eset and n not in ok(head.get(repr(e))):
                fails.append(("in-without-head", f"{e!r} in in-memberships({n!r}) but {n!r} not in head({e!r})"))
    return fails


def derive(snap):
    snap["out_class"] = "err" if snap["out"].startswith("err") else "ok"
    snap["nattr_missing"] = [k for k, a in snap["nattr"] if a == "$missing"]
    snap["eattr_missing"] = [k for k, a in snap["eattr"] if a == "$missing"]
    return snap


def _fields():
    return FULL if os.environ.get("C02_FIELDS", "") == "full" else FIELDS


# ----------------------------------------------------------------------------- exhaustive small scope (thorough tier)

def _T(t, h):
    return {"tail": t, "head": h, "as": "tuple"}


def small_alphabet():
    """42 calls over the universe nodes {0,1,2} (+ missing 3, None), edge IDs {0,1}: every mutator, both directions,
    weak/strong, remove_empty on/off, every bulk format, a None member, a short member tuple, copy/cleanup/relabel.
    freeze."""
    A = [{"op": "add_node", "n": 0, "attr": []},
         {"op": "add_nodes_from", "items": [{"n": 2}, {"n": 0, "attr": [["w", 1]]}], "attr": []}]
    for n in (0, 1):
        for strong in (False, True):
            for re in (True, False):
                A.append({"op": "remove_node", "n": n, "strong": strong, "remove_empty": re})
    A += [{"op": "remove_nodes_from", "ns": [1, 2], "strong": True, "remove_empty": True},
          {"op": "remove_nodes_from", "ns": [0, 3], "strong": False, "remove_empty": True},
          {"op": "add_edge", "members": _T([0], [1]), "idx": "$auto", "attr": []},
          {"op": "add_edge", "members": _T([0, 1], [1, 2]), "idx": "$auto", "attr": []},
          {"op": "add_edge", "members": _T([2], []), "idx": 0, "attr": []},
          {"op": "add_edge", "members": _T([1], [1]), "idx": 1, "attr": []},
          {"op": "add_edge", "members": _T([0, None], [1]), "idx": "$auto", "attr": []},
          {"op": "add_edge", "members": {"bad": "short"}, "idx": 0, "attr": []},
          {"op": "add_edges_from", "fmt": 1, "items": [{"members": _T([0], [1])}, {"members": _T([1], [2, 0])}], "attr": []},
          {"op": "add_edges_from", "fmt": 2, "items": [{"members": _T([0], [2]), "idx": 1}, {"members": _T([1], []), "idx": 0}], "attr": []},
          {"op": "add_edges_from", "fmt": 5, "items": [{"members": _T([0, 1], [None]), "idx": 1}], "attr": []},
          {"op": "add_edges_from", "fmt": 3, "items": [{"members": _T([2], [2]), "attr": [["w", 1]]}], "attr": []},
          {"op": "add_node_to_edge", "e": 0, "n": 0, "direction": "in"},
          {"op": "add_node_to_edge", "e": 0, "n": 2, "direction": "out"},
          {"op": "add_node_to_edge", "e": 1, "n": 1, "direction": "in"},
          {"op": "add_node_to_edge", "e": 1, "n": 1, "direction": "out"},
          {"op": "add_node_to_edge", "e": 1, "n": None, "direction": "in"}]
    for e, n, d, re in ((0, 0, "in", True), (0, 1, "in", True), (0, 1, "out", True), (1, 2, "in", False), (0, 2, "out", True), (1, 0, "out", True)):
        A.append({"op": "remove_node_from_edge", "e": e, "n": n, "direction": d, "remove_empty": re})
    A += [{"op": "remove_edge", "e": 0}, {"op": "remove_edge", "e": 1}, {"op": "remove_edges_from", "es": [1, 0]},
          {"op": "clear", "remove_net_attr": True}, {"op": "copy"},
          {"op": "cleanup", "isolates": False, "relabel": True, "in_place": True},
          {"op": "cleanup", "isolates": False, "relabel": False, "in_place": False},
          {"op": "relabel", "label_attribute": "label"}, {"op": "freeze"}]
    return A


PRELUDE = [{"op": "add_edges_from", "fmt": 1, "items": [{"members": _T([0, 1], [1, 2])}, {"members": _T([2], [0])}], "attr": []}]


def small_scope_histories(depth):
    import itertools
    A = small_alphabet()
    for start in ([], PRELUDE):
        for k in range(1, depth + 1):
            for seq in itertools.product(A, repeat=k):
                yield start + list(seq)


def run_exhaustive(ctx, fields, depth, chunk=4000):
    """all call sequences of length <= depth over the small alphabet, from the empty network and from a fixed
    two-edge prelude; same predicate + correspondence as the generated histories (run in chunks)"""
    import copy as _copy
    keep = {k: ctx.stats[k] for k in ("histories", "corpus_histories")}
    total, dis_total, dis, buf = 0, ctx.extra.get("disagreements_total", 0), [], []

    def flush():
        nonlocal total, dis_total, dis, buf
        if not buf:
            return
        d, h = run_sm(ctx, M, "DHG", fields, pred, 0, derive=derive, extra_histories=buf,
                      corr_name="correspondence DHG~DiHypergraph (exhaustive small scope)")
        total += len(buf)
        dis_total += ctx.extra.get("disagreements_total", 0)
        dis += [(h[hi][: oi + 1], diff) for hi, oi, diff, *_ in d[:3]]
        buf = []
    for hist in small_scope_histories(depth):
        buf.append(_copy.deepcopy(hist))
        if len(buf) >= chunk:
            flush()
    flush()
    ctx.stats["histories"] = keep["histories"]
    ctx.stats["corpus_histories"] = keep["corpus_histories"]
    ctx.stats["exhaustive_histories"] = total
    ctx.extra["disagreements_total"] = dis_total
    ctx.broken[:] = list(dict.fromkeys(ctx.broken))
    return dis


def run(ctx):
    ok = build_and_audit(ctx, "XgiModel.Props.C02", ["XgiModel.C02.Drive"])
    fields = _fields()
    try:        # a class whose empty instance cannot be built or read is reported, not a reason to crash
        M.snapshot(M.factory())
    except BaseException as ex:  # noqa  (RecursionError through __getattr__ included)
        ctx.violation("DiHypergraph", "empty-network-unusable", {"class": M.NAME, "ops": []},
                      detail=f"xgi.DiHypergraph() cannot be created / observed: {type(ex).__name__}: {str(ex)[:200]}")
        return finish(ctx, trusted_base=TRUSTED_COMMON)
    ctx.rule = ("histories of 1-30 public mutator calls on xgi.DiHypergraph from one PRNG (all five bulk formats, explicit/auto "
                "ids, tail/head direction, weak/strong removal, remove_empty on/off, None / missing / duplicate ids, nodes in "
                "both head and tail, empty head or tail, malformed member shapes, copy, cleanup, relabel, freeze); the WFd "
                "clauses are evaluated on the public observations after every call, also after calls that raised; "
                "non-trivial = distinct projected state with an edge with non-empty tail and head after >=2 op kinds")
    # regime family: every run has large networks (>= 70 node labels, > 130 parallel edges, labels and IDs above 2**53)
    large = [M.gen_history(ctx.rng, 2, 6, {**WEIGHTS, "$large": 1.0}) for _ in range(2)]
    dis, hist = run_sm(ctx, M, "DHG", fields, pred, ctx.n(1000, 6000), derive=derive, weights=WEIGHTS, extra_histories=large,
                       corr_name="correspondence DHG~DiHypergraph (" + ("full snapshot" if fields is FULL else "incidence projection") + ")")
    if not ctx.quick:
        depth = 3
        xdis = run_exhaustive(ctx, fields, depth)
        ctx.exhaustive = True
        ctx.extra["exhaustive_space"] = (f"correspondence + predicate on all call sequences of length <= {depth} over a fixed alphabet of "
                                         f"{len(small_alphabet())} calls (nodes 0..2, missing 3, None; edge ids 0,1; every mutator), "
                                         "started from the empty network and from a fixed two-edge prelude; this validates the model, it is not the proof")
        if xdis and not dis:
            dis, hist = [(i, len(ops) - 1, diff) for i, (ops, diff) in enumerate(xdis)], [ops for ops, _ in xdis]
    if (dis or not ok) and not unlisted_violations(ctx):
        targeted_search(ctx, M, pred, dis, hist, n=ctx.n(1500, 20000), derive=derive)
        if not unlisted_violations(ctx):
            ctx.violation("model-tie", "unproven", {"broken": ctx.broken, "example": ctx.extra.get("disagreements", [])[:1]},
                          detail="; ".join(ctx.broken)[:500], kind="unproven", broken=ctx.broken)
    ctx.extra["compared_fields"] = fields
    ctx.assumptions = ["model IDs int/str/tuple/None (tuple node labels in 8 % of the histories; tuple edge IDs in first position of "
                       "formats 2/4 are outside the model); explicit edge IDs uuid.UUID / 10**309 / floats / numpy integers / bytes are "
                       "generated in 12 % of the histories and judged by the predicate only (numpy integers also by the model, as ints); "
                       "bool IDs are not generated",
                       "the model describes the repaired code (proposed_fixes/C02-*.diff = /repo 307633d, d32d5fa, 8a6cdf6: "
                       "validate-before-write, strong removal purges memberships, every explicit ID advances the counter) and the "
                       "completed freeze list (/repo 85761ac)",
                       "`copy` and `cleanup(in_place=False)` continue the history on the returned network"]
    return finish(ctx, trusted_base=TRUSTED_COMMON + [
        "harness/dhg.py: generator, executor (Box semantics of copy/cleanup), canonical snapshot through DH.nodes/DH.edges/"
        "dimembers/tail/head/dimemberships/stats; private reads: _node_attr/_edge_attr key sets, _net_attr, _edge_uid"])


def replay(ctx, path):
    """./check C02 --replay <file>: re-run a stored history on the implementation and report the first predicate failure"""
    j = json.load(open(path))
    case = j.get("case", j)
    ops = case["ops"]
    r = first_pred_failure(M, ops, pred, derive)
    if r is None:
        print(f"C02 replay {path}: predicate holds after every call ({len(ops)} ops)")
        return 0
    i, cls, detail = r
    print(f"C02 replay {path}: VIOLATION at op {i} ({ops[i]['op']}) class={cls}: {detail}")
    return 1
