"""C17 — a seed fully determines every stochastic result.

1. translator (under the project lock, together with build + audit): Python source ->
   lean/XgiModel/Generated/SeedTable.lean: the RNG-effect list per seeded function (from the AST) and, independently,
   the list `introspected` of public seeded callables (from `import xgi` + inspect.signature);
2. lake build + audit of Props/C17.lean (`wellSeeded_sound` generic; `C17_table`, `C17_introspected_well_seeded` by
   `decide`; `C17_same_seed_same_draws`); if a table theorem does not check, the driver names the functions that are
   not well seeded / have no entry;
3. dynamic part on the real code, for every public function with a `seed` parameter found by introspection:
   f(args, seed); perturb both global generators and call f with another seed; f(args', seed) with freshly
   rebuilt arguments; the two results must be identical (structural snapshot incl. attributes / position arrays,
   exactly).  Arguments: fixed base tuples (the floor) + tuples drawn from the harness PRNG + OPTION tuples derived
   from the signature: every parameter with a default (other than `seed`) - and, for functions with `**kwargs`, the
   keywords of networkx's spring_layout - is passed a non-default value in at least one call of every run (which
   values, on which base tuple, and which combinations, is drawn from VERIF_SEED).
   Meanwhile the RNG entry points are wrapped: the sources consumed during the call must be among those the
   table attributes to the function, and the observed seed/draw order must obey the discipline whenever the
   table says the function is well seeded (this validates the translator's abstraction).
"""
import glob
import inspect
import json
import os
import random
import re
import tempfile
import time
import warnings

import networkx as nx
import numpy as np

import xgi

from .. import c17_translate as TR
from ..core import LEAN, TRUSTED_COMMON, VERIF, Infra, build_and_audit, finish, jhash, lean_build, run_driver

FAIL = "seed-not-deterministic"

# ----------------------------------------------------------------------------------------------------------
# argument grid: python expressions evaluated afresh for every call (some generators mutate their arguments);
# each yields (args, kwargs) without the seed.  Names in scope: xgi, nx, np.

_H1 = "xgi.Hypergraph([[0,1,2],[2,3,4],[4,5,6],[0,6],[1,3],[2,5,6,7],[7,8],[8,9,0]])"
_H2 = "xgi.Hypergraph({'a':['x','y','z'],'b':['z','w'],'c':['w','v','u','x'],'d':['u','y'],'e':['t','x']})"
_H3 = "xgi.Hypergraph([[1,2,3],[3,4],[4,5,6,7],[7,8,1],[8,9],[9,10,11],[11,12,1],[2,12],[5,10],[6,11,3]])"
_SC = "xgi.SimplicialComplex([[0,1,2],[2,3],[3,4,5],[5,0],[1,4]])"
_G1 = "nx.Graph([(0,1),(1,2),(0,2),(2,3),(3,4),(2,4),(4,5),(3,5),(5,0),(1,5),(0,4),(1,3)])"
_G2 = "nx.complete_graph(6)"
_LAYOUT = [f"(({h},), {{}})" for h in (_H1, _H2, _SC)]
GRID = {
    "fast_random_hypergraph": ["((10, [0.3, 0.1]), {})", "((9, [0.4, 0.2, 0.05]), {})", "((12, 0.2), {'order': 2})",
                               "((7, [1, 0.3]), {})"],
    "random_hypergraph": ["((8, [0.3, 0.1]), {})", "((7, [0.5, 0.2, 0.1]), {})", "((9, 0.2), {'order': 2})"],
    "chung_lu_hypergraph": ["(({0:2,1:2,2:1,3:3,4:2}, {0:3,1:3,2:2,3:2}), {})",
                            "(({i:1+i%4 for i in range(10)}, {j:2+j%3 for j in range(8)}), {})"],
    "dcsbm_hypergraph": ["(({i:2+i%3 for i in range(8)}, {i:2+(i+1)%3 for i in range(8)}, {i:i%2 for i in range(8)}, "
                         "{i:(i//2)%2 for i in range(8)}, np.array([[10,2],[2,10]])), {})",
                         "(({i:3 for i in range(6)}, {i:3 for i in range(6)}, {i:0 if i<3 else 1 for i in range(6)}, "
                         "{i:i%2 for i in range(6)}, np.array([[6,3],[3,6]])), {})"],
    "watts_strogatz_hypergraph": ["((10, 3, 2, 1, 0.5), {})", "((12, 3, 4, 1, 0.9), {})", "((9, 2, 2, 0, 0.3), {})"],
    "shuffle_hyperedges": [f"(({_H1}, 2, 0.7), {{}})", f"(({_H1}, 1, 1.0), {{}})", f"(({_SC}, 1, 0.6), {{}})",
                           f"(({_H3}, 2, 0.5), {{}})"],
    "random_simplicial_complex": ["((8, [0.4, 0.3]), {})", "((7, [0.5, 0.5, 0.2]), {})"],
    "flag_complex": [f"(({_G1},), {{'max_order': 2, 'ps': [0.5]}})", f"(({_G2},), {{'max_order': 3, 'ps': [0.6, 0.4]}})",
                     f"(({_G1},), {{}})"],
    "flag_complex_d2": [f"(({_G1},), {{'p2': 0.5}})", f"(({_G2},), {{'p2': 0.3}})", f"(({_G1},), {{}})"],
    "random_flag_complex_d2": ["((8, 0.6), {})", "((10, 0.4), {})"],
    "random_flag_complex": ["((8, 0.6), {})", "((9, 0.5), {'max_order': 3})"],
    "uniform_hypergraph_configuration_model": ["(({0:2,1:3,2:1,3:2,4:2,5:1}, 3), {})", "(({i:2 for i in range(9)}, 3), {})",
                                               "(({'a':1,'b':2,'c':2,'d':1,'e':1}, 2), {})"],
    "uniform_HSBM": ["((8, 2, np.array([[0.6,0.2],[0.2,0.6]]), [4,4]), {})",
                     "((9, 3, np.array([[[0.5,0.1],[0.1,0.1]],[[0.1,0.1],[0.1,0.5]]]), [5,4]), {})"],
    "uniform_HPPM": ["((10, 2, 3, 0.8), {})", "((10, 3, 2, 0.5), {'rho': 0.4})"],
    "uniform_erdos_renyi_hypergraph": ["((10, 3, 0.1), {})", "((8, 2, 0.2), {'multiedges': True})",
                                       "((9, 3, 2.0), {'p_type': 'degree'})"],
    "random_layout": _LAYOUT + [f"(({_H1},), {{'center': [1.0, 2.0]}})"],
    "pairwise_spring_layout": _LAYOUT,
    "bipartite_spring_layout": _LAYOUT[:2],
    "barycenter_spring_layout": _LAYOUT + [f"(({_H1},), {{'return_phantom_graph': True}})"],
    "weighted_barycenter_spring_layout": _LAYOUT + [f"(({_H2},), {{'return_phantom_graph': True}})"],
    "spectral_clustering": [f"(({_H1}, 2), {{}})", f"(({_H3}, 3), {{}})", f"(({_H2}, 3), {{}})", f"(({_H3}, 2), {{}})"],
}
# functions not in GRID (added later to xgi): arguments guessed from parameter names
GUESS = {
    "H": [_H1, _H2], "S": [_SC, _H1], "G": [_G1], "n": ["9"], "N": ["9"], "ps": ["[0.4, 0.2]"], "p": ["0.4"],
    "m": ["3"], "k": ["3"], "d": ["2"], "l": ["1"], "order": ["1"], "max_order": ["2"], "sizes": ["[4, 5]"],
    "epsilon": ["0.5"], "p2": ["0.5"], "k1": ["{0:2,1:2,2:1,3:3,4:2}"], "k2": ["{0:3,1:3,2:2,3:2}"],
}


def _rand_h(r, lo=6, hi=12):
    n = r.randint(lo, hi)
    edges = [sorted(r.sample(range(n), r.randint(2, min(4, n)))) for _ in range(r.randint(n, 2 * n))]
    edges += [[i, (i + 1) % n] for i in range(n)]          # keep it connected, no isolated nodes
    return f"xgi.Hypergraph({edges})".replace(" ", "")


def _rand_g(r):
    n = r.randint(5, 9)
    es = [(a, b) for a in range(n) for b in range(a + 1, n) if r.random() < 0.6]
    return f"nx.Graph({es})".replace(" ", "")


def _p(r):
    return round(r.uniform(0.05, 0.9), 2)


def _degs(r, n, lo=1, hi=4):
    return "{" + ",".join(f"{i}:{r.randint(lo, hi)}" for i in range(n)) + "}"


# argument tuples drawn from the harness PRNG (added to GRID; thorough tier mostly)
TEMPLATES = {
    "fast_random_hypergraph": lambda r: f"(({r.randint(5, 14)}, [{_p(r)}, {round(_p(r) / 4, 3)}]), {{}})",
    "random_hypergraph": lambda r: f"(({r.randint(5, 9)}, [{_p(r)}, {round(_p(r) / 3, 3)}]), {{}})",
    "chung_lu_hypergraph": lambda r: f"(({_degs(r, r.randint(5, 10))}, {_degs(r, r.randint(4, 8), 2, 4)}), {{}})",
    "watts_strogatz_hypergraph": lambda r: f"(({r.randint(8, 14)}, 3, 2, 1, {_p(r)}), {{}})",
    "shuffle_hyperedges": lambda r: f"(({_rand_h(r)}, 1, {_p(r)}), {{}})",
    "random_simplicial_complex": lambda r: f"(({r.randint(5, 9)}, [{_p(r)}, {_p(r)}]), {{}})",
    "flag_complex": lambda r: f"(({_rand_g(r)},), {{'max_order': 2, 'ps': [{_p(r)}]}})",
    "flag_complex_d2": lambda r: f"(({_rand_g(r)},), {{'p2': {_p(r)}}})",
    "random_flag_complex_d2": lambda r: f"(({r.randint(5, 12)}, {_p(r)}), {{}})",
    "random_flag_complex": lambda r: f"(({r.randint(5, 10)}, {_p(r)}), {{'max_order': {r.randint(2, 3)}}})",
    "uniform_hypergraph_configuration_model": lambda r: f"(({_degs(r, r.randint(5, 10), 1, 3)}, {r.randint(2, 3)}), {{}})",
    "uniform_HSBM": lambda r: f"((8, 2, np.array([[{_p(r)},{_p(r)}],[{_p(r)},{_p(r)}]]), [{(a := r.randint(2, 6))},{8 - a}]), {{}})",
    "uniform_HPPM": lambda r: f"(({r.randint(8, 14)}, {r.randint(2, 3)}, {r.randint(1, 4)}, {_p(r)}), {{}})",
    "uniform_erdos_renyi_hypergraph": lambda r: f"(({r.randint(6, 12)}, {r.randint(2, 3)}, {round(_p(r) / 3, 3)}), {{'multiedges': {r.random() < 0.5}}})",
    "random_layout": lambda r: f"(({_rand_h(r)},), {{}})",
    "pairwise_spring_layout": lambda r: f"(({_rand_h(r)},), {{}})",
    "bipartite_spring_layout": lambda r: f"(({_rand_h(r)},), {{}})",
    "barycenter_spring_layout": lambda r: f"(({_rand_h(r)},), {{}})",
    "weighted_barycenter_spring_layout": lambda r: f"(({_rand_h(r)},), {{}})",
    "spectral_clustering": lambda r: f"(({_rand_h(r, 8, 14)}, {r.randint(2, 3)}), {{}})",
}
# ----------------------------------------------------------------------------------------------------------
# option values, derived from the signatures.  For every parameter with a default (except `seed`) the candidates are
# looked up by (function, parameter), then by parameter name, then by the type of the default; a candidate is either a
# python expression for the value (merged as a keyword into a base tuple) or a complete argument tuple ("full:" prefix;
# needed where the value of one parameter dictates the shape of another, e.g. order / ps).  A candidate counts only when
# the call accepts it (does not raise) and the parameter is then really bound to something different from its default.

CAND = {
    ("fast_random_hypergraph", "order"): ["full:((12, 0.2), {'order': 2})", "full:((9, [0.3, 0.05]), {'order': [1, 3]})",
                                          "full:((8, [0.4]), {'order': [2]})", "full:((10, [0.2, 0.3]), {'order': np.array([2, 1])})"],
    ("random_hypergraph", "order"): ["full:((9, 0.2), {'order': 2})", "full:((7, [0.4, 0.1]), {'order': [1, 3]})",
                                     "full:((8, [0.3]), {'order': [2]})"],
    ("flag_complex", "ps"): [f"full:(({_G1},), {{'max_order': 2, 'ps': [0.5]}})", f"full:(({_G2},), {{'max_order': 3, 'ps': [0.6, 0.4]}})",
                             f"full:(({_G2},), {{'max_order': 4, 'ps': [0.7, 0.5, 0.5]}})", f"full:(({_G1},), {{'ps': [0.3, 0.9]}})"],
    ("flag_complex", "max_order"): ["3", "1", "None", f"full:(({_G2},), {{'max_order': 3, 'ps': [0.5, 0.5]}})"],
    ("uniform_erdos_renyi_hypergraph", "p_type"): ["full:((9, 3, 2.0), {'p_type': 'degree'})", "full:((8, 2, 1.5), {'p_type': 'degree'})",
                                                   "full:((7, 3, 1.0), {'p_type': 'degree', 'multiedges': True})"],
    ("spectral_clustering", "k"): ["3", "1", "4"],
    (None, "k"): ["0.5", "2.0", "0.1"],                       # spring constant of the layouts
    (None, "max_iter"): ["1", "3", "50"],
    (None, "center"): ["[1.0, 2.0]", "np.array([-3.0, 0.5])", "(10, -10)"],
    (None, "return_phantom_graph"): ["True"],
    (None, "max_order"): ["3", "1", "4"],
    (None, "ps"): ["[0.5]", "[0.5, 0.5]"],
    (None, "p2"): ["0.5", "0.2", "0.9"],
    (None, "rho"): ["0.3", "0.8", "0.1"],
    (None, "multiedges"): ["True"],
    (None, "p_type"): ["'degree'"],
    (None, "order"): ["2", "1", "[1, 2]"],
    (None, "weighted"): ["True"],
}
# functions with **kwargs forward them to networkx.spring_layout: its keywords (and `k` where the function has no named `k`)
KW_CAND = {"iterations": ["10", "30", "3"], "scale": ["2.0", "0.5"], "threshold": ["0.001", "0.1"], "k": ["0.5", "2.0"],
           "weight": ["None"], "center": ["[1.0, 1.0]"]}


def candidates_for(fname, pname, default):
    got = list(CAND.get((fname, pname), []))
    got += [c for c in CAND.get((None, pname), []) if c not in got]
    if not got:                                     # a parameter this file has never heard of: judge by the default
        if isinstance(default, bool):
            got = [repr(not default)]
        elif isinstance(default, int):
            got = [repr(default + 1), repr(max(default - 1, 0)), repr(default + 2)]
        elif isinstance(default, float):
            got = [repr(default / 2 + 0.05), repr(min(default * 1.5 + 0.05, 1.0))]
        elif default is None:
            got = ["0.5", "2", "True", "[1.0, 2.0]"]
        elif isinstance(default, (list, tuple)) and default:
            got = [repr(type(default)(list(default)[::-1])), repr(type(default)(list(default)[:1]))]
    return got


# ----------------------------------------------------------------------------------------------------------
# REGIME tuples (second hardening round): inputs outside the small default regime, added to the base tuples of every run.
#  * large networks (>= 70 node IDs, string labels and an integer label above 2**53 where labels are arithmetic-free);
#  * wiring probabilities below 1e-8 for the skip-sampling generators (a separate numeric path is plausible there);
#  * a disconnected hypergraph whose components consist of structurally identical nodes (coincident rows in the spectral
#    embedding: k-means initialisation has to deal with duplicates);
#  * class variants: a trivial subclass of Hypergraph, a SimplicialComplex, tuple node labels (built edge by edge).
# A tuple that the unchanged library rejects is dropped by the `accepted` filter and listed under argument_tuples_rejected.

def _big_h(n=78, labels="int"):
    lab = {"int": lambda i: i, "str": lambda i: f"v{i}", "mixed": lambda i: (2 ** 53 + 5 + i) if i % 7 == 0 else (f"v{i}" if i % 2 else i)}[labels]
    H = xgi.Hypergraph()
    H.add_nodes_from([lab(i) for i in range(n)])
    for i in range(n):
        H.add_edge([lab(i), lab((i + 1) % n)])
        if i % 2 == 0:
            H.add_edge([lab(i), lab((i + 1) % n), lab((i + 2) % n)])
        if i % 5 == 0:
            H.add_edge([lab(i), lab((i + 3) % n), lab((i + 9) % n), lab((i + 17) % n)])
    return H


def _tuple_h():
    H = xgi.Hypergraph()
    es = [[(0, 0), (0, 1), (1, 1)], [(1, 1), (1, 2)], [(1, 2), (2, 2), (0, 0)], [(0, 1), (2, 2)], [(2, 2), (2, 3)], [(2, 3), (0, 0), (1, 1)],
          [(0, 0), (0, 1)], [(1, 2), (2, 3), (0, 1), (1, 1)]]
    for e in es:
        H.add_edge(e)
    return H


class _MyH(xgi.Hypergraph):
    """a trivial subclass"""


def _sub_h():
    return _MyH([[0, 1, 2], [2, 3, 4], [4, 5, 6], [0, 6], [1, 3], [2, 5, 6, 7], [7, 8], [8, 9, 0]])


_TWIN = "xgi.Hypergraph([[1,2,3],[1,2],[2,3],[1,3],[4,5,6],[4,5],[5,6],[4,6]])"
REGIME = {
    "fast_random_hypergraph": ["((2000, 1e-11), {'order': 3})", "((90, [0.01, 0.0005]), {})"],
    "random_hypergraph": ["((75, [0.004]), {})"],
    "uniform_erdos_renyi_hypergraph": ["((3000, 3, 2e-9), {})", "((80, 3, 0.0005), {})"],
    "chung_lu_hypergraph": ["(({i:1+i%3 for i in range(80)}, {j:2+j%3 for j in range(70)}), {})"],
    "watts_strogatz_hypergraph": ["((75, 3, 2, 1, 0.3), {})"],
    "uniform_hypergraph_configuration_model": ["(({i:1+i%3 for i in range(80)}, 3), {})"],
    "uniform_HPPM": ["((80, 3, 2, 0.9), {})"],
    "shuffle_hyperedges": ["((_big_h(78,'mixed'), 1, 0.5), {})", "((_big_h(72,'str'), 2, 0.8), {})", "((_tuple_h(), 1, 0.9), {})",
                           "((_sub_h(), 2, 0.9), {})"],
    "random_simplicial_complex": ["((72, [0.01, 0.002]), {})"],
    "random_flag_complex_d2": ["((72, 0.06), {})"],
    "random_flag_complex": ["((72, 0.06), {'max_order': 3})"],
    "flag_complex": ["((nx.gnp_random_graph(72, 0.08, seed=5),), {'max_order': 2, 'ps': [0.5]})",
                     "((nx.complete_graph(5),), {'max_order': 2, 'ps': np.array([0.5])})"],
    "flag_complex_d2": ["((nx.gnp_random_graph(72, 0.08, seed=5),), {'p2': 0.5})"],
    "random_layout": ["((_big_h(78,'mixed'),), {})", "((_tuple_h(),), {})", "((_sub_h(),), {})"],
    "pairwise_spring_layout": ["((_big_h(72,'str'),), {})", "((_tuple_h(),), {})", "((_sub_h(),), {})"],
    "bipartite_spring_layout": ["((_big_h(72),), {})", "((_sub_h(),), {})"],
    "barycenter_spring_layout": ["((_big_h(72,'str'),), {})", "((_tuple_h(),), {})", "((_sub_h(),), {})"],
    "weighted_barycenter_spring_layout": ["((_big_h(72),), {})", "((_sub_h(),), {})"],
    "spectral_clustering": [f"(({_TWIN}, 2), {{}})", "((_big_h(72,'str'), 3), {})", "((_sub_h(), 2), {})"],
}
# seeds that are not Python ints: numpy integer scalars (what np.arange / rng.integers hand out).  A function either accepts
# them (then the C17 predicate applies) or raises for them in both calls (outcome `raises`, nothing to compare).
NP_SEED_TYPES = {"int64": np.int64, "int32": np.int32, "uint32": np.uint32}


def seed_repr(seed):
    return int(seed) if isinstance(seed, (int, np.integer)) and not isinstance(seed, bool) else repr(seed)


def seed_type(seed):
    return None if type(seed) is int else f"numpy.{type(seed).__name__}" if isinstance(seed, np.integer) else type(seed).__name__


def seed_of(case):
    t = case.get("seed_type")
    if t and t.startswith("numpy.") and t[6:] in NP_SEED_TYPES:
        return NP_SEED_TYPES[t[6:]](case["seed"])
    return case["seed"]


SEEDS_QUICK = [0, 1, 42]
SEEDS_THOROUGH = [0, 1, 2, 3, 5, 7, 11, 42, 1234, 99991, 2 ** 31 - 1, 2 ** 32 - 1]


def _with(argkw, opts):
    """a base argument tuple with option keywords merged in"""
    a, k = argkw
    return a, {**k, **opts}


def build_args(expr):
    return eval(expr, {"xgi": xgi, "nx": nx, "np": np, "_with": _with, "_big_h": _big_h, "_tuple_h": _tuple_h,  # noqa: S307 - harness-owned expressions
                       "_sub_h": _sub_h})


def with_opts(base, opts):
    """expression of base tuple `base` with the option expressions `opts` (name -> python expression) passed as keywords"""
    return f"_with({base}, {{" + ", ".join(f"{k!r}: {v}" for k, v in opts.items()) + "})"


def _differs(v, default):
    """`v` is a non-default value (numpy-safe)"""
    if v is default:
        return False
    try:
        return repr(snapshot(v)) != repr(snapshot(default))
    except Exception:  # noqa
        return True


def bound_nondefault(fn, expr):
    """parameters (named ones, and keywords that end up in **kwargs as `**name`) that the argument tuple `expr` binds to a
    non-default value; None if the tuple does not even bind"""
    sig = inspect.signature(fn)
    try:
        args, kw = build_args(expr)
        ba = sig.bind(*args, seed=0, **kw)
    except Exception:  # noqa
        return None
    out = set()
    for name, v in ba.arguments.items():
        par = sig.parameters[name]
        if par.kind is par.VAR_KEYWORD:
            out |= {"**" + k for k in v}
        elif par.kind is par.VAR_POSITIONAL:
            continue
        elif name != "seed" and par.default is not inspect.Parameter.empty and _differs(v, par.default):
            out.add(name)
    return out


# ----------------------------------------------------------------------------------------------------------
# observation

def _norm(x):
    if isinstance(x, (np.integer,)):
        return int(x)
    if isinstance(x, (np.floating,)):
        return float(x)
    return x


def snapshot(o):
    """canonical, exactly comparable form of a result (no addresses, sets sorted; floats as they are)"""
    if isinstance(o, (xgi.Hypergraph, xgi.SimplicialComplex)):
        mem = o.edges.members(dtype=dict)
        return {"type": type(o).__name__, "nodes": [repr(_norm(n)) for n in o.nodes],
                "edges": [[repr(_norm(e)), sorted(repr(_norm(n)) for n in ms)] for e, ms in mem.items()],
                "attrs": _xgi_attrs(o)}
    if isinstance(o, xgi.DiHypergraph):
        return {"type": "DiHypergraph", "nodes": [repr(_norm(n)) for n in o.nodes],
                "edges": [[repr(_norm(e)), sorted(repr(_norm(n)) for n in o.edges.tail(e)),
                           sorted(repr(_norm(n)) for n in o.edges.head(e))] for e in o.edges],
                "attrs": _xgi_attrs(o)}
    if isinstance(o, (nx.Graph,)):
        return {"type": type(o).__name__, "nodes": sorted([repr(_norm(n)), _attrs(d)] for n, d in o.nodes(data=True)),
                "edges": sorted([sorted([repr(_norm(a)), repr(_norm(b))]), _attrs(d)] for a, b, d in o.edges(data=True)),
                "graph": _attrs(o.graph)}
    if isinstance(o, dict):
        return {"dict": [[repr(_norm(k)), snapshot(v)] for k, v in o.items()]}
    if isinstance(o, (list, tuple)):
        return [snapshot(v) for v in o]
    if isinstance(o, (set, frozenset)):
        return {"set": sorted(repr(_norm(v)) for v in o)}
    if isinstance(o, np.ndarray):
        return {"array": o.tolist(), "dtype": str(o.dtype)}
    o = _norm(o)
    if isinstance(o, (int, float, str, bool)) or o is None:
        return o
    return repr(o)


def _attrs(d):
    """an attribute dict, keys sorted; empty -> [] (keeps snapshots of attribute-free networks short)"""
    return sorted([repr(_norm(k)), snapshot(v)] for k, v in d.items()) if d else []


def _xgi_attrs(o):
    """node, edge and network attributes of an xgi network (only the non-empty ones)"""
    out = {}
    try:
        na = {repr(_norm(n)): _attrs(d) for n, d in o.nodes.attrs.asdict().items() if d}
        ea = {repr(_norm(e)): _attrs(d) for e, d in o.edges.attrs.asdict().items() if d}
        net = _attrs(dict(o._net_attr)) if hasattr(o, "_net_attr") else []
    except Exception as e:  # noqa
        return {"unreadable": type(e).__name__}
    if na:
        out["nodes"] = na
    if ea:
        out["edges"] = ea
    if net:
        out["net"] = net
    return out


def nontrivial(snap):
    s = json.dumps(snap)
    return len(s) > 60


class _EntropyGen:
    """stands for a generator created from OS entropy (`default_rng(None)`): logs every method call as a draw"""

    def __init__(self, g, ev):
        self.__dict__["_g"], self.__dict__["_ev"] = g, ev

    def __getattr__(self, name):
        a = getattr(self._g, name)
        if callable(a):
            ev = self._ev

            def w(*x, **k):
                ev.append(("draw", "osEntropy", name))
                return a(*x, **k)
            return w
        return a


class Recorder:
    """wraps the RNG entry points and diffs the global generator states around a call"""
    PY = sorted(TR.PY_DRAWS)
    NP = sorted(TR.NP_DRAWS)

    def __init__(self):
        self.events = []
        self.saved = []

    def _wrap(self, mod, name, kind, src):
        orig = getattr(mod, name, None)
        if orig is None or not callable(orig):
            return
        ev = self.events

        if kind == "ctor":
            def w(*a, **k):
                vals = list(a) + list(k.values())
                if not vals or all(v is None for v in vals):
                    return _EntropyGen(orig(*a, **k), ev)      # creation is not a draw; its use is
                if len(vals) == 1 and isinstance(vals[0], _EntropyGen):
                    return vals[0]                             # default_rng(generator) is that generator
                return orig(*a, **k)
        else:
            def w(*a, **k):
                ev.append((kind, src, name))
                return orig(*a, **k)
        self.saved.append((mod, name, orig))
        setattr(mod, name, w)

    def __enter__(self):
        for n in self.PY:
            self._wrap(random, n, "draw", "pyGlobal")
        self._wrap(random, "seed", "seed", "pyGlobal")
        for n in self.NP:
            self._wrap(np.random, n, "draw", "npGlobal")
        self._wrap(np.random, "seed", "seed", "npGlobal")
        self._wrap(np.random, "default_rng", "ctor", None)
        self.py0, self.np0 = random.getstate(), _npstate()
        return self

    def __exit__(self, *a):
        self.py1, self.np1 = random.getstate(), _npstate()
        for mod, name, orig in reversed(self.saved):
            setattr(mod, name, orig)
        self.saved = []

    def touched(self):
        t = set()
        if self.py0 != self.py1:
            t.add("pyGlobal")
        if self.np0 != self.np1:
            t.add("npGlobal")
        return t

    def drew(self):
        return {s for k, s, _ in self.events if k == "draw"}

    def discipline_ok(self):
        seeded = set()
        for k, s, _ in self.events:
            if k == "seed":
                seeded.add(s)
            elif s == "osEntropy" or (s in ("pyGlobal", "npGlobal") and s not in seeded):
                return False
        return True


def _npstate():
    s = np.random.get_state()
    return (s[0], s[1].tobytes(), s[2], s[3], s[4])


def call(fn, expr, seed, record=True):
    """returns (outcome, snapshot or exception name, recorder)"""
    args, kw = build_args(expr)
    rec = Recorder()
    try:
        with warnings.catch_warnings():
            warnings.simplefilter("ignore")
            if record:
                with rec:
                    out = fn(*args, seed=seed, **kw)
            else:
                out = fn(*args, seed=seed, **kw)
    except Exception as e:  # noqa
        return "raise", type(e).__name__, rec
    return "ok", snapshot(out), rec


def perturb(rng, fn, expr, seed):
    """what other code may do between the two calls: draw from and reseed both global generators, and call the
    same function with another seed"""
    mode = rng.randrange(4)
    for _ in range(rng.randint(1, 5)):
        random.random()
        np.random.rand()
    if mode in (1, 3):
        random.seed(rng.randrange(10 ** 6))
        np.random.seed(rng.randrange(10 ** 6))
    if mode in (2, 3):
        random.sample(range(50), 7)
        np.random.choice(20, size=3)
    other = int(seed) + 1 + rng.randrange(1000) if isinstance(seed, (int, np.integer)) else rng.randrange(1000)
    call(fn, expr, other, record=False)
    if mode == 0:
        random.random()
        np.random.random()
    return mode


# ----------------------------------------------------------------------------------------------------------
# discovery

def discover():
    """every callable of the imported xgi package that has a `seed` parameter: name -> (callable, public?).
    One implementation with the list `introspected` of the generated Lean file: harness/c17_translate.py."""
    found, private, errors = TR.introspect_here()
    out = {n: (f, True) for n, f in found.items()}
    out.update({n: (f, False) for n, f in private.items() if n not in out})
    return out


def guessed_grid(fn):
    out = []
    ps = inspect.signature(fn).parameters
    req = [p for p, v in ps.items() if v.default is inspect.Parameter.empty and v.kind in (v.POSITIONAL_ONLY, v.POSITIONAL_OR_KEYWORD)
           and p != "seed"]
    if not all(p in GUESS for p in req):
        return out
    for i in range(2):
        out.append("((" + "".join(GUESS[p][i % len(GUESS[p])] + ", " for p in req) + "), {})")
    return out


def option_plan(ctx, name, fn, bases, accepted):
    """OPTION tuples for one function, derived from its signature.
    For every parameter with a default other than `seed` (and, if the function has **kwargs, for every keyword of
    KW_CAND that is not a named parameter) find argument tuples that bind it to a non-default value and are accepted
    (`accepted(expr)`): at least one per parameter in every run - the candidates are tried in an order drawn from
    ctx.rng until `want` are accepted, so which value / which base tuple is used varies with VERIF_SEED while the
    coverage of the parameters does not.  Then some combinations of several options (drawn from ctx.rng).
    Returns (list of expr, {option: [values exercised]}, {option: reason it could not be exercised})"""
    r = ctx.rng
    sig = inspect.signature(fn)
    opts = []
    for p, par in sig.parameters.items():
        if p == "seed":
            continue
        if par.kind is par.VAR_KEYWORD:
            opts += [("**" + k, None, list(vs)) for k, vs in KW_CAND.items() if k not in sig.parameters]
        elif par.kind is not par.VAR_POSITIONAL and par.default is not inspect.Parameter.empty:
            opts.append((p, par.default, candidates_for(name, p, par.default)))
    exprs, exercised, failed, single = [], {}, {}, {}
    want = ctx.n(2, 3)
    for opt, default, cands in opts:
        key = opt.lstrip("*")
        trials = []
        for c in cands:
            if c.startswith("full:"):
                trials.append((c[5:], c[5:]))
            else:
                trials += [(with_opts(b, {key: c}), c) for b in bases]
        r.shuffle(trials)
        got = []
        # a base tuple may bind the option already (e.g. positionally): that counts, and is free
        for b in bases:
            nd = bound_nondefault(fn, b)
            if nd and opt in nd:
                got.append("<base tuple>")
                break
        for expr, val in trials:
            if len([g for g in got if g != "<base tuple>"]) >= want:
                break
            nd = bound_nondefault(fn, expr)
            if nd is None or opt not in nd:
                continue                      # does not bind / the value equals the default after all
            if expr in exprs or accepted(expr):
                if expr not in exprs:
                    exprs.append(expr)
                got.append(val if len(val) < 60 else val[:57] + "...")
                if not val.startswith("(("):
                    single.setdefault(key, []).append(val)
        if got:
            exercised[opt] = got
        else:
            failed[opt] = ("no candidate value known for this parameter" if not cands else
                           f"none of {len(trials)} candidate tuples was accepted with a non-default value")
    # combinations of several options on one base tuple
    keys = sorted(single)
    for _ in range(ctx.n(3, 6) if len(keys) >= 2 else 0):
        pick = r.sample(keys, r.randint(2, min(3, len(keys))))
        expr = with_opts(r.choice(bases), {k: r.choice(single[k]) for k in pick})
        if expr not in exprs and accepted(expr):
            exprs.append(expr)
            exercised.setdefault("<combinations>", []).append("+".join(sorted(pick)))
    return exprs, exercised, failed


# ----------------------------------------------------------------------------------------------------------

class Checker:
    def __init__(self, ctx, table_info):
        self.ctx = ctx
        self.info = table_info          # name -> dict(ok, draw:set, seed:set)
        self.dis = []                   # broken correspondence translator~implementation
        self.not_exercised = {}
        self.exercised = set()
        self.sampled = set()
        self.params_called = {}         # function -> options bound to a non-default value in a call that completed

    def check(self, name, fn, expr, seed, repeats=1, validate=True):
        """the C17 predicate on the implementation: True = held"""
        ctx = self.ctx
        k1, s1, r1 = call(fn, expr, seed)
        held = True
        for rep in range(repeats):
            mode = perturb(ctx.rng, fn, expr, seed)
            k2, s2, r2 = call(fn, expr, seed)
            ctx.evaluations += 1
            ctx.stats[f"fn:{name}"] += 1
            ctx.stats[f"perturbation:{mode}"] += 1
            if k1 == "raise" and k2 == "raise" and s1 == s2:
                if call(fn, expr, seed, record=False)[0] == "ok":
                    raise Infra(f"wrapping the RNG entry points changed the outcome of {name}(*{expr}, seed={seed}): {s1}")
                ctx.stats["outcome:raises"] += 1
                return None
            if (k1, s1) != (k2, s2):
                held = False
                case = {"function": name, "args": expr, "seed": seed_repr(seed), "repeats": rep + 1}
                if seed_type(seed):
                    case["seed_type"] = seed_type(seed)
                ctx.violation(name, FAIL, case, detail=f"{name}(*{expr}, seed={seed!r}) called twice gave "
                              f"{_short(s1)} and then {_short(s2)}")
                break
        ctx.stats["outcome:ok" if held else "outcome:differs"] += 1
        self.exercised.add(name)
        self.params_called.setdefault(name, set()).update(bound_nondefault(fn, expr) or ())
        if held and nontrivial(s1) and (r1.events or r1.touched() or self.info.get(name, {}).get("draw")):
            ctx.nontrivial.add(jhash([name, expr, seed_repr(seed), seed_type(seed), s1]))
        if name not in self.sampled:
            self.sampled.add(name)
            ctx.sample(f"{name}(*{expr}, seed={seed}) -> {_short(s1)}  [global sources drawn: {sorted(r1.drew())}; "
                       f"state changed: {sorted(r1.touched())}]", cap=30)
        if validate:
            for r in (r1, r2):
                self.validate(name, expr, seed, r)
        return held

    def check_same_objects(self, name, fn, expr, seed):
        """HELD-OBJECT family: ref = f(freshly built args, seed); then on ONE set of argument objects: f(args, other seed);
        draw from the global generators; f(args, seed); reseed; f(args, seed) again - both must equal ref.  Catches results
        memoised per argument object under a key that lacks the seed.  If a call changes its arguments (observable snapshot), the later calls no longer have `the same
        arguments`: counted, not compared (that is C08's subject)."""
        ctx = self.ctx
        try:
            args, kw = build_args(expr)
        except Exception:  # noqa
            return None

        def one(sd):
            try:
                with warnings.catch_warnings():
                    warnings.simplefilter("ignore")
                    return "ok", snapshot(fn(*args, seed=sd, **kw))
            except Exception as e:  # noqa
                return "raise", type(e).__name__

        def fresh(sd):
            try:
                a2, k2 = build_args(expr)
                with warnings.catch_warnings():
                    warnings.simplefilter("ignore")
                    return "ok", snapshot(fn(*a2, seed=sd, **k2))
            except Exception as e:  # noqa
                return "raise", type(e).__name__

        def unchanged():
            if repr(snapshot([list(args), kw])) == a0:
                return True
            ctx.stats["same-objects:argument-changed-by-the-call"] += 1
            return False

        a0 = repr(snapshot([list(args), kw]))
        ref = fresh(seed)                                   # the reference: freshly built arguments
        other = int(seed) + 1 + ctx.rng.randrange(1000)
        one(other)                                          # the held objects first see ANOTHER seed
        if not unchanged():
            return None
        for _ in range(ctx.rng.randint(1, 3)):
            random.random()
            np.random.rand()
        r1 = one(seed)
        if not unchanged():
            return None
        if ctx.rng.random() < 0.5:
            random.seed(ctx.rng.randrange(10 ** 6))
            np.random.seed(ctx.rng.randrange(10 ** 6))
        r2 = one(seed)
        ctx.evaluations += 1
        ctx.stats["same-objects"] += 1
        if ref[0] == "raise" and r1 == ref and r2 == ref:
            return None
        if not (ref == r1 == r2):
            case = {"function": name, "args": expr, "seed": seed_repr(seed), "same_objects": True, "other_seed": other}
            if seed_type(seed):
                case["seed_type"] = seed_type(seed)
            ctx.violation(name, FAIL, case, detail=f"{name}(*{expr}, seed={seed!r}): freshly built arguments gave {_short(ref[1])}; the SAME "
                          f"argument objects, after a call with seed={other}, gave {_short(r1[1])} and then {_short(r2[1])}")
            return False
        return True

    def validate(self, name, expr, seed, rec):
        """RNG consumption observed on the real code ⊆ what the table says; discipline agrees"""
        ctx = self.ctx
        inf = self.info.get(name)
        if inf is None:
            return
        ctx.traces += 1
        drew, touched = rec.drew(), rec.touched()
        allowed = inf["draw"] | ({"pyGlobal", "npGlobal", "osEntropy"} if "unknown" in inf["draw"] else set())
        extra = drew - allowed
        extra_t = touched - allowed - inf["seed"] - inf.get("maybe", set())
        problem = None
        if extra:
            problem = f"{name} drew from {sorted(extra)} but the table attributes only {sorted(inf['draw'])} to it"
        elif extra_t:
            problem = f"{name} changed the state of {sorted(extra_t)} which the table says it neither seeds nor draws from"
        elif inf["ok"] and not rec.discipline_ok():
            problem = f"{name} is well seeded in the table but the observed order of seed/draw events is not: {rec.events[:6]}"
        if problem:
            ctx.stats["translator-mismatch"] += 1
            if not any(d["function"] == name for d in self.dis):
                self.dis.append({"function": name, "args": expr, "seed": seed, "problem": problem})


def _short(s):
    t = json.dumps(s)
    return t if len(t) <= 160 else t[:157] + "..."


def table_facts(ctx, tab):
    """ask the Lean driver: which functions are well seeded, which sources they touch; sanity of the semantics"""
    names = [e["key"] for e in tab]
    reqs = [{"op": "fns"}]
    for n in names:
        reqs += [{"op": "wellSeeded", "f": n}, {"op": "touched", "f": n}] + [{"op": "exec", "f": n, "seed": 3, "world": k} for k in (0, 1, 2)]
    resp = run_driver("C17", reqs)
    if sorted(resp[0]["fns"]) != sorted(names):
        raise Infra("driver table differs from the translator's table (stale build?)")
    info = {}
    for i, n in enumerate(names):
        ws, t, e0, e1, e2 = resp[1 + 5 * i: 6 + 5 * i]
        info[n] = dict(ok=ws["ok"], first_bad=ws.get("eff"), effs=ws["effs"], draw=set(t["draw"]), seed=set(t["seed"]),
                       traces=[e0["trace"], e1["trace"], e2["trace"]])
        # seeding calls the discipline gives no credit for (under a test that is not a test of the seed, e.g.
        # `if isinstance(seed, int): random.seed(seed)`): the function MAY reseed that source - own sites and those of its callees
        own = {e["key"]: set(e.get("maybe_seed", [])) for e in tab}
        callees = {e["key"]: {x[1] for x in e["effs"] if x[0] in ("forwardSeed", "callUnseeded")} for e in tab}
        seen, todo, maybe = set(), [n], set()
        while todo:
            k = todo.pop()
            if k in seen:
                continue
            seen.add(k)
            maybe |= own.get(k, set())
            todo += list(callees.get(k, ()))
        info[n]["maybe"] = maybe
        same = e0["trace"] == e1["trace"] == e2["trace"]
        if ws["ok"] and not same:
            ctx.broken.append(f"model sanity: {n} is wellSeeded but its model traces differ between worlds")
        ctx.stats["model:well-seeded" if ws["ok"] else "model:ill-seeded"] += 1
        if not ws["ok"]:
            ctx.stats["model:ill-seeded-trace-differs"] += 0 if same else 1
    return info, resp[0]


def run(ctx):
    warnings.simplefilter("ignore")
    # translate -> build -> audit is one critical section under the project lock (core.build_and_audit)
    try:
        ok = build_and_audit(ctx, "XgiModel.Props.C17", ["XgiModel.C17.Drive"], translate=TR.translate)
    except (SyntaxError, FileNotFoundError) as e:
        raise Infra(f"translator cannot read the source: {e}")
    except TR.TreeMismatch as e:
        raise Infra(str(e))
    tab, notes, changed, lean_public = TR.LAST["table"], TR.LAST["notes"], TR.LAST["changed"], TR.LAST["introspected"]
    if not TR._same_tree(TR.LAST["repo"]):
        raise Infra(f"`import xgi` resolves to {os.path.dirname(xgi.__file__)} but the translator reads {TR.LAST['repo']}/xgi "
                    "(XGI_REPO without PYTHONPATH? use ./check): refusing to test one tree against the table of another")
    build_errors = []
    if not ok:
        good, out = lean_build(["XgiModel.C17.Drive"])
        if not good:
            raise Infra("generated SeedTable.lean / driver does not build: " + out[-800:])
        build_errors = _failed_theorems(ctx)
        _partial_audit(ctx)
    info, drv = table_facts(ctx, tab)
    if sorted(drv["introspected"]) != sorted(lean_public):
        raise Infra("driver's `introspected` differs from the translator's (stale build?)")
    ill = sorted(n for n, i in info.items() if not i["ok"])
    if ill:
        ctx.broken.append("C17_table: not well seeded in the current source: " +
                          ", ".join(f"{n} (first offending effect: {info[n]['first_bad']})" for n in ill))
    if ok and (ill or drv["introspectedBad"]):
        ctx.broken.append("inconsistent: Props/C17 built although the driver finds ill-seeded / missing functions")

    found = discover()
    public = {n: f for n, (f, p) in found.items() if p}
    if sorted(public) != sorted(lean_public):
        raise Infra("in-process introspection differs from the list rendered into SeedTable.lean")
    missing = sorted(set(public) - set(info))
    if missing:
        ctx.broken.append("C17_introspected_well_seeded: public callables with a `seed` parameter (found by importing the package) "
                          f"that have no entry in the table translated from the source: {missing}")
    ch = Checker(ctx, info)
    seeds = list(SEEDS_QUICK if ctx.quick else SEEDS_THOROUGH) + [ctx.rng.randrange(2 ** 32) for _ in range(ctx.n(1, 6))]
    # option tuples get fewer seeds each in the quick tier (there are many of them): one fixed, one drawn
    seeds_opt = ([1, ctx.rng.randrange(2 ** 32)] if ctx.quick else seeds)
    grid, optgrid, unusable = {}, {}, []
    options_exercised, options_failed = {}, {}

    def accepted_by(n, f):
        def acc(expr):
            try:
                build_args(expr)
                k, s, _ = call(f, expr, 0, record=False)
            except Exception as e:  # noqa
                unusable.append(f"{n}: {expr}: {type(e).__name__}")
                return False
            if k != "ok":
                unusable.append(f"{n}(*{expr}) raises {s}")
            return k == "ok"
        return acc

    for n, f in sorted(public.items()):
        g = list(GRID.get(n) or guessed_grid(f))
        g += [e for e in REGIME.get(n, []) if e not in g]
        if n in TEMPLATES:
            g += [TEMPLATES[n](ctx.rng) for _ in range(ctx.n(1, 8))]
        acc = accepted_by(n, f)
        usable = [expr for expr in g if acc(expr)]
        if usable:
            grid[n] = usable
            optgrid[n], options_exercised[n], options_failed[n] = option_plan(ctx, n, f, usable, acc)
        else:
            ch.not_exercised[n] = "no argument tuple of the grid is accepted" if g else "no arguments known for this signature"

    # corpus of past failures first
    for p in sorted(glob.glob(os.path.join(VERIF, "corpus", "C17", "*.json"))):
        c = json.load(open(p)).get("case", {})
        if c.get("function") in public:
            ch.check(c["function"], public[c["function"]], c["args"], seed_of(c), repeats=c.get("repeats", 1))
            ctx.stats["corpus"] += 1

    np_seeds = {}
    for n, exprs in grid.items():
        regime = set(REGIME.get(n, []))
        for expr in exprs:
            # regime tuples (large inputs) get fewer seeds each in the quick tier
            for s in (seeds if not (ctx.quick and expr in regime) else [seeds[0], seeds[-1]]):
                ch.check(n, public[n], expr, s, repeats=ctx.n(1, 3))
            if expr in regime:
                ctx.stats["regime-tuples"] += 1
        # seeds that are numpy integer scalars, on two base tuples; kept for the targeted search when accepted
        for expr in exprs[:2]:
            for tname, ty in NP_SEED_TYPES.items():
                sd = ty(ctx.rng.choice([0, 3, ctx.rng.randrange(2 ** 31 - 1)]))
                if ch.check(n, public[n], expr, sd, repeats=ctx.n(1, 3)) is not None:
                    ctx.stats[f"seed-type:numpy.{tname}:accepted"] += 1
                    np_seeds.setdefault(n, []).append(sd)
                else:
                    ctx.stats[f"seed-type:numpy.{tname}:raises"] += 1
        # the same argument objects passed to every call
        for expr in exprs:
            ch.check_same_objects(n, public[n], expr, ctx.rng.choice(seeds))
        for expr in optgrid.get(n, []):
            ctx.stats["option-tuples"] += 1
            for s in seeds_opt:
                ch.check(n, public[n], expr, s, repeats=ctx.n(1, 3))

    # every defaulted parameter must have been passed a non-default value in a call that completed
    never = {}
    for n in grid:
        ps = inspect.signature(public[n]).parameters
        want = {p for p, v in ps.items() if p != "seed" and v.default is not inspect.Parameter.empty
                and v.kind not in (v.VAR_KEYWORD, v.VAR_POSITIONAL)}
        lack = sorted(want - ch.params_called.get(n, set()))
        if lack:
            never[n] = lack

    # --- verdict -------------------------------------------------------------------------------------------
    if ch.dis:
        for d in ch.dis:
            ctx.broken.append("translator~implementation: " + d["problem"])
    # (callers of an ill-seeded private helper are ill-seeded themselves: wellSeeded follows calls)
    suspects = sorted(set(x for x in ill if x in public) | {d["function"] for d in ch.dis})
    concrete = {v["site"] for v in ctx.violations if v["kind"] == "concrete"}
    for n in suspects:
        if n in concrete or n not in grid:
            continue
        # targeted search: more seeds, more repetitions (entropy-dependent results need not differ every time)
        t_end = time.time() + ctx.n(12, 240)
        for expr in grid[n] + optgrid.get(n, []):
            for s in np_seeds.get(n, [])[:3] + SEEDS_THOROUGH + [ctx.rng.randrange(2 ** 32) for _ in range(ctx.n(4, 20))]:
                if time.time() > t_end:
                    break
                ctx.stats["targeted-search"] += 1
                if ch.check(n, public[n], expr, s, repeats=ctx.n(4, 8), validate=False) is False:
                    break
            if n in {v["site"] for v in ctx.violations}:
                break
    concrete = {v["site"] for v in ctx.violations if v["kind"] == "concrete"}
    unexplained = [n for n in ill if n not in concrete and not (n not in public and _callers_concrete(n, tab, concrete))]
    table_thms = ("C17_table", "C17_introspected_well_seeded", "C17_same_seed_same_draws")   # fail when the table instance fails
    other_errors = [e for e in build_errors if e not in table_thms]
    if not ok and not build_errors and not ill and not missing:
        other_errors = ["<build/audit failed>"]
    for n in unexplained:
        ctx.violation(n, "not-well-seeded", {"function": n, "effects": info[n]["effs"], "first_offending": info[n]["first_bad"],
                                              "broken": ["C17_table"]},
                      detail=f"C17_table fails for {n}: {info[n]['first_bad']}; no differing pair of calls found",
                      kind="unproven", broken=["C17_table"])
    from ..core import is_known
    for d in ch.dis:
        if d["function"] not in concrete:
            # an OS-entropy draw observed inside a call that a listed finding already explains (same function, same
            # arguments: SciPy's ARPACK restarts in spectral_clustering) is that finding seen by the recorder, not a new one
            as_known = dict(kind="concrete", site=d["function"], failure_class=FAIL, case=d, detail=d["problem"])
            if "osEntropy" in d["problem"] and is_known(ctx, as_known):
                ctx.violation(d["function"], FAIL, d, detail=d["problem"])
                continue
            ctx.violation(d["function"], "translator-mismatch", d, detail=d["problem"], kind="unproven",
                          broken=["translator~implementation"])
    for n in missing:
        if n not in concrete:
            ctx.violation(n, "not-in-table", {"function": n, "broken": ["C17_introspected_well_seeded"]},
                          detail=f"{n} is a public callable with a `seed` parameter (import xgi + inspect.signature) but the AST "
                                 "translator has no entry for it: nothing is proved about it; no differing pair of calls found",
                          kind="unproven", broken=["C17_introspected_well_seeded"])
    if other_errors or any(b.startswith(("model sanity", "inconsistent")) for b in ctx.broken):
        # something else than the table instance broke: no concrete input can explain that
        ctx.violation("model-tie", "unproven", {"broken": ctx.broken, "theorems": other_errors}, detail="; ".join(ctx.broken)[:500],
                      kind="unproven", broken=ctx.broken)

    ctx.rule = ("every public callable of xgi with a `seed` parameter (import xgi + inspect.signature over all public modules) x "
                "argument tuples x seeds: call, perturb (draw from / reseed random and numpy.random, call f with another seed; 4 modes "
                "chosen by the PRNG), call again with rebuilt arguments, compare exactly (structure, attributes, float positions).  "
                "Argument tuples = fixed base tuples (floor, seeds: fixed list incl. 0 [thorough: and 2^32-1] plus seeds from VERIF_SEED; numpy-integer "
                "seeds on two tuples per function) + REGIME tuples (>= 70 nodes, str / > 2**53 / tuple labels, a Hypergraph subclass, p < 1e-8 on "
                "2000-3000 nodes, a disconnected hypergraph of twin nodes; 2 seeds each in the quick tier) + every base tuple once more with the SAME "
                "argument objects in all calls "
                "+ base tuples drawn from VERIF_SEED + OPTION tuples derived from the signature: every parameter with a default other "
                "than `seed`, and for functions with **kwargs the keywords of networkx.spring_layout (iterations, scale, threshold, "
                "k, ...), is bound to a non-default value in at least one completed call of every run; candidate values come from a "
                "table keyed by (function, parameter) / parameter name / type of the default; which value, on which base tuple, and "
                "which combinations of options are used is drawn from VERIF_SEED (option tuples: 2 seeds each in the quick tier).  "
                "non-trivial = distinct (function, args, seed, result) whose result is not tiny and whose function consumes randomness")
    ctx.assumptions = [
        "single interpreter process, single thread; floats of layouts compared exactly between the two calls (no tolerance)",
        "seeds: Python ints (fixed list + drawn) and numpy integer scalars (int64 / int32 / uint32) on two base tuples per function; a seed type "
        "that the function rejects in both calls (TypeError of random.seed for numpy integers under Python 3.12; RandomState instances) is "
        "outcome `raises`, not judged here",
        "`the same arguments`: equal values.  Arguments are rebuilt for every call; in the held-object family the same objects are passed to all "
        "calls and a call that changes its argument (uniform_hypergraph_configuration_model writes the remainder adjustment into the caller's "
        "dict k) ends the comparison for that tuple (counted, not a C17 matter)",
        "PROVED (Lean): equality of the draw traces of the flattened effect list under the seeding discipline, for all generator "
        "families and all worlds (wellSeeded_sound); the discipline holds for every entry of the regenerated table (C17_table, by "
        "decide); every public seeded callable found by importing the package has a well-seeded entry (C17_introspected_well_seeded, "
        "by decide, against a list that is not rendered from the table); hence C17_same_seed_same_draws for exactly those functions",
        "DECIDED AT RUN TIME ONLY: that equal draws give identical *output* (double-call comparison on the argument tuples above - set/"
        "dict order, data-dependent draw counts, library internals are invisible to the model); that the table is a faithful reading "
        "of the Python text (loops/branches flattened to one effect per call site; validated by wrapping random.*, numpy.random.*, "
        "default_rng and diffing both global generator states around every call)",
        "TRUSTED: harness/c17_translate.py incl. its explicit classification tables (random / numpy.random functions; networkx "
        "seed= -> local generator, without seed -> the global generator it falls back to; eigsh without v0/rng -> OS entropy, an "
        "explicit v0 makes it deterministic, ARPACK restarts not modelled; pure namespaces; deterministic builtins and method "
        "names); a call it cannot resolve is `draw unknown` (fails the discipline), never dropped",
        "OUTSIDE THE MODEL: callables supplied by the caller as arguments; float nondeterminism of BLAS threading; hash randomisation "
        "across processes (./check pins PYTHONHASHSEED); functions without a `seed` parameter; the argument space is sampled, not "
        "enumerated",
    ]
    ctx.exhaustive = not ch.not_exercised and not missing
    ctx.extra["exhaustive_space"] = ("ONLY the finite set of public callables with a `seed` parameter is enumerated completely (import xgi + "
                                     "inspect.signature): every one has an entry in the regenerated table, was called, and had its RNG "
                                     "consumption checked against the table.  The argument space is sampled (see rule), not enumerated."
                                     if ctx.exhaustive else "not exhaustive: see not_exercised / missing_from_table")
    ctx.extra.update(
        seeded_functions_discovered=sorted(public), private_seeded=sorted(n for n, (f, p) in found.items() if not p),
        ast_public_not_importable=sorted(set(drv["public"]) - set(public)), missing_from_table=missing,
        introspection=TR.LAST["how"], introspection_import_errors=TR.LAST["import_errors"],
        exercised=sorted(ch.exercised), not_exercised=ch.not_exercised, argument_tuples_rejected=unusable[:60], seeds=seeds,
        seeds_for_option_tuples=seeds_opt,
        options_exercised=options_exercised, options_not_exercisable={n: d for n, d in options_failed.items() if d},
        defaulted_parameters_never_given_a_non_default_value=never,
        option_tuples={n: len(v) for n, v in optgrid.items()},
        table={n: i["effs"] for n, i in info.items()}, ill_seeded=ill, translator_notes=notes,
        table_regenerated=changed, disagreements=ch.dis,
        sources_attributed={n: sorted(i["draw"]) for n, i in info.items()},
    )
    return finish(ctx, trusted_base=TRUSTED_COMMON + [
        "harness/c17_translate.py (ast walk, import + local-alias resolution, inlining of unseeded helpers; explicit classification "
        "tables of random / numpy.random / networkx / scipy calls, pure namespaces, deterministic builtins and method names; "
        "unresolved calls -> `draw unknown`); its introspection half (import xgi + inspect.signature) for the list `introspected`",
        "the effect semantics of lean/XgiModel/C17/Rng.lean as a description of CPython's `random`, numpy's global RandomState and "
        "seeded local generators (streams determined by the seed)"])


def _callers_concrete(n, tab, concrete):
    """a private ill-seeded helper is explained when a public caller has a concrete violation"""
    for e in tab:
        if e["key"] in concrete and any(x[0] in ("forwardSeed", "callUnseeded") and x[1] == n for x in e["effs"]):
            return True
    return False


def _partial_audit(ctx):
    """Props/C17.lean did not build as a whole (a table instance fails on this source).  Elaborate the file once more
    with `#print axioms` appended: Lean keeps going after a failed proof (the failed theorem is admitted with `sorryAx`,
    and so is everything that uses it), so the theorems that still check are exactly those whose axioms are admissible.
    The scratch file is private to this process and removed afterwards."""
    from ..core import ALLOWED_AXIOMS, OUT, run_proc, theorems_of
    import subprocess
    thms = theorems_of("XgiModel.Props.C17")
    src = open(os.path.join(LEAN, "XgiModel", "Props", "C17.lean")).read()
    os.makedirs(OUT, exist_ok=True)
    fd, tmp = tempfile.mkstemp(prefix=f"C17_partial_audit.{os.getpid()}.", suffix=".lean", dir=OUT)
    try:
        with os.fdopen(fd, "w") as f:
            f.write(src + "\n" + "".join(f"#print axioms {t}\n" for t in thms))
        try:
            p = run_proc(["lake", "env", "lean", tmp], cwd=LEAN, timeout=900)
        except subprocess.TimeoutExpired:
            return
    finally:
        try:
            os.remove(tmp)
        except OSError:
            pass
    flat = re.sub(r"\s+", " ", p.stdout + p.stderr)
    done = []
    for t in thms:
        m = re.search(r"'" + re.escape(t) + r"' depends on axioms: \[([^\]]*)\]", flat)
        if m and {a.strip() for a in m.group(1).split(",") if a.strip()} <= ALLOWED_AXIOMS:
            done.append(t)
        elif re.search(r"'" + re.escape(t) + r"' does not depend on any axioms", flat):
            done.append(t)
    from ..core import FORBIDDEN, _strip_comments, import_closure, module_file
    for mod in import_closure("XgiModel.Props.C17"):
        for line in _strip_comments(open(module_file(mod)).read()).split("\n"):
            if FORBIDDEN.search(line):
                done = []
                ctx.audit["problems"].append(f"forbidden token in {mod}: {line.strip()[:80]}")
    ctx.audit["theorems"], ctx.audit["discharged"] = thms, done
    ctx.extra["partial_audit"] = ("Props/C17.lean fails as a module; theorems still checking when elaborated with error recovery: "
                                  + ", ".join(done))


def _failed_theorems(ctx):
    """names of the theorems of Props/C17.lean at which the build reported errors"""
    src = open(os.path.join(LEAN, "XgiModel", "Props", "C17.lean")).read().split("\n")
    out = []
    for b in ctx.broken + (ctx.audit or {}).get("problems", []):
        for m in re.finditer(r"Props/C17\.lean:(\d+):", b):
            ln = int(m.group(1))
            name = "<unknown>"
            for i in range(min(ln, len(src)) - 1, -1, -1):
                mm = re.match(r"\s*(theorem|example|def|lemma)\s*([\w.']*)", src[i])
                if mm:
                    name = mm.group(2) or f"example@{i + 1}"
                    break
            if name not in out:
                out.append(name)
    return out


def replay(ctx, path):
    c = json.load(open(path))
    case = c.get("case", c)
    found = discover()
    name = case["function"]
    if name not in found or "args" not in case:
        print(f"cannot replay {path}: function {name!r} not found or no arguments recorded")
        return 2
    fn = found[name][0]
    if case.get("same_objects"):
        # held-object replay: fresh arguments vs one set of argument objects that first saw another seed
        sd = seed_of(case)
        a2, k2 = build_args(case["args"])
        ref = json.dumps(snapshot(fn(*a2, seed=sd, **k2)))
        args, kw = build_args(case["args"])
        fn(*args, seed=case.get("other_seed", int(sd) + 1), **kw)
        got = [json.dumps(snapshot(fn(*args, seed=sd, **kw))) for _ in range(2)]
        print(f"{name}(*{case['args']}, seed={sd!r}): fresh arguments vs held arguments after another seed: "
              f"{'equal' if got[0] == got[1] == ref else 'DIFFERENT'}")
        if not (got[0] == got[1] == ref):
            print(f"VIOLATION property=C17 replay={path}")
            return 1
        return 0
    outs = []
    for i in range(max(2, case.get("repeats", 1) + 1) + 4):
        k, s, _ = call(fn, case["args"], seed_of(case), record=False)
        outs.append((k, json.dumps(s)))
        random.random(); np.random.rand()
    distinct = len(set(outs))
    print(f"{name}(*{case['args']}, seed={case['seed']}): {len(outs)} calls, {distinct} distinct result(s)")
    if distinct > 1:
        print(f"VIOLATION property=C17 replay={path}")
        return 1
    return 0
