"""C05 — each edit has exactly its documented effect (refinement of the executable spec = the Lean model)."""
from .. import dhg as MD
from .. import hg as MH
from .. import sc as MS
from .c02 import FULL as FIELDS_D, derive as derive_d
from .c03 import FIELDS as FIELDS_S
from ..core import unlisted_violations  # noqa: E402
from ..core import TRUSTED_COMMON, build_and_audit, finish
from ..sm import run_sm

FIELDS = ["out", "nodes", "edges", "mem", "memb", "nattr", "eattr", "nattrK", "eattrK", "net", "uid", "frozen"]


def pred_hg(snap, op, prev, exc):
    """clauses of C05 that can be read off the implementation alone"""
    fails = []
    name = op["op"]
    if name in ("double_edge_swap", "random_edge_shuffle"):
        if snap["out"] == "ok":
            deg = lambda s: [[n, len(es)] for n, es in s["memb"]]
            size = lambda s: [[e, len(ms)] for e, ms in s["mem"]]
            for what, f in (("degrees", deg), ("sizes", size)):
                if f(snap) != f(prev):
                    fails.append((f"{what}-changed", f"{name} changed {what}: {f(prev)} -> {f(snap)}"))
            for k in ("nodes", "edges", "nattr", "eattr", "net"):
                if snap[k] != prev[k]:
                    fails.append((f"{k}-changed", f"{name} changed {k}"))
        elif {k: v for k, v in snap.items() if k != "out"} != {k: v for k, v in prev.items() if k != "out"}:
            fails.append(("rejected-move-mutated", f"{name} raised but changed the network"))
    # an edit rejected for a missing / None ID must raise the library's own error type
    if snap["out"].startswith("err") and snap["out"] != "err:lib":
        pn, pe = prev["nodes"], prev["edges"]
        missing = False
        if name in ("remove_node",) and op["n"] not in pn: missing = True
        if name in ("remove_edge",) and op["e"] not in pe: missing = True
        if name == "remove_edges_from" and any(e not in pe for e in op["es"]): missing = True
        if name == "remove_node_from_edge" and (op["e"] not in pe or op["n"] not in pn): missing = True
        if name == "double_edge_swap" and (op["e1"] not in pe or op["e2"] not in pe or op["n1"] not in pn or op["n2"] not in pn): missing = True
        if name == "random_edge_shuffle" and len(pe) >= 2 and (op["e1"] not in pe or op["e2"] not in pe): missing = True
        if name in ("add_node",) and op["n"] is None: missing = True
        if name == "add_node_to_edge" and (op["e"] is None or op["n"] is None): missing = True
        if name == "add_edge" and None in op.get("members", []): missing = True
        if missing:
            fails.append(("wrong-error-type", f"{name} rejected a missing/invalid ID with {snap['out']} ({type(exc).__name__}: {exc})"))
    return fails


def pred_dhg(snap, op, prev, exc):
    """directed: an edit rejected for a missing / None ID raises the library's own error type"""
    fails = []
    name = op["op"]
    if snap["out"].startswith("err") and snap["out"] != "err:lib":
        pn, pe = prev["nodes"], prev["edges"]
        missing = False
        if name == "remove_node" and op.get("n") not in pn: missing = True
        if name == "remove_edge" and op.get("e") not in pe: missing = True
        if name == "remove_edges_from" and any(e not in pe for e in op.get("es", [])): missing = True
        if name == "remove_node_from_edge" and (op.get("e") not in pe or op.get("n") not in pn): missing = True
        if name == "add_node" and op.get("n") is None: missing = True
        if missing:
            fails.append(("wrong-error-type", f"DiHypergraph.{name} rejected a missing/invalid ID with {snap['out']} ({type(exc).__name__}: {exc})"))
    return fails


def build_and_audit_extra(ctx, mods):
    from ..core import lean_build
    ok, out = lean_build(mods)
    if not ok:
        ctx.broken.append("lake build " + " ".join(mods) + " failed")
    return ok


def run(ctx):
    ok = build_and_audit(ctx, "XgiModel.Props.C05", ["XgiModel.Drive.HG", "XgiModel.Props.C05D"], audit_extra=("XgiModel.Props.C05D",))
    ctx.rule = ("histories of 1-30 public mutator calls over the full alphabet and argument shapes; full snapshot "
                "(order, members, memberships, three attribute levels, counter, frozen flag, outcome kind) compared "
                "with the model after every op; non-trivial = distinct full state with an edge of >=2 members after >=2 op kinds")
    extra = []
    if not ctx.quick:
        extra = list(MH.exhaustive_histories(4))
        ctx.exhaustive = True
        ctx.extra["exhaustive_space"] = f"all {len(extra)} op sequences of length <= 4 over the 14-op alphabet of hg.small_alphabet()"
    dis, hist = run_sm(ctx, MH, "HG", FIELDS, pred_hg, ctx.n(300, 12000), extra_histories=extra,
                       corr_name="refinement HG~Hypergraph (full snapshot)")
    # for C05 the model is the transcription of the documentation: a disagreement *is* the failing history
    for d in ctx.extra.get("disagreements", []):
        ctx.violation(d["ops"][-1]["op"], "differs-from-spec:" + ",".join(d["fields"]), {"class": "Hypergraph", "ops": d["ops"]},
                      detail=f"model {d['model']} impl {d['impl']}"[:600])
    # directed class: the model of C02 (lean/XgiModel/C02/DHG.lean), full snapshot
    n0 = len(ctx.extra.get("disagreements", []))
    ok_d = build_and_audit_extra(ctx, ["XgiModel.C02.Drive"])
    run_sm(ctx, MD, "DHG", FIELDS_D, pred_dhg, ctx.n(150, 6000), derive=derive_d, model_ok=ok_d,
           corr_name="refinement DHG~DiHypergraph (full snapshot)")
    for d in ctx.extra.get("disagreements", [])[n0:]:
        ctx.violation("DiHypergraph." + d["ops"][-1]["op"], "differs-from-spec:" + ",".join(d["fields"]),
                      {"class": "DiHypergraph", "ops": d["ops"]}, detail=f"model {d['model']} impl {d['impl']}"[:600])
    # simplicial class: the model of C03 (lean/XgiModel/C03/SC.lean), full snapshot
    n1 = len(ctx.extra.get("disagreements", []))
    ok_s = build_and_audit_extra(ctx, ["XgiModel.C03.Drive"])
    run_sm(ctx, MS, "SC", FIELDS_S, lambda *a: [], ctx.n(60, 2500), hist_len=(1, 18), model_ok=ok_s,
           corr_name="refinement SC~SimplicialComplex (full snapshot)")
    for d in ctx.extra.get("disagreements", [])[n1:]:
        ctx.violation("SimplicialComplex." + d["ops"][-1]["op"], "differs-from-spec:" + ",".join(d["fields"]),
                      {"class": "SimplicialComplex", "ops": d["ops"]}, detail=f"model {d['model']} impl {d['impl']}"[:600])
    ok = ok and ok_d and ok_s
    if not ok and not unlisted_violations(ctx):
        ctx.violation("model-tie", "unproven", {"broken": ctx.broken}, detail="; ".join(ctx.broken)[:500], kind="unproven", broken=ctx.broken)
    ctx.assumptions = ["node labels generated: int (incl. negative, colliding in small hash tables) and str, mixed; edge IDs generated: int (incl. 10**30 and 10**309), str, and the tuple IDs that merge_duplicate_edges(rename='tuple') creates; None as a malformed ID. Tuple NODE labels are in the model's domain but are not generated: the list formats of add_edges_from / add_nodes_from read a leading tuple as (members, id) / (node, attrs) (DESIGN 13.6); bool / float / numpy IDs only in the C04 provenance predicate", "attribute dict key order is not compared (merge rule 'union' iterates a set of strings)",
                       "declarative effect theorems are stated on the undirected model; the directed class is covered by its operational model (C02) compared on the full snapshot; the simplicial class by the C03 model when present"]
    return finish(ctx, trusted_base=TRUSTED_COMMON)


def replay(ctx, path):
    from ..sm import replay_sm
    return replay_sm(ctx, MH, "HG", FIELDS, pred_hg, path)
