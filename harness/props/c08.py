"""C08 — read-only API never mutates the network it is given.

Decided differentially on the real code: every public callable taking a network first (enumerated by
introspection, harness/c08_translate.py) is called on networks of the three classes with generated arguments; the
argument network is compared before/after with a deep snapshot (orders, members, memberships, three attribute
levels incl. dict key order, frozen flag, next automatic edge ID), and nothing mutable reachable from the return
value may be one of the network's own containers (id() walk + in-place mutation of the result).  The Lean part
(Props/C08.lean) proves that the snapshot determines every observer of the model and checks the regenerated API
table; the model's observers are tied to the real views through the C08 driver.
"""
import collections.abc
import contextlib
import copy
import inspect
import io
import itertools
import json
import os
import shutil
import tempfile
import time
import warnings

import xgi

from .. import c08_lib as L
from .. import c08_translate as T
from ..core import Infra, TRUSTED_COMMON, VERIF, build_and_audit, canon, enc_attrs_req, enc_id, finish, idkey, jhash, load_known, run_driver

NET_CLASSES = ("Hypergraph", "DiHypergraph", "SimplicialComplex")
CHEAP_STATS = ("degree", "order", "attrs")
LIGHT_STAT_METHODS = ("asdict", "asnumpy", "aslist")
ALIAS_CLASS = {"node-attrs": "alias-attrs", "edge-attrs": "alias-attrs", "private-state": "alias-net-attrs"}


# ----------------------------------------------------------------------------- targets

class Target:
    def __init__(self, site, kind, params, domain=None, force=None, where=None, bind=None, extra=None, heavy=False, vsite=None):
        self.site, self.kind, self.params, self.domain = site, kind, params, domain
        self.vsite = vsite or site   # site a violation is attributed to: the function that defines the behaviour
        self.force = force or {}
        self.where = where          # net -> object to call on (or None when not admissible)
        self.bind = bind            # (obj) -> callable
        self.extra = extra or {}
        self.heavy = heavy


def _params(fn, drop):
    ps = T.sig_params(fn) if fn is not None else []
    ps = [p for p in (ps or [])[drop:] if p.kind in (p.POSITIONAL_ONLY, p.POSITIONAL_OR_KEYWORD, p.KEYWORD_ONLY)]
    return ps


def _stat_module(view):
    import xgi.stats as st
    return getattr(st, type(view).__name__.lower().replace("view", "stats"), None)


def stat_names(view):
    m = _stat_module(view)
    if m is None:
        return []
    names = set(getattr(m, "__all__", [])) | {n for n, f in vars(m).items() if inspect.isfunction(f) and f.__module__ == m.__name__}
    return sorted(n for n in names if not n.startswith("_") and inspect.isfunction(getattr(m, n, None)))


def defining_site(cls, meth, fn):
    """views share their methods through IDView, and the Mapping mix-ins (get / items / values) are defined by the abc in
    terms of __getitem__: attribute a finding to the function that defines the behaviour"""
    if fn is not None and str(getattr(fn, "__module__", "")).startswith("xgi"):
        return fn.__qualname__
    if cls.endswith("View") and meth in ("get", "items", "values"):
        return "IDView.__getitem__"
    return f"{cls}.{meth}"


def concrete_view_classes():
    out = set()
    for c in NET_CLASSES:
        n = getattr(xgi, c)()
        out |= {type(n.nodes).__name__, type(n.edges).__name__}
    return out


def build_targets(entries):
    """-> (targets, skipped declared mutators)"""
    targets, skipped = [], []
    concrete = concrete_view_classes()
    for e in entries:
        name, kind, fn = e["name"], e["kind"], e["fn"]
        hip, doc_mut = e["hip"], e["doc_mut"]
        if doc_mut and not hip:
            skipped.append(name)
            continue
        force = {"in_place": False} if hip else {}
        if kind == "function":
            dom = "edge" if "edgestats" in name else ("node" if "nodestats" in name else None)
            heavy = name.startswith("xgi.draw") or "layout" in name
            targets.append(Target(name, kind, [p for p in _params(fn, 1) if p.name != "in_place"], dom, force,
                                  where=lambda net: net, bind=(lambda f: (lambda net: (lambda *a, **k: f(net, *a, **k))))(fn), heavy=heavy))
            continue
        cls, meth = name.split(".", 1)
        if cls in NET_CLASSES:
            where = (lambda c: (lambda net: net if type(net).__name__ == c else None))(cls)
        elif cls.endswith("View") and cls in concrete:
            where = (lambda c: (lambda net: net.nodes if type(net.nodes).__name__ == c else (net.edges if type(net.edges).__name__ == c else None)))(cls)
        else:
            continue                                   # stat classes are expanded per network below (need a stat name)
        dom = "edge" if "Edge" in cls else ("node" if "Node" in cls else None)
        if kind == "property":
            targets.append(Target(name, kind, [], dom, {}, where, bind=(lambda m: (lambda obj: (lambda: getattr(obj, m))))(meth),
                                  vsite=defining_site(cls, meth, fn)))
        elif kind == "classmethod":
            targets.append(Target(name, kind, [p for p in _params(fn, 1)], dom, {}, where,
                                  bind=(lambda m: (lambda obj: getattr(type(obj), m)))(meth), extra={"selfview": True},
                                  vsite=defining_site(cls, meth, fn)))
        else:
            ps = [p for p in _params(fn, 1) if p.name != "in_place"] if fn is not None else None
            targets.append(Target(name, kind, ps, dom, force, where, bind=(lambda m: (lambda obj: getattr(obj, m)))(meth),
                                  vsite=defining_site(cls, meth, fn)))
    return targets, skipped


def stat_targets(entries, thorough):
    """targets on stat objects: accessor `view.<stat>` (+ its arguments) and the methods of the stat classes"""
    by_cls = {}
    for e in entries:
        cls, _, meth = e["name"].partition(".")
        if cls.endswith("Stat"):
            by_cls.setdefault(cls, []).append((meth, e["kind"], e["fn"]))
    import xgi.stats as st
    out = []

    for viewsel, vname in ((lambda net: net.nodes, "nodes"), (lambda net: net.edges, "edges")):
        for modname, dom in (("nodestats", "node"), ("edgestats", "edge"), ("dinodestats", "node"), ("diedgestats", "edge")):
            if (dom == "node") != (vname == "nodes"):
                continue
            m = getattr(st, modname)
            vcls = {"nodestats": "NodeView", "edgestats": "EdgeView", "dinodestats": "DiNodeView", "diedgestats": "DiEdgeView"}[modname]
            scls = vcls.replace("View", "Stat")

            def sel(net, _v=viewsel, _c=vcls):
                v = _v(net)
                return v if type(v).__name__ == _c else None
            names = sorted({n for n, f in vars(m).items() if inspect.isfunction(f) and f.__module__ == m.__name__ and not n.startswith("_")})
            for sname in names:
                f = getattr(m, sname)
                ps = _params(f, 2)
                # accessor without and with arguments
                root = f"xgi.stats.{modname}.{sname}"       # stat objects only re-present what the stat function computed
                out.append(Target(f"{vcls}.{sname}", "stat-accessor", [], dom, {}, sel,
                                  bind=(lambda s: (lambda v: (lambda: getattr(v, s))))(sname), vsite=root))
                if ps:
                    out.append(Target(f"{vcls}.{sname}(…)", "stat-accessor", ps, dom, {}, sel,
                                      bind=(lambda s: (lambda v: (lambda *a, **k: getattr(v, s)(*a, **k).asdict())))(sname), vsite=root))
                methods = by_cls.get(scls, [])
                for meth, kind, fn in methods:
                    if meth.startswith("__") and meth not in ("__getitem__", "__iter__", "__len__", "__call__"):
                        continue
                    if sname not in CHEAP_STATS and not (thorough or meth in LIGHT_STAT_METHODS):
                        continue
                    if kind == "property":
                        b = (lambda s, mm: (lambda v: (lambda: getattr(getattr(v, s), mm))))(sname, meth)
                        ps2 = []
                    else:
                        b = (lambda s, mm: (lambda v: getattr(getattr(v, s), mm)))(sname, meth)
                        ps2 = _params(fn, 1) if fn is not None else None
                    if meth == "__call__":
                        ps2 = []
                    out.append(Target(f"{scls}.{meth}", "stat-method", ps2, dom, {}, sel, bind=b, extra={"stat": sname}, vsite=root))
            # multi-stats
            mcls = "Multi" + scls
            two = [n for n in ("degree", "order", "size", "in_degree", "head_order", "clustering_coefficient") if n in names][:2]
            if len(two) == 2 and mcls in by_cls:
                out.append(Target(f"{vcls}.multi", "stat-accessor", [], dom, {}, sel, bind=(lambda nn: (lambda v: (lambda: v.multi(nn))))(two)))
                for meth, kind, fn in by_cls[mcls]:
                    if meth.startswith("__") and meth not in ("__getitem__", "__iter__", "__len__"):
                        continue
                    if kind == "property":
                        b = (lambda nn, mm: (lambda v: (lambda: getattr(v.multi(nn), mm))))(two, meth)
                        ps2 = []
                    else:
                        b = (lambda nn, mm: (lambda v: getattr(v.multi(nn), mm)))(two, meth)
                        ps2 = _params(fn, 1) if fn is not None else None
                    out.append(Target(f"{mcls}.{meth}", "stat-method", ps2, dom, {}, sel, bind=b, extra={"stat": "multi:" + ",".join(two)}))
    return out


# ----------------------------------------------------------------------------- one network under test

class Subject:
    def __init__(self, spec):
        self.spec = spec
        self.rebuild()

    def rebuild(self):
        self.net, self.nested = L.build(self.spec)
        self.before = L.snapshot(self.net)

    def internal_ids(self):
        conts, _ = L.reach(self.net)
        return {i: p for i, (o, p) in conts.items() if i not in self.nested}


def plan_calls(t, net, obj, rng, max_variants, env):
    """[(args, kwargs) as encoded JSON] for one target on one network"""
    if t.params is None:                               # builtin slot wrapper: signature unknown -> fallbacks
        return [([], {})] + [([v], {}) for v in L.FALLBACK[:4]]
    req = [p for p in t.params if p.default is inspect.Parameter.empty and p.kind != p.KEYWORD_ONLY]
    opt = [p for p in t.params if p not in req]
    env["domain"] = t.domain

    def cands(p):
        if t.extra.get("selfview") and p.name == "view":
            return ["$self"]
        try:
            return L.candidates(p.name, net, t.domain, p.default, env)
        except L.NoGen:
            return None
    req_c = []
    for p in req:
        c = cands(p)
        req_c.append(c if c else list(L.FALLBACK))
    base_sets = []
    if req:
        # first choice of every required parameter, then vary one required parameter at a time
        first = [c[0] if c else None for c in req_c]
        base_sets.append(first)
        for i, c in enumerate(req_c):
            for v in c[1:max_variants + 2]:
                b = list(first)
                b[i] = v
                base_sets.append(b)
    else:
        base_sets.append([])
    calls = []
    for b in base_sets:
        calls.append((b, dict(t.force)))
    first = base_sets[0]
    for p in opt:
        c = cands(p)
        if not c:
            continue
        for v in c[:max_variants]:
            if v == p.default and not (isinstance(v, bool) != isinstance(p.default, bool)):
                continue
            kw = dict(t.force)
            kw[p.name] = v
            calls.append((first, kw))
    allfirst = dict(t.force)
    for p in opt:
        c = cands(p)
        if c:
            allfirst[p.name] = c[0]
    if len(allfirst) - len(t.force) >= 2:              # every generated optional parameter at once (needed when defaults are unusable)
        calls.append((first, allfirst))
    if max_variants > 2 and len(opt) > 1:              # thorough: a few random combinations of optional parameters
        for _ in range(3):
            kw = dict(t.force)
            for p in opt:
                c = cands(p)
                if c and rng.random() < 0.5:
                    kw[p.name] = rng.choice(c)
            calls.append((first, kw))
    return [([L.encode(x) for x in a], {k: L.encode(v) for k, v in kw.items()}) for a, kw in calls]


def drain(ret):
    """iterators / generators / mapping views hold frames or references: materialise them before the snapshot"""
    if isinstance(ret, (collections.abc.Iterator, collections.abc.Generator)):
        return list(itertools.islice(ret, 100000))
    if isinstance(ret, (collections.abc.KeysView, collections.abc.ValuesView, collections.abc.ItemsView)):
        return list(ret)
    return ret


def check_call(ctx, t, subj, args, kwargs, env, record=True):
    """perform one call and evaluate the predicate.  Returns (ok_call, exception text, violations)"""
    net = subj.net
    obj = t.where(net)
    env["domain"] = t.domain
    case = {"site": t.site, "network": subj.spec, "args": args, "kwargs": kwargs, "stat": t.extra.get("stat")}
    viol = []
    exc = None
    ret = None
    try:
        f = t.bind(obj)
        a = [obj if x == "$self" else L.resolve(x, net, env) for x in args]
        kw = {k: L.resolve(v, net, env) for k, v in kwargs.items()}
        with warnings.catch_warnings(), contextlib.redirect_stdout(io.StringIO()):
            warnings.simplefilter("ignore")
            ret = drain(L.with_timeout(lambda: f(*a, **kw)))
    except L.CallTimeout as ex:
        exc = "CallTimeout"
    except Exception as ex:  # noqa
        exc = f"{type(ex).__name__}: {str(ex)[:100]}"
    finally:
        if t.heavy or "draw" in t.site:
            import matplotlib.pyplot as plt
            plt.close("all")
    after = L.snapshot(net)
    d = L.diff(subj.before, after)
    if d:
        for cls, detail in d:
            viol.append((cls, f"{t.site}(args={args}, kwargs={kwargs}) on {subj.spec['label']} "
                              f"{'raised ' + exc if exc else 'returned'} and changed its argument: {detail}"))
        subj.rebuild()
    elif exc is None:
        # --- aliasing: nothing mutable reachable from the result may be one of the network's own containers
        conts, live = L.reach(ret)
        internal = subj.internal_ids()
        shared = [(conts[i][1], internal[i]) for i in conts if i in internal]
        ctx.stats["alias:containers-walked"] += len(conts)
        ctx.stats["alias:shared-user-attribute-values"] += sum(1 for i in conts if i in subj.nested)
        ctx.stats["alias:live-views-returned"] += len(live)
        same_object = ret is net
        L.scribble(conts, subj.nested)
        if isinstance(ret, L.NETS) and not same_object and not ret.is_frozen:
            L.mutate_network(ret)
        after2 = L.snapshot(net)
        d2 = L.diff(subj.before, after2)
        if d2:
            for cls, detail in d2:
                viol.append((ALIAS_CLASS.get(cls, "alias-" + cls), f"{t.site}(args={args}, kwargs={kwargs}) on {subj.spec['label']}: mutating the returned "
                                              f"object in place changed the argument ({detail}); shared: {shared[:3]}"))
            subj.rebuild()
        elif shared:
            viol.append(("alias-internal-container", f"{t.site}(args={args}, kwargs={kwargs}) on {subj.spec['label']}: the result "
                                                     f"shares {len(shared)} container(s) with the argument: {shared[:3]}"))
            subj.rebuild()
    if record:
        ctx.evaluations += 1
        for cls, detail in viol:
            if cls.startswith("alias-"):
                # The statement of C08 is about the call itself ("leaves its input network exactly as it was").  A result that
                # shares a container with its argument has not changed the argument; it is recorded as an observation (what a
                # later in-place edit of the *result* could do), not as a violation of C08.
                ctx.stats["observation:" + cls] += 1
                obs = ctx.extra.setdefault("aliasing_observations", {})
                obs.setdefault(f"{t.vsite} [{cls}]", detail[:300])
                continue
            ctx.violation(t.vsite, cls, case, detail=detail)
        viol = [v for v in viol if not v[0].startswith("alias-")]
    return exc is None, exc, viol


# ----------------------------------------------------------------------------- oracle self-test

def oracle_selftest(ctx):
    """the snapshot comparer must see each kind of change (else the check proves nothing): returns problems"""
    sp = next(s for s in L.fixed_specs() if s["label"] == "hg-messy")
    problems = []

    def rot(d):
        k = next(iter(d))
        v = d.pop(k)
        d[k] = v

    def node_table(H):
        return next(v for v in vars(H).values() if isinstance(v, dict) and list(v) == list(H.nodes) and all(isinstance(x, set) for x in v.values()))

    def attr_table(H):
        return next(v for v in vars(H).values() if isinstance(v, dict) and list(v) == list(H.nodes) and all(isinstance(x, dict) for x in v.values()))
    muts = [
        ("add_node", lambda H: H.add_node("zz"), {"nodes"}),
        ("rotate node order", lambda H: rot(node_table(H)), {"node-order"}),
        ("add_edge", lambda H: H.add_edge([0, 5]), {"edges", "next-edge-id"}),
        ("remove_node_from_edge", lambda H: H.remove_node_from_edge("e", 5), {"members", "memberships"}),
        ("set_node_attributes", lambda H: H.set_node_attributes({7: 1}, name="zz"), {"node-attrs"}),
        ("nested attribute value edited in place", lambda H: H.nodes[0]["tags"][1].append(9), {"node-attrs"}),
        ("int -> float of equal value", lambda H: H.set_node_attributes({0: 2.0}, name="w"), {"node-attrs"}),
        ("inner attribute key order", lambda H: rot(attr_table(H)[5]), {"node-attrs"}),
        ("attribute table key order", lambda H: rot(attr_table(H)), {"attr-key-order"}),
        ("edge attribute", lambda H: H.set_edge_attributes({3: 1}, name="q"), {"edge-attrs"}),
        ("network attribute", lambda H: H.__setitem__("q", 1), {"private-state"}),
        ("nested network attribute", lambda H: H["info"]["l"][1]["d"].append(1), {"private-state"}),
        ("freeze", lambda H: H.freeze(), {"frozen-flag"}),
        ("update_uid_counter", lambda H: xgi.update_uid_counter(H, 50), {"next-edge-id"}),
    ]
    for name, f, expect in muts:
        H, _ = L.build(sp)
        b = L.snapshot(H)
        try:
            f(H)
        except Exception as ex:  # noqa
            problems.append(f"oracle self-test '{name}' could not be applied: {ex!r}")
            continue
        got = {c for c, _ in L.diff(b, L.snapshot(H))}
        ctx.stats["selftest"] += 1
        if not (expect <= got):
            problems.append(f"oracle self-test '{name}': expected {sorted(expect)}, comparer reported {sorted(got)}")
    # and no difference at all when nothing happens
    H, _ = L.build(sp)
    if L.diff(L.snapshot(H), L.snapshot(H)):
        problems.append("oracle self-test: two snapshots of an untouched network differ")
    # the aliasing walk must see a handed-out internal set
    H, nested = L.build(sp)
    tbl = next(v for v in vars(H).values() if isinstance(v, dict) and list(v) == list(H.edges) and all(isinstance(x, set) for x in v.values()))
    conts, _ = L.reach({"x": [tbl["e"]]})
    internal = {i for i in L.reach(H)[0] if i not in nested}
    if not any(i in internal for i in conts):
        problems.append("oracle self-test: reachability walk missed a shared internal set")
    return problems


# ----------------------------------------------------------------------------- correspondence: model observers

def obs_requests(H, rng):
    """snapshot of a real undirected Hypergraph in the model's terms + observers with the real answers"""
    nodes, edges = list(H.nodes), list(H.edges)
    snap = {"nodes": [enc_id(n) for n in nodes], "edges": [enc_id(e) for e in edges],
            "mem": [[enc_id(e), [enc_id(x) for x in H.edges.members(e)]] for e in edges],
            "memb": [[enc_id(n), [enc_id(x) for x in H.nodes.memberships(n)]] for n in nodes],
            "nattr": [[enc_id(n), enc_attrs_req(a)] for n, a in H._node_attr.items()],
            "eattr": [[enc_id(e), enc_attrs_req(a)] for e, a in H._edge_attr.items()],
            "net": enc_attrs_req(H._net_attr), "uid": next(copy.copy(H._edge_uid)), "frozen": bool(H.is_frozen)}
    absent_n, absent_e = "nope", "nope"
    some_n = nodes[:3] + [absent_n]
    some_e = edges[:3] + [absent_e]

    def guard(f):
        try:
            return f()
        except (xgi.exception.IDNotFound, xgi.exception.XGIError, KeyError):
            return "err"
    S = lambda xs: sorted((enc_id(x) for x in xs), key=idkey)
    A = lambda d: sorted(([str(k), canon_val(v)] for k, v in d.items()), key=lambda p: p[0])
    obs = [({"o": "nodeList"}, [enc_id(n) for n in nodes]), ({"o": "edgeList"}, [enc_id(e) for e in edges]),
           ({"o": "numNodes"}, H.num_nodes), ({"o": "numEdges"}, H.num_edges),
           ({"o": "membersDict"}, [[enc_id(e), S(ms)] for e, ms in H.edges.members(dtype=dict).items()]),
           ({"o": "membershipsDict"}, [[enc_id(n), S(es)] for n, es in H.nodes.memberships().items()]),
           ({"o": "isFrozen"}, bool(H.is_frozen)), ({"o": "netAttrs"}, A(H._net_attr)),
           ({"o": "isolates"}, S(H.nodes.isolates())), ({"o": "singletons"}, S(H.edges.singletons())),
           ({"o": "emptyEdges"}, S(H.edges.empty())),
           ({"o": "nodeAttrDict"}, [[enc_id(n), A(a)] for n, a in H._node_attr.items()]),
           ({"o": "edgeAttrDict"}, [[enc_id(e), A(a)] for e, a in H._edge_attr.items()]),
           ({"o": "nextAutoId"}, guard(lambda: next_auto(H)))]
    for n in some_n:
        obs += [({"o": "hasNode", "n": enc_id(n)}, n in H.nodes),
                ({"o": "memberships", "n": enc_id(n)}, guard(lambda: S(H.nodes.memberships(n)))),
                ({"o": "degree", "n": enc_id(n)}, guard(lambda: H.nodes.degree[n])),
                ({"o": "neighbors", "n": enc_id(n)}, guard(lambda: S(H.nodes.neighbors(n)))),
                ({"o": "nodeAttrs", "n": enc_id(n)}, guard(lambda: A(H.nodes[n])))]
    for e in some_e:
        obs += [({"o": "hasEdge", "e": enc_id(e)}, e in H.edges),
                ({"o": "members", "e": enc_id(e)}, guard(lambda: S(H.edges.members(e)))),
                ({"o": "size", "e": enc_id(e)}, guard(lambda: H.edges.size[e])),
                ({"o": "edgeAttrs", "e": enc_id(e)}, guard(lambda: A(H.edges[e])))]
        for n in some_n[:2] + [absent_n]:
            obs.append(({"o": "isMember", "n": enc_id(n), "e": enc_id(e)}, guard(lambda: n in H.edges.members(e))))
    for k in list(H._net_attr)[:2] + ["nokey"]:
        obs.append(({"o": "netAttr", "k": k}, guard(lambda: canon_val(H[k]))))
    return [({"snap": snap, **o}, r) for o, r in obs]


def canon_val(v):
    from ..core import enc_val
    return enc_val(v)


def next_auto(H):
    C = H.copy()
    before = set(C.edges)
    C.add_edge([L.PROBE])
    new = [e for e in C.edges if e not in before]
    return [enc_id(x) for x in new]


def in_model_domain(sp):
    if sp["cls"] != "Hypergraph":
        return False
    try:
        for n, _ in sp["nodes"]:
            enc_id(n)
        return True
    except ValueError:
        return False


def correspondence(ctx, specs, ok):
    reqs, want = [], []
    for sp in specs:
        if not in_model_domain(sp):
            continue
        H, _ = L.build(sp)
        for r, w in obs_requests(H, ctx.rng):
            reqs.append(r)
            want.append(w)
    if not ok or not reqs:
        return []
    resps = run_driver("C08", reqs)
    dis = []
    for r, w, m in zip(reqs, want, resps):
        if m.get("out") == "bad-op":
            raise Infra(f"C08 driver rejected a request (harness defect): {json.dumps(r)[:300]}")
        ctx.traces += 1
        ctx.stats["obs:" + r["o"]] += 1
        got = canon(m.get("v"))
        if got != w:
            dis.append((r, w, got))
    if dis:
        ctx.extra["disagreements"] = [{"request": {k: v for k, v in r.items() if k != "snap"}, "snapshot": r["snap"], "impl": w, "model": g}
                                      for r, w, g in dis[:5]]
        ctx.broken.append(f"correspondence obs~views: model observers and the real views differ on {len(dis)} of {len(reqs)} observations "
                          f"(observers: {sorted({r['o'] for r, _, _ in dis})})")
    return dis


# ----------------------------------------------------------------------------- run

def load_corpus():
    import glob
    out = []
    for f in sorted(glob.glob(os.path.join(VERIF, "corpus", "C08", "*.json"))):
        try:
            j = json.load(open(f))
            out.append(j.get("case", j))
        except Exception:  # noqa
            pass
    return out


def run_case(ctx, targets, case, env):
    t = next((t for t in targets if t.site == case["site"] and t.extra.get("stat") == case.get("stat")), None)
    if t is None:
        return None
    subj = Subject(case["network"])
    if t.where(subj.net) is None:
        return None
    return check_call(ctx, t, subj, case["args"], case["kwargs"], env)


def run(ctx, only_case=None):
    t0 = time.time()
    entries = T.extract()
    tab = T.write(entries)
    ok = build_and_audit(ctx, "XgiModel.Props.C08", ["XgiModel.C08.Drive"], translate=lambda: T.write(T.extract()))
    thorough = not ctx.quick
    targets, skipped = build_targets(entries)
    targets += stat_targets(entries, thorough)
    tmp = tempfile.mkdtemp(prefix="c08-")
    env = {"tmp": tmp, "spec2": next(s for s in L.fixed_specs() if s["label"] == "hg-gaps")}
    try:
        if only_case is not None:
            r = run_case(ctx, targets, only_case, env)
            if r is None:
                raise Infra(f"replay: no callable {only_case.get('site')} on this tree")
            print("replay:", "call ok" if r[0] else f"call raised {r[1]}", "| violations:", [c for c, _ in r[2]] or "none")
            for c, d in r[2]:
                print(f"VIOLATION property={ctx.prop} replay={only_case.get('_path', '<case>')}\n  class={c} detail={d[:400]}")
            return 1 if r[2] else 0                    # a replay does not rewrite the evidence file
        for p in oracle_selftest(ctx):
            ctx.broken.append(p)
        specs = L.fixed_specs() + [L.random_spec(ctx.rng, k) for k in range(ctx.n(4, 40))]
        for c in load_corpus():
            run_case(ctx, targets, c, env)
            ctx.stats["corpus_cases"] += 1
        status = {t.site: {"calls": 0, "ok": 0, "classes": set(), "exc": collections.Counter()} for t in targets}
        budget_end = t0 + ctx.n(75, 780)
        order = list(range(len(specs)))
        for si in order:
            sp = specs[si]
            subj = Subject(sp)
            env["spec2"] = next(s for s in specs if s["label"] == ("dh-nice" if sp["cls"] == "DiHypergraph" else "hg-gaps"))
            full = si < 4 or thorough
            for t in targets:
                obj = t.where(subj.net)
                if obj is None:
                    continue
                if t.heavy and not thorough and si >= 6:
                    continue
                if time.time() > budget_end and status[t.site]["ok"] > 0:
                    ctx.stats["skipped-for-time"] += 1
                    continue
                try:
                    calls = plan_calls(t, subj.net, obj, ctx.rng, (2 if full else 1) if not thorough else 4, env)
                except Exception as ex:  # noqa
                    status[t.site]["exc"][f"plan: {type(ex).__name__}: {ex}"[:120]] += 1
                    continue
                if not full:
                    calls = calls[:3]
                for args, kwargs in calls:
                    okc, exc, viol = check_call(ctx, t, subj, args, kwargs, env)
                    st = status[t.site]
                    st["calls"] += 1
                    ctx.stats["calls:" + t.kind] += 1
                    if okc:
                        st["ok"] += 1
                        st["classes"].add(sp["cls"])
                        ctx.nontrivial.add(jhash([t.site, t.extra.get("stat"), sp["label"], args, kwargs]))
                        ctx.sample({"site": t.site, "network": sp["label"], "args": args, "kwargs": kwargs}, cap=4)
                    else:
                        st["exc"][exc[:120]] += 1
        cspecs = list(specs)
        if thorough:                                   # exhaustive small scope for the observer correspondence
            from ..fn import all_small_hypergraphs
            small = [L.spec("Hypergraph", [[n, {}] for n in ns], [[list(ms), e, {}] for e, ms in es], {}, label="small")
                     for ns, es in all_small_hypergraphs(4, 3)]
            cspecs += small
            ctx.exhaustive = True
            ctx.extra["exhaustive_space"] = (f"observer correspondence (model obs vs real views) on all {len(small)} hypergraphs with 4 nodes and "
                                             "<= 3 distinct non-empty edges; validation of the model, not of the property")
        dis = correspondence(ctx, cspecs, ok)
    finally:
        shutil.rmtree(tmp, ignore_errors=True)
    exercised = {s: {"ok_calls": v["ok"], "calls": v["calls"], "classes": sorted(v["classes"])} for s, v in sorted(status.items()) if v["ok"]}
    not_ex = {s: {"calls": v["calls"], "exceptions": dict(v["exc"].most_common(3)) or "not admissible on any generated network"}
              for s, v in sorted(status.items()) if not v["ok"]}
    ctx.extra["exercised"] = exercised
    ctx.extra["not_exercised"] = not_ex
    ctx.extra["declared_mutators_not_called"] = sorted(skipped)
    ctx.extra["in_place_functions_called_with_in_place_False"] = sorted(t.site for t in targets if t.force)
    ctx.extra["api_table"] = {"functions": sum(1 for e in tab if e["kind"] == "function"), "methods": sum(1 for e in tab if e["kind"] != "function"),
                              "with_in_place": [e["name"] for e in tab if e["has_in_place"]],
                              "static_writers": [e["name"] for e in tab if e["ast_writes"] and e["kind"] == "function"]}
    ctx.extra["networks"] = [s["label"] + ":" + s["cls"] + (":frozen" if s["frozen"] else "") for s in specs]
    ctx.stats["targets"] = len(status)
    ctx.stats["targets_exercised"] = len(exercised)
    ctx.stats["targets_not_exercised"] = len(not_ex)
    ctx.rule = ("targets = every public module-level function whose first parameter is a network (signature + numpydoc, see "
                "c08_translate), every public method/property/protocol method of the three network classes that is not a declared "
                "mutator, every method of the view and stat classes, every stat accessor; declared in-place functions only with "
                "in_place=False.  Networks = 15 fixed (three classes; explicit IDs incl. 0, empty edges, isolated nodes, multi-edges, "
                "nested mutable attribute values at three levels, non-sorted attribute key order, frozen twins) + seeded random ones. "
                "Arguments from per-parameter-name generators, one optional parameter varied at a time (random combinations in the "
                "thorough tier), defaults otherwise.  One evaluation = one call (also when it raises) with before/after deep snapshot + "
                "aliasing walk + in-place mutation of the result.  Distinct non-trivial = distinct (site, network, arguments) whose "
                "call completed.")
    ctx.assumptions = [
        "a function counts as exercised when at least one generated call completed without raising; calls that raise are still compared before/after",
        "sharing of caller-supplied nested attribute values (what a shallow dict copy does) is counted (alias:shared-user-attribute-values) "
        "but is not a violation: the statement is about the call leaving the network as it was; handing out one of the network's own "
        "containers (tables, member/membership sets, attribute dicts, the counter) is a violation",
        "live views / stat objects returned by the API reference their network by design and are not entered by the walk; matplotlib artists "
        "and scipy sparse matrices are leaves of the walk",
        "set iteration order is not part of the snapshot (sets are compared as sets); dict orders are",
        "parameters documented as constructors (create_using) are factories, not input networks",
    ]
    # verdict: findings already listed as known must not hide a broken obligation / correspondence
    known = {(k["site"], k["failure_class"]) for k in load_known() if k["property"] == ctx.prop}
    fresh = [v for v in ctx.violations if (v["site"], v["failure_class"]) not in known]
    if (dis or not ok or ctx.broken) and not fresh:
        more = [L.random_spec(ctx.rng, 1000 + k) for k in range(ctx.n(12, 60))]      # search harder on the implementation
        t1 = time.time()
        env["tmp"] = tempfile.mkdtemp(prefix="c08-")
        try:
            for sp in more:
                subj = Subject(sp)
                for t in targets:
                    obj = t.where(subj.net)
                    if obj is None or time.time() - t1 > ctx.n(40, 300):
                        continue
                    try:
                        for args, kwargs in plan_calls(t, subj.net, obj, ctx.rng, 3, env)[:6]:
                            check_call(ctx, t, subj, args, kwargs, env)
                            ctx.stats["targeted-search-calls"] += 1
                    except Exception:  # noqa
                        continue
        finally:
            shutil.rmtree(env["tmp"], ignore_errors=True)
        fresh = [v for v in ctx.violations if (v["site"], v["failure_class"]) not in known]
        if not fresh:
            ctx.violation("model-tie", "unproven", {"broken": ctx.broken, "example": ctx.extra.get("disagreements", [])[:1]},
                          detail="; ".join(ctx.broken)[:500], kind="unproven", broken=ctx.broken)
    return finish(ctx, level="proof", trusted_base=TRUSTED_COMMON + [
        "harness/c08_translate.py (introspection + AST scan; its table is cross-checked by the before/after run of every entry)",
        "private reads: copy.copy(H._edge_uid); vars(H) read generically for the raw state; H._node_attr/_edge_attr/_net_attr key order "
        "when encoding a network for the model's observers",
        "id()-based reachability walk and in-place scribbling of results; oracle self-test (14 seeded kinds of change must be reported)"])


def replay(ctx, path):
    j = json.load(open(path))
    case = dict(j.get("case", j))
    case["_path"] = path
    return run(ctx, only_case=case)
