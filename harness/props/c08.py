"""C08 — read-only API never mutates the network it is given.

Decided differentially on the real code: every public callable taking a network first (enumerated by
introspection, harness/c08_translate.py; callables not recognised by signature/documentation are probed dynamically
with a network of each class as first argument) is called on networks of the three classes with generated
arguments; the argument network is compared before/after with a deep snapshot (node order, edge order, members,
memberships, iteration order of the member/membership sets, three attribute levels incl. dict key order, frozen flag,
next automatic edge ID), and nothing mutable reachable from the return value may be one of the network's own
STRUCTURAL containers (id() walk + in-place mutation of the result).  Sharing of attribute dicts is an observation, unless
a returned network keeps the argument's attribute dict as its own (violation), or the result is the argument itself.
The Lean part (Props/C08.lean) proves that the snapshot determines every observer of the model and checks the
regenerated API table; the model's observers are tied to the real views through the C08 driver.  No theorem says
"function f does not mutate": that is decided by the run below.
"""
import collections.abc
import contextlib
import copy
import inspect
import io
import itertools
import json
import os
import re
import shutil
import socket
import tempfile
import time
import warnings

import xgi

from .. import c08_lib as L
from .. import c08_translate as T
from ..core import (Infra, TRUSTED_COMMON, VERIF, build_and_audit, enc_attrs_req, enc_id, finish, idkey, jhash, run_driver,
                    unlisted_violations)

NET_CLASSES = ("Hypergraph", "DiHypergraph", "SimplicialComplex")
CHEAP_STATS = ("degree", "order", "attrs")
LIGHT_STAT_METHODS = ("asdict", "asnumpy", "aslist")
# Aliasing policy.  The property's own anchors say "views return copies of member/membership sets" and "an internal set
# handed out without copying would go unnoticed": a result that shares one of the network's STRUCTURAL containers (member
# sets, membership sets, the node/edge tables, the attribute tables, the ID counter) is a VIOLATION - in-place use of the
# result changes the argument's structure.  Sharing of ATTRIBUTE dicts (H.nodes[n], attrs statistics, to_hif_dict,
# to_hypergraph_dict: networkx-style by design) is an observation.
OBSERVATION_CLASSES = {"alias-attrs", "alias-net-attrs"}
ATTR_DICT_PATH = re.compile(r"^ret\._(?:node|edge)_attr\[[^\[\]]*\]$|^ret\._net_attr$")
# ... with one exception (mutation sweep mut-c07c08): a returned NETWORK - dual(), `<<`, to_hypergraph(H), subhypergraph, the
# in_place=False variants ... "build a new network" (anchor) - that keeps one of the argument's attribute dicts AS ITS OWN
# attribute dict (its network-attribute dict or the record of one of its nodes / edges) is not a view handing out a stored
# dict: every public attribute setter of the result (`R["k"] = v`, R.set_node_attributes, add_node(n, **attr)) then rewrites
# the "unchanged" input.  Such a result is a VIOLATION (`returned-network-shares-net-attrs`, `returned-network-shares-attrs`);
# no function of the pinned tree does it (each rebuilds the dicts through add_nodes_from / add_edges_from / deepcopy).
ALIAS_PREFIXES = ("alias-", "returned-network-shares-", "returns-its-argument")   # what the RESULT shares (vs. what the call changed)
RESULT_NET_ATTR = re.compile(r"\._(?:node|edge)_attr\[[^\[\]]*\]$|\._net_attr$")

# Targets for which NO call can complete on any network, because xgi itself raises for every input (documented here so
# that a target with zero completed calls is otherwise always reported - a new public function is never silently accepted).
NEVER_COMPLETES = [
    (r"^Multi(Di)?(Node|Edge)Stat\.__getitem__$",
     "MultiIDStat inherits IDStat.__getitem__, which calls self.func - None for every multi-stat: raises TypeError for every ID "
     "in the view and IDNotFound for every other key"),
    (r"^Multi(Di)?(Node|Edge)Stat\.__call__$",
     "MultiIDStat inherits IDStat.__call__, which re-instantiates the class with (net, view, func, args=, kwargs=); "
     "MultiIDStat.__init__ takes (network, view, stats) only: TypeError for every argument list"),
]


def never_completes_reason(site):
    return next((why for rx, why in NEVER_COMPLETES if re.search(rx, site)), None)


def alias_class(cls, detail):
    """failure class of 'mutating the RESULT in place changed the argument' from the snapshot component that changed"""
    if cls in ("node-attrs", "edge-attrs"):
        return "alias-attrs"
    if cls in ("private-state", "attr-key-order"):
        return "alias-net-attrs" if L.private_field(detail) == "_net_attr" else "alias-internal-container"
    return "alias-" + cls


def shared_class(internal_path, result_path=""):
    """failure class of 'the result contains one of the argument's own containers' from where that container lives in the
    argument (and, for attribute dicts, where it lives in the result: as the attribute dict OF A RETURNED NETWORK or not)"""
    if ATTR_DICT_PATH.match(internal_path):
        if RESULT_NET_ATTR.search(result_path):
            return "returned-network-shares-net-attrs" if internal_path == "ret._net_attr" else "returned-network-shares-attrs"
        return "alias-net-attrs" if internal_path == "ret._net_attr" else "alias-attrs"
    if internal_path.startswith("ret._edge["):
        return "alias-members"
    if internal_path.startswith("ret._node["):
        return "alias-memberships"
    return "alias-internal-container"


# ----------------------------------------------------------------------------- targets

class Target:
    def __init__(self, site, kind, params, domain=None, force=None, where=None, bind=None, extra=None, heavy=False, vsite=None,
                 literals=None, probe=None):
        self.site, self.kind, self.params, self.domain = site, kind, params, domain
        self.literals = literals or {}   # {parameter: option values spelled in the function's own body}
        self.probe = probe               # reason why the callable was not recognised as network-first (dynamic probe), else None
        self.accepted = probe is None    # a probed callable becomes a full target once a call with a network completed
        self.probed = set()              # network classes already tried
        self.timeout = 3 if probe else 8
        self.doc_classes = set()         # network classes the documentation of the first parameter names (module-level functions)
        self.vsite = vsite or site   # site a violation is attributed to: the function that defines the behaviour
        self.force = force or {}
        self.where = where          # net -> object to call on (or None when not admissible)
        self.bind = bind            # (obj) -> callable
        self.extra = extra or {}
        self.heavy = heavy


def _params(fn, drop):
    ps = T.sig_params(fn) if fn is not None else []
    ps = [p for p in (ps or [])[drop:] if p.kind in (p.POSITIONAL_ONLY, p.POSITIONAL_OR_KEYWORD, p.KEYWORD_ONLY)]
    return ps


def _stat_module(view):
    import xgi.stats as st
    return getattr(st, type(view).__name__.lower().replace("view", "stats"), None)


def stat_names(view):
    m = _stat_module(view)
    if m is None:
        return []
    names = set(getattr(m, "__all__", [])) | {n for n, f in vars(m).items() if inspect.isfunction(f) and f.__module__ == m.__name__}
    return sorted(n for n in names if not n.startswith("_") and inspect.isfunction(getattr(m, n, None)))


def defining_site(cls, meth, fn):
    """views share their methods through IDView, and the Mapping mix-ins (get / items / values) are defined by the abc in
    terms of __getitem__: attribute a finding to the function that defines the behaviour"""
    if fn is not None and str(getattr(fn, "__module__", "")).startswith("xgi"):
        return fn.__qualname__
    if cls.endswith("View") and meth in ("get", "items", "values"):
        return "IDView.__getitem__"
    return f"{cls}.{meth}"


def concrete_view_classes():
    out = set()
    for c in NET_CLASSES:
        n = getattr(xgi, c)()
        out |= {type(n.nodes).__name__, type(n.edges).__name__}
    return out


def _lits(fn):
    try:
        return T.option_literals(fn) if fn is not None and str(getattr(fn, "__module__", "")).startswith("xgi") else {}
    except Exception:  # noqa
        return {}


def build_targets(entries, excluded_fns=()):
    """-> (targets, declared mutators [(entry, why)], excluded [{name, reason}]) : every entry of the enumeration ends up in
    exactly one of the three lists (or, for the stat classes, in `stat_targets`)"""
    targets, mutators, excluded = [], [], []
    concrete = concrete_view_classes()
    for e in entries:
        name, kind, fn = e["name"], e["kind"], e["fn"]
        hip, doc_mut = e["hip"], e["doc_mut"]
        if doc_mut and not hip:
            mutators.append(e)
            continue
        force = {"in_place": False} if hip else {}
        if kind == "function":
            dom = "edge" if "edgestats" in name else ("node" if "nodestats" in name else None)
            heavy = name.startswith("xgi.draw") or "layout" in name
            targets.append(Target(name, kind, [p for p in _params(fn, 1) if p.name != "in_place"], dom, force,
                                  where=lambda net: net, bind=(lambda f: (lambda net: (lambda *a, **k: f(net, *a, **k))))(fn), heavy=heavy,
                                  literals=_lits(fn)))
            try:
                targets[-1].doc_classes = T.doc_first_param_classes(fn)
            except Exception:  # noqa
                pass
            continue
        cls, meth = name.split(".", 1)
        if cls in NET_CLASSES:
            where = (lambda c: (lambda net: net if L.base_class_name(net) == c else None))(cls)
        elif cls.endswith("View") and cls in concrete:
            where = (lambda c: (lambda net: net.nodes if type(net.nodes).__name__ == c else (net.edges if type(net.edges).__name__ == c else None)))(cls)
        elif cls.endswith("Stat"):
            continue                                   # stat classes are expanded per network in stat_targets (need a stat name)
        else:
            excluded.append({"name": name, "reason": f"{cls} is not the class of any network's .nodes/.edges: the method is exercised "
                                                     f"through the concrete view classes {sorted(concrete)} that inherit it"})
            continue
        dom = "edge" if "Edge" in cls else ("node" if "Node" in cls else None)
        if kind == "property":
            targets.append(Target(name, kind, [], dom, {}, where, bind=(lambda m: (lambda obj: (lambda: getattr(obj, m))))(meth),
                                  vsite=defining_site(cls, meth, fn)))
        elif kind == "classmethod":
            targets.append(Target(name, kind, [p for p in _params(fn, 1)], dom, {}, where,
                                  bind=(lambda m: (lambda obj: getattr(type(obj), m)))(meth), extra={"selfview": True},
                                  vsite=defining_site(cls, meth, fn), literals=_lits(fn)))
        else:
            ps = [p for p in _params(fn, 1) if p.name != "in_place"] if fn is not None else None
            targets.append(Target(name, kind, ps, dom, force, where, bind=(lambda m: (lambda obj: getattr(obj, m)))(meth),
                                  vsite=defining_site(cls, meth, fn), literals=_lits(fn)))
    # module-level public functions NOT recognised as taking a network first: probed dynamically (the call is tried with a
    # network of each class as first positional argument); one that accepts a network becomes a full target
    for x in excluded_fns:
        fn, how = x["fn"], x["how"]
        if how in ("no-parameters", "no-positional"):
            excluded.append({"name": x["name"], "reason": f"{how}: cannot be given a network as first positional argument"})
            continue
        if how.startswith("factory-parameter"):
            excluded.append({"name": x["name"], "reason": f"{how}: the first parameter says what to build (a constructor); it is not an input network"})
            continue
        targets.append(Target(x["name"], "function", [p for p in _params(fn, 1) if p.name != "in_place"], None, {},
                              where=lambda net: net, bind=(lambda f: (lambda net: (lambda *a, **k: f(net, *a, **k))))(fn),
                              literals=_lits(fn), probe=how))
    return targets, mutators, excluded


STAT_DUNDERS = ("__getitem__", "__iter__", "__len__", "__call__", "__repr__", "__str__")


def stat_targets(entries, thorough):
    """targets on stat objects: accessor `view.<stat>` (+ its arguments) and the methods of the stat classes
    -> (targets, excluded [{name, reason}], number of (stat, method) pairs left to the thorough tier)"""
    by_cls = {}
    for e in entries:
        cls, _, meth = e["name"].partition(".")
        if cls.endswith("Stat"):
            by_cls.setdefault(cls, []).append((meth, e["kind"], e["fn"]))
    import xgi.stats as st
    out, excluded, later = [], [], 0
    used_cls = set()

    for viewsel, vname in ((lambda net: net.nodes, "nodes"), (lambda net: net.edges, "edges")):
        for modname, dom in (("nodestats", "node"), ("edgestats", "edge"), ("dinodestats", "node"), ("diedgestats", "edge")):
            if (dom == "node") != (vname == "nodes"):
                continue
            m = getattr(st, modname)
            vcls = {"nodestats": "NodeView", "edgestats": "EdgeView", "dinodestats": "DiNodeView", "diedgestats": "DiEdgeView"}[modname]
            scls = vcls.replace("View", "Stat")

            def sel(net, _v=viewsel, _c=vcls):
                v = _v(net)
                return v if type(v).__name__ == _c else None
            names = sorted({n for n, f in vars(m).items() if inspect.isfunction(f) and f.__module__ == m.__name__ and not n.startswith("_")})
            for sname in names:
                f = getattr(m, sname)
                ps = _params(f, 2)
                # accessor without and with arguments
                root = f"xgi.stats.{modname}.{sname}"       # stat objects only re-present what the stat function computed
                out.append(Target(f"{vcls}.{sname}", "stat-accessor", [], dom, {}, sel,
                                  bind=(lambda s: (lambda v: (lambda: getattr(v, s))))(sname), vsite=root))
                if ps:
                    out.append(Target(f"{vcls}.{sname}(…)", "stat-accessor", ps, dom, {}, sel,
                                      bind=(lambda s: (lambda v: (lambda *a, **k: getattr(v, s)(*a, **k).asdict())))(sname), vsite=root,
                                      literals=_lits(f)))
                methods = by_cls.get(scls, [])
                used_cls.add(scls)
                for meth, kind, fn in methods:
                    if meth.startswith("__") and meth not in STAT_DUNDERS:
                        continue
                    if sname not in CHEAP_STATS and not (thorough or meth in LIGHT_STAT_METHODS):
                        later += 1
                        continue
                    if kind == "property":
                        b = (lambda s, mm: (lambda v: (lambda: getattr(getattr(v, s), mm))))(sname, meth)
                        ps2 = []
                    else:
                        b = (lambda s, mm: (lambda v: getattr(getattr(v, s), mm)))(sname, meth)
                        ps2 = _params(fn, 1) if fn is not None else None
                    if meth == "__call__":
                        ps2 = []
                    out.append(Target(f"{scls}.{meth}", "stat-method", ps2, dom, {}, sel, bind=b, extra={"stat": sname}, vsite=root,
                                      literals=_lits(fn)))
            # multi-stats: a pair of stats, and a single stat (the numeric summaries max/min/sum/... of MultiIDStat only
            # complete for one column; argmin/argmax/argsort only on one-element views - networks `*-one` exist for that)
            mcls = "Multi" + scls
            pool = [n for n in ("degree", "order", "size", "in_degree", "head_order", "clustering_coefficient") if n in names]
            if pool and mcls in by_cls:
                used_cls.add(mcls)
                for sel_names in ([pool[:2]] if len(pool) >= 2 else []) + [pool[:1]]:
                    out.append(Target(f"{vcls}.multi", "stat-accessor", [], dom, {}, sel, bind=(lambda nn: (lambda v: (lambda: v.multi(nn))))(sel_names),
                                      extra={"stat": "multi:" + ",".join(sel_names)}))
                    for meth, kind, fn in by_cls[mcls]:
                        if meth.startswith("__") and meth not in STAT_DUNDERS:
                            continue
                        if kind == "property":
                            b = (lambda nn, mm: (lambda v: (lambda: getattr(v.multi(nn), mm))))(sel_names, meth)
                            ps2 = []
                        else:
                            b = (lambda nn, mm: (lambda v: getattr(v.multi(nn), mm)))(sel_names, meth)
                            ps2 = _params(fn, 1) if fn is not None else None
                        if meth == "__call__":
                            ps2 = []
                        out.append(Target(f"{mcls}.{meth}", "stat-method", ps2, dom, {}, sel, bind=b, extra={"stat": "multi:" + ",".join(sel_names)},
                                          literals=_lits(fn)))
    for cls, ms in sorted(by_cls.items()):
        if cls not in used_cls:
            for meth, kind, fn in ms:
                excluded.append({"name": f"{cls}.{meth}", "reason": f"{cls} is a base class no view hands out: the method is exercised through "
                                                                    f"the concrete stat classes {sorted(used_cls)} that inherit it"})
        else:
            for meth, kind, fn in ms:
                if meth.startswith("__") and meth not in STAT_DUNDERS:
                    excluded.append({"name": f"{cls}.{meth}", "reason": "protocol method outside the exercised list " + str(list(STAT_DUNDERS))})
    return out, excluded, later


# ----------------------------------------------------------------------------- one network under test

class Subject:
    def __init__(self, spec):
        self.spec = spec
        self.rebuild()

    def rebuild(self):
        self.net, self.nested = L.build(self.spec)
        self.before = L.snapshot(self.net)
        self._internal = None

    def internal_ids(self):
        if self._internal is None:
            conts, _ = L.reach(self.net)
            self._internal = {i: p for i, (o, p) in conts.items() if i not in self.nested}
        return self._internal


class Rotation:
    """which candidate value of which parameter has been called / has completed, per target: the next values to try are
    those that have not completed yet, then the least-called ones - so that over a run every enumerated option value of
    every function is called (a final sweep calls what is left)"""

    def __init__(self):
        self.state = {}                                  # (site, stat, pname) -> {key: [example value, calls, ok]}

    def table(self, t, pname):
        return self.state.setdefault((t.site, t.extra.get("stat"), pname), {})

    @staticmethod
    def key(pname, i, v):
        return f"#{i}" if pname in L.ID_PARAMS else L.jdump(L.encode(v))

    def items(self, t, pname, cands):
        tb = self.table(t, pname)
        out = []
        for i, v in enumerate(cands):
            ky = self.key(pname, i, v)
            rec = tb.setdefault(ky, [None if pname in L.ID_PARAMS else L.encode(v), 0, 0])
            out.append((ky, i, v, rec))
        return out

    def pick(self, t, pname, cands, k):
        """up to k (key, value): first the value that never completed / was called least, then the least-called ones"""
        items = self.items(t, pname, cands)
        if not items or k <= 0:
            return []
        # two policies, alternating per visit: (A) a value that has not completed yet (least called first) - so that every
        # value gets its chance on every kind of network; (B) among the values known to complete, the least called one - a
        # value the function accepts is worth more on a further network than one that raises everywhere
        turn = self.table(t, "__turn__:" + pname).setdefault("n", [None, 0, 0])
        turn[1] += 1
        pol_a = lambda pool: min(pool, key=lambda it: (it[3][2] > 0, it[3][1], it[1]))
        pol_b = lambda pool: min(pool, key=lambda it: (it[3][2] == 0, it[3][1], it[1]))
        chosen = []
        for j in range(min(k, len(items))):
            pool = [it for it in items if it not in chosen]
            chosen.append((pol_a if (turn[1] + j) % 2 else pol_b)(pool))
        for it in chosen:
            it[3][1] += 1
        return [(it[0], it[2]) for it in chosen]

    def completed(self, t, tags):
        for pname, ky in tags:
            rec = self.table(t, pname).get(ky)
            if rec is not None:
                rec[2] += 1


def _is_default(v, p):
    d = p.default
    if d is inspect.Parameter.empty:
        return False
    try:
        return type(v) is type(d) and bool(v == d)
    except Exception:  # noqa
        return False


def param_candidates(t, p, net, env):
    """candidate values of one parameter of one target on one network (None: no generator) - literals of the body first"""
    if t.extra.get("selfview") and p.name == "view":
        return ["$self"]
    env["domain"] = t.domain
    try:
        return L.candidates(p.name, net, t.domain, p.default, env, t.literals.get(p.name, ()))
    except L.NoGen:
        return None


# parameters that only set how long a simulation runs: kept small in every call but the first one of a target (whose defaults
# are exercised once per run), otherwise simulate_kuramoto & co. with their default 10000 steps eat the whole budget
COST_PARAMS = {"timesteps": 5, "n_steps": 5}


def plan_calls(t, net, rot, rng, k_values, env, max_opt=None, combos=1, allfirst=True):
    """[(args, kwargs, tags)] for one target on one network; args/kwargs encoded as JSON (replayable); tags = the
    (parameter, rotation key) pairs of the option values the call carries.  `k_values` values per optional parameter,
    at most `max_opt` optional parameters (rotating), `combos` random combinations of optional parameters."""
    if t.params is None:                               # builtin slot wrapper: signature unknown -> fallbacks
        return [([], {}, [])] + [([L.encode(v)], {}, []) for v in ("$node0", "$edge0", "$nodes3", 1)]
    req = [p for p in t.params if p.default is inspect.Parameter.empty and p.kind != p.KEYWORD_ONLY]
    opt = [p for p in t.params if p not in req]
    calls = []
    first = []
    visits = rot.table(t, "__visits__").setdefault("n", [None, 0, 0])
    visits[1] += 1
    if visits[1] > 1:
        cheap = {p.name: COST_PARAMS[p.name] for p in opt if p.name in COST_PARAMS}
        if cheap:
            t = copy.copy(t)
            t.force = dict(t.force, **cheap)
    if req:
        req_c = [param_candidates(t, p, net, env) or list(L.FALLBACK) for p in req]
        first = [c[0] for c in req_c]
        calls.append((list(first), dict(t.force), []))
        for i, (p, c) in enumerate(zip(req, req_c)):   # vary one required parameter at a time, rotating over the others
            for ky, v in rot.pick(t, p.name, c[1:], k_values):
                b = list(first)
                b[i] = v
                calls.append((b, dict(t.force), [(p.name, ky)]))
    else:
        calls.append(([], dict(t.force), []))
    optc = []
    for p in opt:
        c = param_candidates(t, p, net, env)
        c = [v for v in (c or []) if not _is_default(v, p)]
        if c:
            optc.append((p, c))
    chosen = optc
    if max_opt is not None and len(optc) > max_opt:    # rotate over the optional parameters: least-called first
        load = lambda pc: sum(r[1] for r in rot.table(t, pc[0].name).values()) / max(1, len(pc[1]))
        chosen = sorted(optc, key=lambda pc: (load(pc), optc.index(pc)))[:max_opt]
    for p, c in chosen:
        for ky, v in rot.pick(t, p.name, c, k_values):
            kw = dict(t.force)
            kw[p.name] = v
            calls.append((first, kw, [(p.name, ky)]))
    if len(optc) >= 2:
        if allfirst:
            kw, tags = dict(t.force), []               # every generated optional parameter at its first value at once
            for p, c in optc:
                kw[p.name] = c[0]
                tags.append((p.name, rot.key(p.name, 0, c[0])))
                rot.items(t, p.name, c)[0][3][1] += 1
            calls.append((first, kw, tags))
        for _ in range(combos):                        # combinations of optional parameters (needed when defaults are unusable)
            kw, tags = dict(t.force), []
            for p, c in optc:
                if rng.random() < 0.6:
                    i = rng.randrange(len(c))
                    kw[p.name] = c[i]
                    tags.append((p.name, rot.key(p.name, i, c[i])))
                    rot.items(t, p.name, c)[i][3][1] += 1
            if len(tags) >= 2:
                calls.append((first, kw, tags))
    return [([L.encode(x) for x in a], {k: L.encode(v) for k, v in kw.items()}, tags) for a, kw, tags in calls]


def drain(ret):
    """iterators / generators / mapping views hold frames or references: materialise them before the snapshot"""
    if isinstance(ret, (collections.abc.Iterator, collections.abc.Generator)):
        return list(itertools.islice(ret, 100000))
    if isinstance(ret, (collections.abc.KeysView, collections.abc.ValuesView, collections.abc.ItemsView)):
        return list(ret)
    return ret


@contextlib.contextmanager
def no_network():
    """dynamic probes hand a network to functions that may expect a URL / dataset name: no connection may leave the process"""
    def refuse(*a, **k):
        raise OSError("network access is disabled inside the C08 check")
    saved = (socket.socket.connect, socket.create_connection)
    socket.socket.connect, socket.create_connection = refuse, refuse
    try:
        yield
    finally:
        socket.socket.connect, socket.create_connection = saved


def networks_of(x, _d=0):
    """the networks an argument value carries: a network itself, the network behind a view / stat object, networks inside
    lists / tuples / dicts of such (second operand of `<<`, views handed to set operators and from_view, collections of networks)"""
    out = []
    if isinstance(x, L.NETS):
        return [x]
    if _d > 2:
        return out
    for attr in ("_net", "net"):
        n = getattr(x, attr, None) if not isinstance(x, (dict, list, tuple, set, str, bytes)) else None
        if isinstance(n, L.NETS):
            out.append(n)
    if isinstance(x, (list, tuple)):
        for y in x[:8]:
            out += networks_of(y, _d + 1)
    elif isinstance(x, dict):
        for y in list(x.values())[:8]:
            out += networks_of(y, _d + 1)
    return out


def fresh_fields(net, _cache={}):
    """the fields a newly constructed network of this class has: a difference in any OTHER private field is not one of the
    components the statement lists (nodes, edges, members, iteration order, attributes, next ID) - recorded as an observation"""
    k = type(net)
    if k not in _cache:
        try:
            _cache[k] = set(vars(k()))
        except Exception:  # noqa
            _cache[k] = set(vars(net))
    return _cache[k]


def check_call(ctx, t, subj, args, kwargs, env, record=True):
    """perform one call and evaluate the predicate.  Returns (ok_call, exception text, violations)"""
    net = subj.net
    obj = t.where(net)
    env["domain"] = t.domain
    case = {"site": t.site, "network": subj.spec, "args": args, "kwargs": kwargs, "stat": t.extra.get("stat")}
    viol = []
    exc = None
    ret = None
    cwd = os.getcwd()
    others = []                                         # every OTHER network-valued argument: (where, network, snapshot before)
    try:
        f = t.bind(obj)
        env["pname"], env["kwargs"] = "", kwargs
        a = [obj if x == "$self" else L.resolve(x, net, env) for x in args]
        kw = {}
        for k, v in kwargs.items():
            env["pname"] = k
            kw[k] = L.resolve(v, net, env)
        for where, val in [(f"positional argument {i + 1}", x) for i, x in enumerate(a)] + [(f"argument {k}", x) for k, x in kw.items()]:
            for n2 in networks_of(val):
                if n2 is not net and not any(n2 is o[1] for o in others):
                    others.append((where, n2, L.snapshot(n2, public_uid=False)))
        with warnings.catch_warnings(), contextlib.redirect_stdout(io.StringIO()), contextlib.redirect_stderr(io.StringIO()):
            warnings.simplefilter("ignore")
            if t.probe:
                os.chdir(env["tmp"])
                with no_network():
                    ret = drain(L.with_timeout(lambda: f(*a, **kw), t.timeout))
            else:
                ret = drain(L.with_timeout(lambda: f(*a, **kw), t.timeout))
    except L.CallTimeout as ex:
        exc = "CallTimeout"
    except Exception as ex:  # noqa
        exc = f"{type(ex).__name__}: {str(ex)[:100]}"
    finally:
        os.chdir(cwd)
        if t.heavy or "draw" in t.site:
            import matplotlib.pyplot as plt
            plt.close("all")
    if env.get("want_image"):
        try:
            env["image"] = L.image(ret) if exc is None else ("raised", exc.split(":")[0])
        except Exception:  # noqa
            env["image"] = L.UNSTABLE
    ctx.stats["snapshots"] += 1
    after = L.snapshot(net, public_uid=ctx.stats["snapshots"] % 4 == 0)
    d = L.diff(subj.before, after)
    # a private field that a newly constructed network does not have (a cache a function keeps on its argument) is none of the
    # components of the statement: observation, as long as nothing else changed (a memo in _net_attr IS an attribute change)
    extra = [x for x in d if x[0] == "private-state" and L.private_field(x[1]) not in fresh_fields(net)
             and L.private_field(x[1]) not in subj.before["_raw"]]
    if extra:
        d = [x for x in d if x not in extra]
        for cls, detail in extra:
            ctx.stats["observation:new-private-field"] += 1
            ctx.extra.setdefault("new_private_fields_observed", {}).setdefault(f"{t.vsite} [{L.private_field(detail)}]", detail[:200])
        try:
            for k in [k for k in vars(net) if k not in fresh_fields(net) and k not in subj.before["_raw"]]:
                del vars(net)[k]
        except Exception:  # noqa
            subj.rebuild()
    for where, n2, b2 in others:
        ctx.stats["snapshots:other-network-arguments"] += 1
        try:
            d2o = L.diff(b2, L.snapshot(n2, public_uid=False))
        except Exception as ex:  # noqa
            d2o = [("unreadable", f"the network can no longer be read ({type(ex).__name__}: {str(ex)[:80]})")]
        for cls, detail in d2o:
            if cls == "private-state" and L.private_field(detail) not in fresh_fields(n2) and L.private_field(detail) not in b2["_raw"]:
                continue
            viol.append(("other-argument-" + cls, f"{t.site}(args={args}, kwargs={kwargs}) on {subj.spec['label']} "
                                                  f"{'raised ' + exc if exc else 'returned'} and changed the network given as {where}: {detail}"))
    if d:
        for cls, detail in d:
            viol.append((cls, f"{t.site}(args={args}, kwargs={kwargs}) on {subj.spec['label']} "
                              f"{'raised ' + exc if exc else 'returned'} and changed its argument: {detail}"))
        subj.rebuild()
    elif exc is None:
        # --- aliasing: nothing mutable reachable from the result may be one of the network's own containers
        conts, live = L.reach(ret)
        internal = subj.internal_ids()
        shared = [(conts[i][1], internal[i]) for i in conts if i in internal]
        ctx.stats["alias:containers-walked"] += len(conts)
        n_nested = sum(1 for i in conts if i in subj.nested)
        ctx.stats["alias:shared-user-attribute-values"] += n_nested
        if n_nested and record:                         # per site, so that a dropped deepcopy (dual, copy) shows in the evidence
            by_site = ctx.extra.setdefault("results_sharing_caller_supplied_nested_values", {})
            by_site[t.vsite] = by_site.get(t.vsite, 0) + 1
        ctx.stats["alias:live-views-returned"] += len(live)
        same_object = ret is net
        seen = set()
        if same_object:
            # a function that is not in-place and hands back ITS ARGUMENT (a dropped `.copy()`: `_H = H` in cut_to_order): the
            # "new network" is the input, every later edit of the result edits the input.  Reported as such; nothing is
            # scribbled (writing sentinels into the result would be writing them into the network under test).
            viol.append(("returns-its-argument", f"{t.site}(args={args}, kwargs={kwargs}) on {subj.spec['label']} returned the very "
                                                 f"network object it was given (not a new network)"))
            conts, shared, touched = {}, [], 0
            subj.rebuild()
        else:
            touched = L.scribble(conts, subj.nested)
        if isinstance(ret, L.NETS) and not same_object and not ret.is_frozen:
            L.mutate_network(ret)
            touched += 1
        # nothing reachable from the result was written to (scalars, strings, live views): the argument cannot have changed
        try:
            d2 = L.diff(subj.before, L.snapshot(net, public_uid=isinstance(ret, L.NETS))) if touched else []
        except Exception as ex:  # noqa
            # the argument cannot even be read any more after the RESULT was written to: they share structure
            d2 = []
            seen.add("alias-internal-container")
            viol.append(("alias-internal-container", f"{t.site}(args={args}, kwargs={kwargs}) on {subj.spec['label']}: after mutating the "
                                                     f"returned object in place the argument can no longer be read "
                                                     f"({type(ex).__name__}: {str(ex)[:80]}); shared: {shared[:3]}"))
            subj.rebuild()
        for cls, detail in d2:
            ac = alias_class(cls, detail)
            seen.add(ac)
            viol.append((ac, f"{t.site}(args={args}, kwargs={kwargs}) on {subj.spec['label']}: mutating the returned "
                             f"object in place changed the argument ({detail}); shared: {shared[:3]}"))
        # containers found by identity that the scribbling did not show (an ID dict refusing the sentinel, the counter ...)
        by_cls = {}
        for rp, ip in shared:
            by_cls.setdefault(shared_class(ip, rp), []).append((rp, ip))
        for ac, lst in sorted(by_cls.items()):
            if ac not in seen and not (ac in OBSERVATION_CLASSES and seen & OBSERVATION_CLASSES):
                viol.append((ac, f"{t.site}(args={args}, kwargs={kwargs}) on {subj.spec['label']}: the result "
                                 f"shares {len(lst)} container(s) with the argument: {lst[:3]}"))
        if d2 or shared:
            subj.rebuild()
    # a module-level function whose documentation names the class of its first parameter (`H : Hypergraph`) and that is handed
    # a network of another class is used outside its documented domain ("admissible argument values"): the call is still made
    # and a change of the argument is still a violation, but what the RESULT shares with such an argument is only recorded
    outside = bool(t.doc_classes) and not any(isinstance(net, getattr(xgi, c)) for c in t.doc_classes if hasattr(xgi, c))
    if outside:
        for cls, detail in [v for v in viol if v[0].startswith(ALIAS_PREFIXES) and v[0] not in OBSERVATION_CLASSES]:
            ctx.stats["observation:" + cls + "(input class outside the documented domain)"] += 1
            ctx.extra.setdefault("aliasing_observations", {}).setdefault(
                f"{t.vsite} [{cls}; {type(net).__name__} given where the documentation says {sorted(t.doc_classes)}]", detail[:300])
        viol = [v for v in viol if not (v[0].startswith(ALIAS_PREFIXES) and v[0] not in OBSERVATION_CLASSES)]
    if record:
        ctx.evaluations += 1
        for cls, detail in viol:
            if cls in OBSERVATION_CLASSES:
                # networkx-style sharing of ATTRIBUTE dicts with the result (documented design of H.nodes[n], the attrs
                # statistics, to_hif_dict, to_hypergraph_dict): the call left its argument as it was; recorded, not a violation
                ctx.stats["observation:" + cls] += 1
                obs = ctx.extra.setdefault("aliasing_observations", {})
                obs.setdefault(f"{t.vsite} [{cls}]", detail[:300])
                continue
            ctx.violation(t.vsite, cls, case, detail=detail)
    viol = [v for v in viol if v[0] not in OBSERVATION_CLASSES]
    return exc is None, exc, viol


# ----------------------------------------------------------------------------- oracle self-test

def spec2_for(specs, sp):
    """the second operand / second view handed to binary operations: a network of the same kind as the first"""
    return next(s for s in specs if s["label"] == ("dh-nice" if sp["cls"] in ("DiHypergraph", "MyD") else "hg-gaps"))


def held_family(ctx, targets, specs, env, seconds, only=None):
    """STATE ACROSS CALLS: the same network OBJECT is handed to the same callable several times - same arguments, then another
    option tuple - with a count-preserving edit and an ordinary edit of the network in between.  Every call is judged by the
    before/after comparison (a memo written on the first call and served on the second shows here or in the private-field
    observation); and the result of the call after the edit must equal the result of the same call on a FRESHLY BUILT
    network that received the same edits (a value remembered from before the edit does not) - compared only when the callable is
    deterministic on two fresh builds and its result has a portable image."""
    t0 = time.time()
    labels = ("hg-messy", "hg-gaps", "sc", "dh-nice", "sub-hg", "hg-tuple")
    chosen = [sp for sp in specs if sp["label"] in labels and not sp["frozen"]] if only is None else [only]
    pool = [t for t in targets if t.kind in ("function", "method", "property") and not t.heavy and t.accepted and t.params is not None]
    start = ctx.rng.randrange(len(pool)) if pool and only is None else 0
    pool = pool[start:] + pool[:start]
    rot = Rotation()

    def fresh_after(sp, edits):
        H, _ = L.build(sp)
        for k in edits:
            L.edit_network(H, k)
        return H

    def result_on(t, H, args, kwargs):
        obj = t.where(H)
        if obj is None:
            return L.UNSTABLE
        try:
            env["pname"], env["kwargs"], env["domain"] = "", kwargs, t.domain
            a = [obj if x == "$self" else L.resolve(x, H, env) for x in args]
            kw = {}
            for k, v in kwargs.items():
                env["pname"] = k
                kw[k] = L.resolve(v, H, env)
            with warnings.catch_warnings(), contextlib.redirect_stdout(io.StringIO()), contextlib.redirect_stderr(io.StringIO()):
                warnings.simplefilter("ignore")
                return L.image(drain(L.with_timeout(lambda: t.bind(obj)(*a, **kw), 3)))
        except Exception as ex:  # noqa
            return ("raised", type(ex).__name__)

    for t in pool:
        for sp in chosen:
            if time.time() - t0 > seconds:
                ctx.stats["held:stopped-for-time"] += 1
                return
            subj = Subject(sp)
            if t.where(subj.net) is None:
                continue
            env["spec2"] = spec2_for(specs, sp)
            try:
                calls = plan_calls(t, subj.net, rot, ctx.rng, 1, env, max_opt=2, combos=0, allfirst=False)
            except Exception:  # noqa
                continue
            if not calls:
                continue
            (a0, k0, _), other = calls[0], (calls[1] if len(calls) > 1 else calls[0])
            if any(p.name == "seed" for p in t.params) and "seed" not in k0:
                k0 = dict(k0, seed=0)                  # randomised callables are compared under a fixed seed only
            done = []
            ok1, _, v1 = check_call(ctx, t, subj, a0, k0, env)
            ctx.stats["held:calls"] += 1
            if not ok1 or v1:
                continue
            for kind in ("cpe", "plain"):
                if not L.edit_network(subj.net, kind):
                    continue
                done.append(kind)
                subj.before = L.snapshot(subj.net)
                subj._internal = None
                env["want_image"] = True
                net0 = subj.net
                ok2, _, v2 = check_call(ctx, t, subj, a0, k0, env)
                img = env.pop("image", L.UNSTABLE)
                env.pop("want_image", None)
                if subj.net is not net0:               # the subject was rebuilt (its result was written to): edits again, no comparison
                    for k in done:
                        L.edit_network(subj.net, k)
                    subj.before = L.snapshot(subj.net)
                    subj._internal = None
                    img = L.UNSTABLE
                ctx.stats["held:calls"] += 1
                ctx.stats["held:sequences:" + kind] += 1
                if v2:
                    break
                if ok2 and not L.has_unstable(img):
                    r1, r2 = result_on(t, fresh_after(sp, done), a0, k0), result_on(t, fresh_after(sp, done), a0, k0)
                    if r1 == r2 and not L.has_unstable(r1):
                        ctx.stats["held:results-compared-with-fresh-computation"] += 1
                        # confirmed on a third fresh build and a second call on the held object (a callable that is random
                        # without a seed parameter may agree twice by chance)
                        if img != r1 and result_on(t, fresh_after(sp, done), a0, k0) == r1 and result_on(t, subj.net, a0, k0) == img:
                            pth, x, y = L.first_difference(r1, img)
                            ctx.violation(t.vsite, "stale-result-on-held-network",
                                          {"site": t.site, "network": sp, "args": a0, "kwargs": k0, "stat": t.extra.get("stat"),
                                           "sequence": ["call", *done, "call"]},
                                          detail=f"{t.site}(args={a0}, kwargs={k0}) on {sp['label']}: called, network edited ({'; '.join(done)}), called "
                                                 f"again on the same object: the result differs from the same call on a freshly built network with the "
                                                 f"same edits at {pth}: fresh {x} / held {y}")
                            break
                if subj.before is None or v2:
                    break
                a1, k1, _ = other
                ok3, _, v3 = check_call(ctx, t, subj, a1, k1, env)
                ctx.stats["held:calls"] += 1
                if v3:
                    break
                if subj.net.is_frozen:
                    break


def oracle_selftest(ctx):
    """the snapshot comparer must see each kind of change (else the check proves nothing): returns problems"""
    sp = next(s for s in L.fixed_specs() if s["label"] == "hg-messy")
    problems = []

    def rot(d):
        k = next(iter(d))
        v = d.pop(k)
        d[k] = v

    def node_table(H):
        return next(v for v in vars(H).values() if isinstance(v, dict) and list(v) == list(H.nodes) and all(isinstance(x, set) for x in v.values()))

    def attr_table(H):
        return next(v for v in vars(H).values() if isinstance(v, dict) and list(v) == list(H.nodes) and all(isinstance(x, dict) for x in v.values()))
    muts = [
        ("add_node", lambda H: H.add_node("zz"), {"nodes"}),
        ("rotate node order", lambda H: rot(node_table(H)), {"node-order"}),
        ("add_edge", lambda H: H.add_edge([0, 5]), {"edges", "next-edge-id"}),
        ("remove_node_from_edge", lambda H: H.remove_node_from_edge("e", 5), {"members", "memberships"}),
        ("set_node_attributes", lambda H: H.set_node_attributes({7: 1}, name="zz"), {"node-attrs"}),
        ("nested attribute value edited in place", lambda H: H.nodes[0]["tags"][1].append(9), {"node-attrs"}),
        ("int -> float of equal value", lambda H: H.set_node_attributes({0: 2.0}, name="w"), {"node-attrs"}),
        ("inner attribute key order", lambda H: rot(attr_table(H)[5]), {"node-attrs"}),
        ("attribute table key order", lambda H: rot(attr_table(H)), {"attr-key-order"}),
        ("edge attribute", lambda H: H.set_edge_attributes({3: 1}, name="q"), {"edge-attrs"}),
        ("network attribute", lambda H: H.__setitem__("q", 1), {"private-state"}),
        ("nested network attribute", lambda H: H["info"]["l"][1]["d"].append(1), {"private-state"}),
        ("freeze", lambda H: H.freeze(), {"frozen-flag"}),
        ("update_uid_counter", lambda H: xgi.update_uid_counter(H, 50), {"next-edge-id"}),
    ]
    for name, f, expect in muts:
        H, _ = L.build(sp)
        b = L.snapshot(H)
        try:
            f(H)
        except Exception as ex:  # noqa
            problems.append(f"oracle self-test '{name}' could not be applied: {ex!r}")
            continue
        got = {c for c, _ in L.diff(b, L.snapshot(H))}
        ctx.stats["selftest"] += 1
        if not (expect <= got):
            problems.append(f"oracle self-test '{name}': expected {sorted(expect)}, comparer reported {sorted(got)}")
    # iteration order of a member set (same elements): 0, 8, 16 collide in a small hash table, so clearing the set and
    # re-adding the elements in reverse order changes the order a loop sees
    so = L.spec("Hypergraph", [[0, {}], [8, {}], [16, {}]], [[[0, 8, 16], "$auto", {}]], {}, label="selftest-set-order")
    H, _ = L.build(so)
    b = L.snapshot(H)
    ms = next(v for v in vars(H).values() if isinstance(v, dict) and list(v) == list(H.edges) and all(isinstance(x, set) for x in v.values()))[0]
    xs = list(ms)
    ms.clear()
    for x in reversed(xs):
        ms.add(x)
    ctx.stats["selftest"] += 1
    if list(ms) == xs:
        problems.append("oracle self-test 'set iteration order': could not be applied (the order did not change)")
    else:
        got = {c for c, _ in L.diff(b, L.snapshot(H))}
        if got != {"set-iteration-order"}:
            problems.append(f"oracle self-test 'set iteration order': expected ['set-iteration-order'], comparer reported {sorted(got)}")
    # and no difference at all when nothing happens
    H, _ = L.build(sp)
    if L.diff(L.snapshot(H), L.snapshot(H)):
        problems.append("oracle self-test: two snapshots of an untouched network differ")
    # the aliasing classification: structural containers are violations, attribute dicts observations
    H, nested = L.build(sp)
    internal = {i: p_ for i, (o, p_) in L.reach(H)[0].items() if i not in nested}
    want = {"alias-members": lambda: H._edge["e"], "alias-memberships": lambda: H._node[0], "alias-attrs": lambda: H._node_attr[0],
            "alias-net-attrs": lambda: H._net_attr, "alias-internal-container": lambda: H._edge}
    for cls, get in want.items():
        ctx.stats["selftest"] += 1
        try:
            got = shared_class(internal[id(get())])
        except Exception as ex:  # noqa
            got = repr(ex)
        if got != cls:
            problems.append(f"oracle self-test: sharing of {cls[6:]} classified as {got}")
    # a returned network that keeps an attribute dict of the argument as its own attribute dict: violation classes
    H, nested = L.build(sp)
    internal = {i: p_ for i, (o, p_) in L.reach(H)[0].items() if i not in nested}
    R = xgi.Hypergraph()
    R.add_node("r")
    R._net_attr = H._net_attr                    # what `dual._net_attr = self._net_attr` would do
    R._node_attr["r"] = H._edge_attr["e"]        # an edge record of the argument adopted as node record of the result
    got = sorted({shared_class(internal[i], p_) for i, (o, p_) in L.reach([R])[0].items() if i in internal})
    ctx.stats["selftest"] += 2
    if got != ["returned-network-shares-attrs", "returned-network-shares-net-attrs"]:
        problems.append(f"oracle self-test: a returned network adopting attribute dicts of the argument classified as {got}")
    # the aliasing walk must see a handed-out internal set
    H, nested = L.build(sp)
    tbl = next(v for v in vars(H).values() if isinstance(v, dict) and list(v) == list(H.edges) and all(isinstance(x, set) for x in v.values()))
    conts, _ = L.reach({"x": [tbl["e"]]})
    internal = {i for i in L.reach(H)[0] if i not in nested}
    if not any(i in internal for i in conts):
        problems.append("oracle self-test: reachability walk missed a shared internal set")
    return problems


# ----------------------------------------------------------------------------- correspondence: model observers

def obs_requests(H, rng):
    """snapshot of a real undirected Hypergraph in the model's terms + observers with the real answers"""
    nodes, edges = list(H.nodes), list(H.edges)
    snap = {"nodes": [enc_id(n) for n in nodes], "edges": [enc_id(e) for e in edges],
            "mem": [[enc_id(e), [enc_id(x) for x in H.edges.members(e)]] for e in edges],
            "memb": [[enc_id(n), [enc_id(x) for x in H.nodes.memberships(n)]] for n in nodes],
            "nattr": [[enc_id(n), enc_attrs_req(a)] for n, a in H._node_attr.items()],
            "eattr": [[enc_id(e), enc_attrs_req(a)] for e, a in H._edge_attr.items()],
            "net": enc_attrs_req(H._net_attr), "uid": next(copy.copy(H._edge_uid)), "frozen": bool(H.is_frozen)}
    absent_n, absent_e = "nope", "nope"
    some_n = nodes[:3] + [absent_n]
    some_e = edges[:3] + [absent_e]

    def guard(f):
        try:
            return f()
        except (xgi.exception.IDNotFound, xgi.exception.XGIError, KeyError):
            return "err"
    S = lambda xs: sorted((enc_id(x) for x in xs), key=idkey)
    A = lambda d: [[str(k), canon_val(v)] for k, v in d.items()]       # attribute key order is compared (not sorted)
    obs = [({"o": "nodeList"}, [enc_id(n) for n in nodes]), ({"o": "edgeList"}, [enc_id(e) for e in edges]),
           ({"o": "numNodes"}, H.num_nodes), ({"o": "numEdges"}, H.num_edges),
           ({"o": "membersDict"}, [[enc_id(e), S(ms)] for e, ms in H.edges.members(dtype=dict).items()]),
           ({"o": "membershipsDict"}, [[enc_id(n), S(es)] for n, es in H.nodes.memberships().items()]),
           ({"o": "isFrozen"}, bool(H.is_frozen)), ({"o": "netAttrs"}, A(H._net_attr)),
           ({"o": "isolates"}, S(H.nodes.isolates())), ({"o": "singletons"}, S(H.edges.singletons())),
           ({"o": "emptyEdges"}, S(H.edges.empty())),
           ({"o": "nodeAttrDict"}, [[enc_id(n), A(a)] for n, a in H._node_attr.items()]),
           ({"o": "edgeAttrDict"}, [[enc_id(e), A(a)] for e, a in H._edge_attr.items()]),
           ({"o": "nextAutoId"}, guard(lambda: next_auto(H)))]
    for n in some_n:
        obs += [({"o": "hasNode", "n": enc_id(n)}, n in H.nodes),
                ({"o": "memberships", "n": enc_id(n)}, guard(lambda: S(H.nodes.memberships(n)))),
                ({"o": "degree", "n": enc_id(n)}, guard(lambda: H.nodes.degree[n])),
                ({"o": "neighbors", "n": enc_id(n)}, guard(lambda: S(H.nodes.neighbors(n)))),
                ({"o": "nodeAttrs", "n": enc_id(n)}, guard(lambda: A(H.nodes[n])))]
    for e in some_e:
        obs += [({"o": "hasEdge", "e": enc_id(e)}, e in H.edges),
                ({"o": "members", "e": enc_id(e)}, guard(lambda: S(H.edges.members(e)))),
                ({"o": "size", "e": enc_id(e)}, guard(lambda: H.edges.size[e])),
                ({"o": "edgeAttrs", "e": enc_id(e)}, guard(lambda: A(H.edges[e])))]
        for n in some_n[:2] + [absent_n]:
            obs.append(({"o": "isMember", "n": enc_id(n), "e": enc_id(e)}, guard(lambda: n in H.edges.members(e))))
    for k in list(H._net_attr)[:2] + ["nokey"]:
        obs.append(({"o": "netAttr", "k": k}, guard(lambda: canon_val(H[k]))))
    return [({"snap": snap, **o}, r) for o, r in obs]


def canon_ordered(j):
    """canonical form of a model response: {"$set": l} -> sorted list; {"$attrs": pairs} -> pairs IN THE MODEL'S ORDER
    (core.canon sorts them by key; attribute key order is part of the statement, so it is compared here)"""
    if isinstance(j, dict):
        if set(j) == {"$set"}:
            return sorted((canon_ordered(x) for x in j["$set"]), key=idkey)
        if set(j) == {"$attrs"}:
            return [[k, canon_ordered(v)] for k, v in j["$attrs"]]
        return {k: canon_ordered(v) for k, v in j.items()}
    if isinstance(j, list):
        return [canon_ordered(x) for x in j]
    return j


def canon_val(v):
    from ..core import enc_val
    return enc_val(v)


def next_auto(H):
    C = H.copy()
    before = set(C.edges)
    C.add_edge([L.PROBE])
    new = [e for e in C.edges if e not in before]
    return [enc_id(x) for x in new]


def in_model_domain(sp):
    if sp["cls"] != "Hypergraph":
        return False
    try:
        for n, _ in sp["nodes"]:
            enc_id(n)
        return True
    except ValueError:
        return False


def correspondence(ctx, specs, ok):
    reqs, want = [], []
    for sp in specs:
        if not in_model_domain(sp):
            continue
        H, _ = L.build(sp)
        for r, w in obs_requests(H, ctx.rng):
            reqs.append(r)
            want.append(w)
    if not ok or not reqs:
        return []
    resps = run_driver("C08", reqs)
    dis = []
    for r, w, m in zip(reqs, want, resps):
        if m.get("out") == "bad-op":
            raise Infra(f"C08 driver rejected a request (harness defect): {json.dumps(r)[:300]}")
        ctx.traces += 1
        ctx.stats["obs:" + r["o"]] += 1
        got = canon_ordered(m.get("v"))
        if got != w:
            dis.append((r, w, got))
    if dis:
        ctx.extra["disagreements"] = [{"request": {k: v for k, v in r.items() if k != "snap"}, "snapshot": r["snap"], "impl": w, "model": g}
                                      for r, w, g in dis[:5]]
        ctx.broken.append(f"correspondence obs~views: model observers and the real views differ on {len(dis)} of {len(reqs)} observations "
                          f"(observers: {sorted({r['o'] for r, _, _ in dis})})")
    return dis


# ----------------------------------------------------------------------------- run

def load_corpus():
    import glob
    out = []
    for f in sorted(glob.glob(os.path.join(VERIF, "corpus", "C08", "*.json"))):
        try:
            j = json.load(open(f))
            out.append(j.get("case", j))
        except Exception:  # noqa
            pass
    return out


def run_case(ctx, targets, case, env):
    cands = [t for t in targets if t.site == case["site"]]
    t = next((t for t in cands if t.extra.get("stat") == case.get("stat")), None) or \
        next((t for t in cands if case.get("stat") is None), None)
    if t is None:
        return None
    subj = Subject(case["network"])
    if t.where(subj.net) is None:
        return None
    if case.get("sequence"):                           # a replay of the held-object family: the whole sequence again
        n0 = len(ctx.violations)
        held_family(ctx, [t], L.fixed_specs(), env, 120, only=case["network"])
        new = ctx.violations[n0:]
        return True, None, [(v["failure_class"], v["detail"]) for v in new]
    return check_call(ctx, t, subj, case["args"], case["kwargs"], env)


def single_variation(t, net, p, v, env):
    """(args, kwargs) of the call that gives parameter p the value v and every other parameter its first choice / default"""
    req = [q for q in t.params if q.default is inspect.Parameter.empty and q.kind != q.KEYWORD_ONLY]
    first = [(param_candidates(t, q, net, env) or list(L.FALLBACK))[0] for q in req]
    kw = dict(t.force)
    if p in req:
        first[req.index(p)] = v
    else:
        kw[p.name] = v
    return [L.encode(x) for x in first], {k: L.encode(x) for k, x in kw.items()}


def sweep(ctx, targets, specs, rot, status, env, budget_end, note):
    """every enumerated option value is CALLED at least once (no time limit for that), and values that have been called but
    never completed are tried again on other admissible networks while the budget lasts"""
    pref = sorted(range(len(specs)), key=lambda i: (specs[i]["frozen"], specs[i]["label"].startswith("random"), i))
    subs = {}
    for t in targets:
        if t.params is None or (t.probe and not t.accepted):
            continue
        for p in t.params:
            tb = rot.state.get((t.site, t.extra.get("stat"), p.name))
            if not tb:
                continue
            for ky, rec in list(tb.items()):
                if rec[2] > 0:
                    continue
                tries = 0
                for i in pref:
                    if rec[2] > 0 or tries >= 3 or (rec[1] > 0 and (time.time() > budget_end or t.heavy and tries >= 1)):
                        break
                    sp = specs[i]
                    if i not in subs:
                        subs[i] = Subject(sp)
                    subj = subs[i]
                    if t.where(subj.net) is None:
                        continue
                    env["spec2"] = spec2_for(specs, sp)
                    c = [v for v in (param_candidates(t, p, subj.net, env) or []) if not _is_default(v, p)]
                    req = p.default is inspect.Parameter.empty and p.kind != p.KEYWORD_ONLY
                    pool = c[1:] if req else c
                    j = next((j for j, v in enumerate(pool) if rot.key(p.name, j, v) == ky), None)
                    if j is None:
                        continue
                    hit = pool[j]
                    args, kwargs = single_variation(t, subj.net, p, hit, env)
                    tries += 1
                    rec[1] += 1
                    okc, exc, viol = check_call(ctx, t, subj, args, kwargs, env)
                    note(t, sp, args, kwargs, okc, exc)
                    ctx.stats["calls:sweep"] += 1
                    if okc:
                        rec[2] += 1


def call_mutator(t, subj, args, kwargs, env):
    """call a DECLARED mutator on a fresh copy; -> (completed, exception text, changed components)"""
    net = subj.net
    obj = t.where(net)
    exc = None
    try:
        f = t.bind(obj)
        env["pname"], env["kwargs"] = "", kwargs
        a = [L.resolve(x, net, env) for x in args]
        kw = {}
        for k, v in kwargs.items():
            env["pname"] = k
            kw[k] = L.resolve(v, net, env)
        with warnings.catch_warnings(), contextlib.redirect_stdout(io.StringIO()):
            warnings.simplefilter("ignore")
            L.with_timeout(lambda: f(*a, **kw), 4)
    except L.CallTimeout:
        exc = "CallTimeout"
    except Exception as ex:  # noqa
        exc = f"{type(ex).__name__}: {str(ex)[:80]}"
    try:
        d = L.diff(subj.before, L.snapshot(net))
    except Exception as ex:  # noqa   (a mutator may leave a state the public reads choke on: that is a change)
        d = [("unreadable", repr(ex)[:80])]
    if d:
        subj.rebuild()
    return exc is None, exc, sorted({c for c, _ in d})


def mutator_crosscheck(ctx, mutators, specs, env):
    """(d) the classification 'declared mutator => never called by the read-only run' rests on documentation (freeze() list,
    `in_place`, no Returns section, mutating protocol methods).  Dynamic cross-check: call each declared mutator on COPIES
    (fresh builds of unfrozen specs) and confirm that it does mutate or raises; one that completes calls and never changes
    anything behaves read-only on everything tried - suspicious classification, reported as an observation."""
    rot = Rotation()
    base = [sp for sp in specs if not sp["frozen"] and sp["nodes"]][:9]
    out = {}
    for e in mutators:
        name, kind, fn = e["name"], e["kind"], e["fn"]
        if kind == "function":
            where = lambda net: net
            bind = (lambda f: (lambda net: (lambda *a, **k: f(net, *a, **k))))(fn)
        else:
            cls, meth = name.split(".", 1)
            where = (lambda c: (lambda net: net if L.base_class_name(net) == c else None))(cls)
            bind = (lambda m: (lambda obj: getattr(obj, m)))(meth)
        ps = _params(fn, 1) if fn is not None else None
        t = Target(name, "declared-mutator", ps, "mutator", {}, where, bind, literals=_lits(fn))
        r = {"calls": 0, "completed": 0, "mutated": 0, "changed": set(), "exc": collections.Counter()}
        for sp in base:
            if r["mutated"] >= 2:
                break
            subj = Subject(sp)
            if t.where(subj.net) is None:
                continue
            try:
                calls = plan_calls(t, subj.net, rot, ctx.rng, 1, env, max_opt=3, combos=0)[:4]
            except Exception as ex:  # noqa
                r["exc"][f"plan: {type(ex).__name__}: {ex}"[:100]] += 1
                continue
            for args, kwargs, _tags in calls:
                okc, exc, changed = call_mutator(t, subj, args, kwargs, env)
                r["calls"] += 1
                ctx.stats["calls:declared-mutator-on-copy"] += 1
                r["completed"] += bool(okc)
                r["mutated"] += bool(changed)
                r["changed"] |= set(changed)
                if exc:
                    r["exc"][exc] += 1
        out[name] = r
    return out


def run(ctx, only_case=None):
    box = {}

    def translate():
        root = os.path.realpath(os.path.dirname(os.path.dirname(os.path.abspath(xgi.__file__))))
        if not os.environ.get("XGI_REPO") and root != os.path.realpath("/repo"):
            # core._restore_generated after a run against a scratch tree: the table is made by introspection of the imported
            # package, so /repo's table has to be regenerated by a fresh interpreter that imports /repo
            import subprocess
            import sys
            env = {k: v for k, v in os.environ.items() if k not in ("XGI_REPO", "PYTHONPATH")}
            subprocess.run([sys.executable, "-m", "harness.c08_translate"], cwd=VERIF, env=env, capture_output=True, timeout=300)
            return
        box["entries"] = T.extract()
        box["excluded_fns"] = list(T.EXCLUDED)
        box["tab"] = T.write(box["entries"])

    ok = build_and_audit(ctx, "XgiModel.Props.C08", ["XgiModel.C08.Drive"], translate=translate)
    t_calls = time.time()                              # (c) the call budget starts AFTER the Lean build
    ctx.extra["lean_build_and_audit_s"] = round(t_calls - ctx.t0, 1)
    entries, tab = box["entries"], box["tab"]
    thorough = not ctx.quick
    targets, mutators, excluded = build_targets(entries, box["excluded_fns"])
    st_targets, st_excluded, later = stat_targets(entries, thorough)
    targets += st_targets
    excluded += st_excluded
    tmp = tempfile.mkdtemp(prefix="c08-")
    env = {"tmp": tmp, "spec2": next(s for s in L.fixed_specs() if s["label"] == "hg-gaps")}
    try:
        if only_case is not None:
            r = run_case(ctx, targets, only_case, env)
            if r is None:
                raise Infra(f"replay: no callable {only_case.get('site')} on this tree")
            print("replay:", "call ok" if r[0] else f"call raised {r[1]}", "| violations:", [c for c, _ in r[2]] or "none")
            for c, d in r[2]:
                print(f"VIOLATION property={ctx.prop} replay={only_case.get('_path', '<case>')}\n  class={c} detail={d[:400]}")
            return 1 if r[2] else 0                    # a replay does not rewrite the evidence file
        for p in oracle_selftest(ctx):
            ctx.broken.append(p)
        specs = L.fixed_specs() + L.family_specs(ctx.rng) + [L.random_spec(ctx.rng, k) for k in range(ctx.n(6, 40))]
        for c in load_corpus():
            run_case(ctx, targets, c, env)
            ctx.stats["corpus_cases"] += 1
        status = {}
        for t in targets:
            status.setdefault(t.site, {"calls": 0, "ok": 0, "ok_nonempty": 0, "classes": set(), "exc": collections.Counter(),
                                       "targets": []})["targets"].append(t)
        rot = Rotation()
        spent = collections.Counter()
        tried_cls = collections.Counter()              # (site, network class) -> networks of that class the target was tried on
        budget_end = t_calls + ctx.n(36, 780)

        def note(t, sp, args, kwargs, okc, exc):
            st = status[t.site]
            st["calls"] += 1
            ctx.stats["calls:" + t.kind] += 1
            if okc:
                st["ok"] += 1
                st["ok_nonempty"] += bool(sp["nodes"] and sp["edges"])
                st["classes"].add(sp["cls"])
                if t.probe:
                    t.accepted = True
                ctx.nontrivial.add(jhash([t.site, t.extra.get("stat"), sp["label"], args, kwargs]))
                if ctx.rng.random() < 0.002 or not ctx.samples:
                    ctx.sample({"site": t.site, "network": sp["label"], "args": args, "kwargs": kwargs}, cap=6)
            else:
                st["exc"][exc[:120]] += 1

        for si, sp in enumerate(specs):
            subj = Subject(sp)
            env["spec2"] = spec2_for(specs, sp)
            full = si < 4 or thorough
            large = bool(sp.get("large"))
            t_large = time.time()
            off = ctx.rng.randrange(len(targets)) if large else 0      # a bounded share per run: start somewhere else every seed
            for t in (targets[off:] + targets[:off]):
                obj = t.where(subj.net)
                if obj is None:
                    continue
                if large:
                    # REGIME family: the functions and the methods / properties of the network classes, default arguments and one
                    # variation, a short per-call limit; a bounded share of the run (what is skipped is counted)
                    if t.kind not in ("function", "method", "property") or t.heavy or (t.probe and not t.accepted) or \
                            t.site.split(".")[0].endswith(("View", "Stat")):
                        continue
                    if time.time() - t_large > ctx.n(4, 60):
                        ctx.stats["regime:skipped-for-time"] += 1
                        continue
                    try:
                        calls = plan_calls(t, subj.net, rot, ctx.rng, 1, env, max_opt=1, combos=0, allfirst=False)[:2]
                    except Exception:  # noqa
                        continue
                    t = copy.copy(t)
                    t.timeout = 2
                    for args, kwargs, tags in calls:
                        okc, exc, viol = check_call(ctx, t, subj, args, kwargs, env)
                        ctx.stats["calls:regime"] += 1
                        ctx.stats["calls:regime-completed"] += bool(okc)
                    continue
                if t.probe and not t.accepted:
                    if sp["cls"] in t.probed or sp["frozen"]:
                        continue
                    t.probed.add(sp["cls"])
                if t.heavy and not thorough and si >= 5:
                    continue
                # out of budget: a target is skipped once it has completed on a network WITH edges and, for each network class,
                # has completed on that class (or was tried on two networks of it) - the branches of the converters and of the
                # class-generic functions (to_hypergraph(DiHypergraph), to_simplicial_complex(Hypergraph), subhypergraph(SC) ...)
                # are taken by the class of the argument, and must not depend on how loaded the machine is
                late = time.time() > budget_end
                if late and status[t.site]["ok_nonempty"] > 0 and \
                        (sp["cls"] in status[t.site]["classes"] or tried_cls[(t.site, sp["cls"])] >= 2 or t.heavy or sp["frozen"]):
                    ctx.stats["skipped-for-time"] += 1
                    continue
                tried_cls[(t.site, sp["cls"])] += 1
                if spent[t.site] > ctx.n(2.5, 60) and status[t.site]["ok_nonempty"] > 0:
                    ctx.stats["skipped-slow-target"] += 1      # one slow callable must not eat the budget of the others
                    continue
                try:
                    if t.probe and not t.accepted:     # dynamic probe: defaults + one variation of each required parameter
                        calls = plan_calls(t, subj.net, rot, ctx.rng, 1, env, max_opt=0, combos=0, allfirst=False)
                    else:
                        calls = plan_calls(t, subj.net, rot, ctx.rng, (2 if full else 1) if not thorough else 3, env,
                                           max_opt=(4 if t.heavy else None) if full else 2, combos=1 if not thorough else 3, allfirst=full)
                        if late and status[t.site]["ok_nonempty"] > 0:
                            calls = calls[:3]          # first visit of this class after the budget: defaults + two variations
                            ctx.stats["calls:class-coverage-after-budget"] += len(calls)
                except Exception as ex:  # noqa
                    status[t.site]["exc"][f"plan: {type(ex).__name__}: {ex}"[:120]] += 1
                    continue
                tc = time.time()
                for args, kwargs, tags in calls:
                    okc, exc, viol = check_call(ctx, t, subj, args, kwargs, env)
                    note(t, sp, args, kwargs, okc, exc)
                    if okc:
                        rot.completed(t, tags)
                spent[t.site] += time.time() - tc
                ctx.stats["ms:" + ("heavy" if t.heavy else t.kind)] += int(1000 * (time.time() - tc))
        sweep(ctx, targets, [sp for sp in specs if not sp.get("large")], rot, status, env, budget_end, note)
        held_family(ctx, targets, specs, env, ctx.n(8, 120))
        mut = mutator_crosscheck(ctx, mutators, specs, env)
        cspecs = [sp for sp in specs if not sp.get("large")]
        if thorough:                                   # exhaustive small scope for the observer correspondence
            from ..fn import all_small_hypergraphs
            small = [L.spec("Hypergraph", [[n, {}] for n in ns], [[list(ms), e, {}] for e, ms in es], {}, label="small")
                     for ns, es in all_small_hypergraphs(4, 3)]
            cspecs += small
            ctx.exhaustive = True
            ctx.extra["exhaustive_space"] = (f"observer correspondence (model obs vs real views) on all {len(small)} hypergraphs with 4 nodes and "
                                             "<= 3 distinct non-empty edges; validation of the model, not of the property")
        dis = correspondence(ctx, cspecs, ok)
    finally:
        shutil.rmtree(tmp, ignore_errors=True)

    # ------------------------------------------------------------------ what was (not) exercised
    unaccepted = {t.site for t in targets if t.probe and not t.accepted}
    # "completed" = at least one call completed on a network that has nodes AND edges (a call that only completes on the empty
    # network says nothing about what the callable does with members)
    exercised = {s: {"ok_calls": v["ok"], "ok_calls_on_networks_with_edges": v["ok_nonempty"], "calls": v["calls"], "classes": sorted(v["classes"])}
                 for s, v in sorted(status.items()) if v["ok_nonempty"]}
    never = {s: v for s, v in sorted(status.items()) if not v["ok_nonempty"] and s not in unaccepted}
    allowed, unexplained = {}, {}
    for s_, v in never.items():
        info = {"calls": v["calls"], "completed_only_on_networks_without_edges": v["ok"],
                "exceptions": dict(v["exc"].most_common(3)) or "not admissible on any generated network"}
        why = never_completes_reason(s_)
        if why:
            allowed[s_] = dict(info, reason=why)
        else:
            unexplained[s_] = info
    for s_ in sorted(unaccepted):
        v = status[s_]
        t = v["targets"][0]
        excluded.append({"name": s_, "reason": f"not recognised as taking a network first ({t.probe}); dynamic probe: {v['calls']} call(s) with a "
                                               f"network of each class {sorted(t.probed)} as first argument all raised "
                                               f"({', '.join(k for k, _ in v['exc'].most_common(2))[:160]})"})
    accepted_by_probe = sorted(t.site for t in targets if t.probe and t.accepted)
    suspicious = {n: {"calls": r["calls"], "completed": r["completed"], "how": next((e.get("how") for e in mutators if e["name"] == n), "")}
                  for n, r in sorted(mut.items()) if r["completed"] > 0 and r["mutated"] == 0}
    opt_total = opt_called = opt_done = 0
    opt_never = []
    for (site, stat, pname), tb in sorted(rot.state.items(), key=lambda kv: (kv[0][0], str(kv[0][1]), kv[0][2])):
        if pname in L.ID_PARAMS or pname.startswith("__") or site in unaccepted:
            continue
        for ky, rec in tb.items():
            opt_total += 1
            opt_called += rec[1] > 0
            opt_done += rec[2] > 0
            if rec[2] == 0:
                opt_never.append(f"{site}{'[' + stat + ']' if stat else ''}({pname}={ky})" + ("" if rec[1] else " NEVER CALLED"))
    ctx.extra["targets_measured"] = {
        "targets": len(status), "called": sum(1 for v in status.values() if v["calls"]), "completed": len(exercised),
        "never_completed": len(never), "never_completed_allowed": len(allowed), "never_completed_reported": len(unexplained),
        "module_level_functions_completed": sum(1 for s_, v in status.items() if v["ok_nonempty"] and v["targets"][0].kind == "function"),
        "module_level_functions": sum(1 for s_, v in status.items() if v["targets"][0].kind == "function" and s_ not in unaccepted),
        "dynamic_probes": len(unaccepted) + len(accepted_by_probe), "accepted_by_dynamic_probe": accepted_by_probe,
        "declared_mutators_cross_checked": len(mut),
        "declared_mutators_seen_mutating": sum(1 for r in mut.values() if r["mutated"]),
        "declared_mutators_always_raising": sorted(n for n, r in mut.items() if r["completed"] == 0),
        "option_values_enumerated": opt_total, "option_values_called": opt_called, "option_values_completed": opt_done,
        "stat_method_pairs_left_to_thorough_tier": later,
    }
    ctx.extra["slowest_targets_s"] = {k: round(v, 2) for k, v in spent.most_common(12)}
    ctx.extra["exercised"] = exercised
    ctx.extra["never_completed_allowed"] = allowed
    ctx.extra["never_completed_reported"] = unexplained
    ctx.extra["excluded_callables"] = sorted(excluded, key=lambda x: x["name"])
    ctx.extra["declared_mutators_not_called_by_the_read_only_run"] = {
        e["name"]: ("function: first-parameter documentation says the argument is modified" if e["kind"] == "function" else
                    ("listed in freeze()" if e.get("how") == "frozen-list" else
                     ("mutating protocol method" if e["name"].split(".", 1)[1] in T.MUTATING_PROTOCOL else
                      "documented as a procedure (no Returns/Yields section)")))
        for e in sorted(mutators, key=lambda e: e["name"])}
    ctx.extra["declared_mutators_completed_but_never_mutated"] = suspicious
    ctx.extra["option_values_never_completed"] = opt_never[:400]
    ctx.extra["in_place_functions_called_with_in_place_False"] = sorted(t.site for t in targets if t.force)
    ctx.extra["api_table"] = {"functions": sum(1 for e in tab if e["kind"] == "function"), "methods": sum(1 for e in tab if e["kind"] != "function"),
                              "with_in_place": [e["name"] for e in tab if e["has_in_place"]],
                              "static_writers": [e["name"] for e in tab if e["ast_writes"] and e["kind"] == "function"]}
    ctx.extra["networks"] = [s["label"] + ":" + s["cls"] + (":frozen" if s["frozen"] else "") for s in specs]
    ctx.stats["targets"] = len(status)
    ctx.stats["targets_exercised"] = len(exercised)
    ctx.stats["targets_never_completed"] = len(never)
    ctx.stats["option_values_never_called"] = opt_total - opt_called
    if opt_total != opt_called:
        ctx.broken.append(f"{opt_total - opt_called} enumerated option value(s) were never called (harness defect: the sweep must call each)")
    ctx.rule = ("targets = every public module-level function whose first parameter is a network (signature + numpydoc, see "
                "c08_translate; the other public functions are probed dynamically with a network of each class as first argument and "
                "become targets when such a call completes), every public method/property/protocol method of the three network classes "
                "that is not a declared mutator, every method of the view and stat classes, every stat accessor; declared in-place "
                "functions only with in_place=False; declared mutators are called on copies only (cross-check that they mutate).  "
                f"Networks = {len(L.fixed_specs())} fixed (three classes; explicit IDs incl. 0, empty edges, isolated nodes, multi-edges, "
                "one-element networks, nested mutable attribute values at three levels, non-sorted attribute key order, frozen twins) + "
                "seeded random ones.  Arguments: per parameter, the literals the function's own body compares the parameter with, then "
                "per-parameter-name generators; one parameter varied at a time with ROTATION (the next value is one that has not completed "
                "yet, then the least-called one), one random combination of optional parameters per target and network, and a final "
                "sweep that calls every enumerated value not yet called.  One evaluation = one call (also when it raises) with "
                "before/after deep snapshot + aliasing walk + in-place mutation of the result.  Distinct non-trivial = distinct "
                "(site, network, arguments) whose call completed.")
    ctx.assumptions = [
        "a target counts as exercised when at least one generated call completed without raising; calls that raise are still compared "
        "before/after; a target with zero completed calls is reported (never-completed) unless it is in the documented list "
        "NEVER_COMPLETES of callables that raise inside xgi for every input",
        "aliasing: a result sharing one of the argument's STRUCTURAL containers (member/membership sets, node/edge tables, attribute "
        "tables, counter) is a violation; sharing of ATTRIBUTE dicts (alias-attrs, alias-net-attrs: H.nodes[n], attrs statistics, "
        "to_hif_dict, to_hypergraph_dict) is an observation - except when a RETURNED NETWORK keeps such a dict as its own attribute "
        "dict (returned-network-shares-net-attrs / -attrs) or the result is the argument itself (returns-its-argument): violations; "
        "sharing of caller-supplied nested attribute values (what a shallow dict copy does) is only counted "
        "(alias:shared-user-attribute-values, per site in results_sharing_caller_supplied_nested_values)",
        "live views / stat objects returned by the API reference their network by design and are not entered by the walk; matplotlib artists "
        "and scipy sparse matrices are leaves of the walk",
        "iteration order of member/membership sets is compared as the order a loop over the stored set sees (component "
        "set-iteration-order); two sets with the same elements and the same loop order are the same",
        "parameters documented as constructors (create_using) are factories, not input networks",
        "admissible argument values are sampled, not enumerated: literals of the body + name-based generators; combinations of "
        "optional parameters only at random",
        "the Lean model and the observer correspondence cover xgi.Hypergraph with int/str/tuple IDs on small networks; the other classes, the "
        "subclasses, the large and the tuple-labelled networks are judged by the before/after comparison only",
        "network sizes: fixed and random networks have <= 7 nodes / <= 7 edges; three large networks (72 IDs, 198 edges of which 132 parallel, IDs above "
        "2**53) are visited by functions and network methods with default arguments for a bounded time (regime:skipped-for-time counts what was left)",
        "a private field that neither a new network of the class nor the argument before the call has is an observation (new_private_fields_observed), "
        "not a violation",
    ]
    # verdict: findings already listed as known must not hide a broken obligation / correspondence
    fresh = [v for v in unlisted_violations(ctx) if v["kind"] == "concrete"]
    if (dis or not ok or ctx.broken) and not fresh:
        more = [L.random_spec(ctx.rng, 1000 + k) for k in range(ctx.n(12, 60))]      # search harder on the implementation
        t1 = time.time()
        env["tmp"] = tempfile.mkdtemp(prefix="c08-")
        # entries the static scan calls writers although nothing declares them mutators (what breaks the table theorem): every
        # candidate value of every parameter on every network first
        suspects = {e["name"] for e in tab if e["ast_writes"] and not e["has_in_place"] and not e["doc_mutator"]}
        ctx.extra["static_scan_suspects"] = sorted(suspects)
        try:
            for sp in (specs + more if suspects else []):
                subj = Subject(sp)
                for t in targets:
                    if t.site not in suspects or t.where(subj.net) is None or time.time() - t1 > ctx.n(20, 150):
                        continue
                    try:
                        for args, kwargs, tags in plan_calls(t, subj.net, rot, ctx.rng, 50, env, combos=2):
                            check_call(ctx, t, subj, args, kwargs, env)
                            ctx.stats["targeted-search-calls"] += 1
                    except Exception:  # noqa
                        continue
            for sp in more:
                subj = Subject(sp)
                for t in targets:
                    obj = t.where(subj.net)
                    if obj is None or (t.probe and not t.accepted) or time.time() - t1 > ctx.n(40, 300):
                        continue
                    try:
                        for args, kwargs, tags in plan_calls(t, subj.net, rot, ctx.rng, 2, env, max_opt=4)[:8]:
                            check_call(ctx, t, subj, args, kwargs, env)
                            ctx.stats["targeted-search-calls"] += 1
                    except Exception:  # noqa
                        continue
        finally:
            shutil.rmtree(env["tmp"], ignore_errors=True)
        fresh = [v for v in unlisted_violations(ctx) if v["kind"] == "concrete"]
        if not fresh:
            ctx.violation("model-tie", "unproven", {"broken": ctx.broken, "example": ctx.extra.get("disagreements", [])[:1]},
                          detail="; ".join(ctx.broken)[:500], kind="unproven", broken=ctx.broken)
    # (b) a target no generated call completes for proves nothing about that callable: reported, never silently accepted
    for s_, info in unexplained.items():
        ctx.violation(s_, "never-completed", {"site": s_, **info},
                      detail=f"{s_}: none of the {info['calls']} generated call(s) completed on a network with nodes and edges "
                             f"({info['exceptions']}); its read-only behaviour was never observed on a completed call and it is not in the "
                             "documented list of callables that cannot complete (harness/props/c08.py NEVER_COMPLETES)", kind="unproven",
                      broken=[f"{s_}: zero completed calls"])
    return finish(ctx, level="proof", trusted_base=TRUSTED_COMMON + [
        "harness/c08_translate.py (introspection + AST scan; its classification is cross-checked dynamically: every entry it does not "
        "declare a mutator is run under the snapshot comparison, every declared mutator is called on copies, every public function "
        "it does not recognise as network-first is probed with a network as first argument)",
        "private reads: copy.copy(H._edge_uid); vars(H) read generically for the raw state; H._node_attr/_edge_attr/_net_attr key order "
        "when encoding a network for the model's observers; the private field names _node/_edge/_node_attr/_edge_attr/_net_attr to "
        "classify WHICH internal container a result shares (structural vs attribute dict)",
        "id()-based reachability walk and in-place scribbling of results; oracle self-test (20 seeded kinds of change / sharing must be reported)"])


def replay(ctx, path):
    j = json.load(open(path))
    case = dict(j.get("case", j))
    case["_path"] = path
    return run(ctx, only_case=case)
