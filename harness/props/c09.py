"""C09 — structural measures are invariant under relabelling and insertion order.

For every generated hypergraph:
 (i)  model vs implementation on the original, for the measures modelled in lean/XgiModel/C09/Measures.lean;
 (ii) metamorphic check on the implementation itself: two re-insertions under the identity labelling and
      three relabellings (other integers with gaps; a non-identity permutation of 0..k-1 / 0..m-1; strings)
      x two insertion orders; every structural quantity of the statement must be unchanged except by the
      same renaming.  The networks carry an edge attribute "weight" (absent on some edges) and a node attribute
      "mass", carried along by the relabelling, and the weighted / attribute-reading variants are among the
      quantities (degree(weight=), incidence_matrix(weight=), normalized Laplacian weighted=True, attrs,
      filterby_attr, line-graph weights).  A difference is a concrete violation (site = function name, failure_class =
      "not-order-invariant" for the identity labelling, "not-relabel-invariant" otherwise; replay = the two
      networks, shrunk).
 (iii) a quantity that raises on EVERY generated original is not exercised at all: it is listed in the evidence
      (`always_raises`) and reported as unproven (exit 1, no-failing-input-found), never counted as invariant.
"""
import copy
import glob
import json
import math
import os
from collections import Counter
from fractions import Fraction

import numpy as np

import xgi

from .. import c09_measures as CM
from ..core import unlisted_violations  # noqa: E402
from ..core import Infra, TRUSTED_COMMON, VERIF, build_and_audit, canon, dec_id, enc_id, finish, jhash, run_driver
from ..fn import EDGE_IDS, LABELS, all_small_hypergraphs, enc_net, gen_hypergraph

RELABELS = ("ints", "perm", "str")


# ------------------------------------------------------------------------------------------------ cases and variants

def gen_case(rng, i):
    """(nodes, edges); edge-ID schemes are cycled so that identity, reversed / rotated permutations of 0..m-1,
    gaps, strings and mixed IDs all occur; node labels are drawn from ints, gapped ints, strings, mixed"""
    eid = EDGE_IDS[i % len(EDGE_IDS)]
    lab = LABELS[(i // len(EDGE_IDS)) % len(LABELS)] if i % 3 else None
    uniform = rng.random() < 0.2
    nodes, edges = gen_hypergraph(rng, max_nodes=rng.choice([3, 5, 6, 7]), max_edges=rng.choice([2, 4, 6, 7]), max_size=rng.choice([2, 3, 4]),
                                  labels=lab, edge_ids=eid, isolated=rng.random() < 0.7, multi=rng.random() < 0.6,
                                  singletons=(not uniform) and rng.random() < 0.6)
    if not edges and rng.random() < 0.85:
        return gen_case(rng, i)
    if uniform and edges and len(nodes) >= 2:
        k = min(len(nodes), rng.choice([2, 3]))
        edges = [(e, rng.sample(nodes, k)) for e, _ in edges]
    return nodes, edges


def gen_big_case(rng, i):
    """9-11 nodes and 2-5 edges whose SIZES contain a pair (a, a+8) (or, in a third of the cases, 9-10 small edges through
    one hub node, so that DEGREES 9 / 10 occur next to 1 / 2) — e.g. a singleton and a 9-member edge: small ints
    that collide in an 8-slot hash table, so that anything which iterates over a set / dict of sizes (or degrees up to
    5) in table order instead of sorting depends on which edge was inserted first.  (Found by the mutation sweep:
    unique_edge_sizes with sorted() dropped is order dependent only from edge size 9 on.)"""
    k = rng.choice([9, 10, 11])
    lab = [lambda k: list(range(k)), lambda k: [3 * j + 2 for j in range(k)], lambda k: ["v%d" % j for j in range(k)],
           lambda k: list(range(1, k + 1))][(i // 12) % 4](k)
    rng.shuffle(lab)
    if rng.random() < 0.35:
        # the same for DEGREES: a hub in 9-10 small edges (degree 9 / 10 next to degrees 1 / 2)
        m = rng.choice([9, 10])
        eid = EDGE_IDS[(i // 12) % len(EDGE_IDS)](m)
        hub, rest = lab[0], lab[1:]
        edges = [(eid[j], [hub] + rng.sample(rest, rng.choice([1, 1, 2]))) for j in range(m)]
        rng.shuffle(edges)
        return lab, edges
    a = rng.choice([s for s in (1, 2, 3) if s + 8 <= k])
    sizes = [a, a + 8] + [rng.choice([1, 2, 3, 4, 8, 9]) for _ in range(rng.randint(0, 3))]
    rng.shuffle(sizes)
    eid = EDGE_IDS[(i // 12) % len(EDGE_IDS)](len(sizes))
    return lab, [(eid[j], rng.sample(lab, min(k, sz))) for j, sz in enumerate(sizes)]


WEIGHTS = [1, 2, 3, 0.5, 2.5]
MASSES = [1, 2, 5]
BIG_EVERY = 12          # every 12th generated case is a gen_big_case


def gen_attrs(rng, nodes, edges):
    """edge attribute "weight" on ~75 % of the edges (the rest default to 1 in every weighted measure), node attribute
    "mass" on ~75 % of the nodes; with probability 0.15 no attributes at all"""
    if rng.random() < 0.15:
        return [], []
    nattr = [[enc_id(n), {"mass": rng.choice(MASSES)}] for n in nodes if rng.random() < 0.75]
    eattr = [[enc_id(e), {"weight": rng.choice(WEIGHTS)}] for e, _ in edges if rng.random() < 0.75]
    return nattr, eattr


def mk_case(rng, i):
    nodes, edges = gen_big_case(rng, i) if i % BIG_EVERY == 5 else gen_case(rng, i)
    nattr, eattr = gen_attrs(rng, nodes, edges)
    return {"nodes": [enc_id(n) for n in nodes], "edges": [[enc_id(e), [enc_id(x) for x in ms]] for e, ms in edges],
            "nattr": nattr, "eattr": eattr}


def _attrs(case):
    return ({json.dumps(n): a for n, a in case.get("nattr", [])}, {json.dumps(e): a for e, a in case.get("eattr", [])})


def _nonid_perm(rng, k):
    p = list(range(k))
    if k >= 2:
        while p == list(range(k)):
            rng.shuffle(p)
    return p


def make_variant(rng, nodes, edges, relabel, nodes_first):
    """a relabelling (pi, sigma) plus a new insertion order of nodes, edges and members"""
    k, m = len(nodes), len(edges)
    norder = list(nodes)
    rng.shuffle(norder)
    eorder = [(e, rng.sample(list(ms), len(ms))) for e, ms in edges]
    rng.shuffle(eorder)
    if relabel == "id":
        pi = {n: n for n in nodes}
        sigma = {e: e for e, _ in edges}
    elif relabel == "ints":
        pi = dict(zip(nodes, rng.sample(range(40, 43 + 3 * k), k)))
        sigma = dict(zip([e for e, _ in edges], rng.sample(range(20, 23 + 3 * m), m)))
    elif relabel == "perm":
        # the ID of the p-th inserted edge is perm[p] != p for some p: an ID is not its position
        pp, pe = _nonid_perm(rng, k), _nonid_perm(rng, m)
        pi = {n: pp[i] for i, n in enumerate(norder)}
        sigma = {e: pe[i] for i, (e, _) in enumerate(eorder)}
    elif relabel == "str":
        # multi-digit suffixes so that string order ("n10" < "n2") differs from numeric order
        names = rng.sample(["n%d" % i for i in (1, 2, 3, 10, 11, 20, 21, 100, 101, 200)] + list("pqrstuvw"), k)
        enames = rng.sample(["e%d" % i for i in (1, 2, 3, 10, 11, 20, 21, 100, 101, 200)] + list("ABCDEFG"), m)
        pi = dict(zip(nodes, names))
        sigma = dict(zip([e for e, _ in edges], enames))
    else:
        raise ValueError(relabel)
    return {"relabel": relabel, "nodes_first": bool(nodes_first),
            "pi": [[enc_id(a), enc_id(b)] for a, b in pi.items()], "sigma": [[enc_id(a), enc_id(b)] for a, b in sigma.items()],
            "nodes": [enc_id(n) for n in norder], "edges": [[enc_id(e), [enc_id(x) for x in ms]] for e, ms in eorder]}


def build_orig(case):
    na, ea = _attrs(case)
    H = xgi.Hypergraph()
    for n in case["nodes"]:
        H.add_node(dec_id(n), **na.get(json.dumps(n), {}))
    for e, ms in case["edges"]:
        H.add_edge([dec_id(x) for x in ms], idx=dec_id(e), **ea.get(json.dumps(e), {}))
    return H


def build_variant(var, case=None):
    """the relabelled / re-inserted network; attributes of `case` travel with their node / edge.  With nodes_first the
    attributes are given at insertion, otherwise nodes are created by the edges and all attributes are attached
    afterwards with set_node_attributes / set_edge_attributes (a second way of arriving at the same network)"""
    pi = {dec_id(a): dec_id(b) for a, b in var["pi"]}
    sigma = {dec_id(a): dec_id(b) for a, b in var["sigma"]}
    na, ea = _attrs(case or {})
    H = xgi.Hypergraph()
    if var["nodes_first"]:
        for n in var["nodes"]:
            H.add_node(pi[dec_id(n)], **na.get(json.dumps(n), {}))
        for e, ms in var["edges"]:
            H.add_edge([pi[dec_id(x)] for x in ms], idx=sigma[dec_id(e)], **ea.get(json.dumps(e), {}))
    else:
        for e, ms in var["edges"]:
            H.add_edge([pi[dec_id(x)] for x in ms], idx=sigma[dec_id(e)])
        H.add_nodes_from([pi[dec_id(n)] for n in var["nodes"]])
        nv = {pi[dec_id(n)]: na[json.dumps(n)] for n in var["nodes"] if json.dumps(n) in na}
        ev = {sigma[dec_id(e)]: ea[json.dumps(e)] for e, _ in var["edges"] if json.dumps(e) in ea}
        if nv:
            H.set_node_attributes(nv)
        if ev:
            H.set_edge_attributes(ev)
    return H, {v: k for k, v in pi.items()}, {v: k for k, v in sigma.items()}


def variant_net(var, case=None):
    """the relabelled network as plain data (for the replay file)"""
    pi = {dec_id(a): dec_id(b) for a, b in var["pi"]}
    sigma = {dec_id(a): dec_id(b) for a, b in var["sigma"]}
    na, ea = _attrs(case or {})
    return {"nodes_first": var["nodes_first"], "nodes": [enc_id(pi[dec_id(n)]) for n in var["nodes"]],
            "edges": [[enc_id(sigma[dec_id(e)]), [enc_id(pi[dec_id(x)]) for x in ms]] for e, ms in var["edges"]],
            "nattr": [[enc_id(pi[dec_id(n)]), na[json.dumps(n)]] for n in var["nodes"] if json.dumps(n) in na],
            "eattr": [[enc_id(sigma[dec_id(e)]), ea[json.dumps(e)]] for e, _ in var["edges"] if json.dumps(e) in ea]}


def differs(case, var, label):
    """does measure `label` differ between the original and the variant (mapped back)?  returns detail or None"""
    site, _, shape, tol, flags, _ = CM.BY_LABEL[label]
    H = build_orig(case)
    idn, ide = {n: n for n in H.nodes}, {e: e for e in H.edges}
    a = CM.evaluate(H, idn, ide, labels={label})[label]
    H2, inv_n, inv_e = build_variant(var, case)
    b = CM.evaluate(H2, inv_n, inv_e, labels={label})[label]
    if CM.same(a, b, tol):
        return None
    return f"{label}: original vs {var['relabel']}-relabelled/reordered (mapped back): " + CM.first_diff(a, b, tol)


def hangs(case, label):
    """does measure `label` give no answer on the original within the CPU budget?  returns detail or None"""
    H = build_orig(case)
    a = CM.evaluate(H, {n: n for n in H.nodes}, {e: e for e in H.edges}, labels={label}).get(label)
    if a == CM.NO_ANSWER:
        return (f"{label}: no answer within {CM.GUARD['s'] * (5 if CM.GUARD['retry'] else 1):g} s of CPU time on a network of "
                f"{len(case['nodes'])} nodes / {len(case['edges'])} edges")
    return None


def forced(f, *args, quick=False):
    """run f under the guard settings of the shrinker / replay: dead measures are evaluated again; `quick` = a quarter of
    the budget and no second attempt"""
    old = dict(CM.GUARD)
    CM.GUARD.update({"force": True}, **({"s": 0.5, "retry": False} if quick else {}))
    try:
        return f(*args)
    finally:
        CM.GUARD.update(old)


def shrink(case, var, label, budget=150, still=None):
    """greedy: drop edges, unused nodes, single members (from both networks) while the difference persists (or, with
    `still`, while still(case, var) holds); runs under the quick guard settings"""
    case, var = copy.deepcopy(case), copy.deepcopy(var)
    still = still or (lambda c, v: differs(c, v, label) is not None)

    def ok(c, v):
        nonlocal budget
        budget -= 1
        try:
            return forced(still, c, v, quick=True)
        except Exception:  # noqa
            return False

    changed = True
    while changed and budget > 0:
        changed = False
        for e, _ in list(case["edges"]):
            c = copy.deepcopy(case); v = copy.deepcopy(var)
            c["edges"] = [p for p in c["edges"] if p[0] != e]
            v["edges"] = [p for p in v["edges"] if p[0] != e]
            v["sigma"] = [p for p in v["sigma"] if p[0] != e]
            if budget > 0 and ok(c, v):
                case, var, changed = c, v, True
        used = {x for _, ms in case["edges"] for x in ms}
        for n in list(case["nodes"]):
            if n in used:
                continue
            c = copy.deepcopy(case); v = copy.deepcopy(var)
            c["nodes"] = [x for x in c["nodes"] if x != n]
            v["nodes"] = [x for x in v["nodes"] if x != n]
            v["pi"] = [p for p in v["pi"] if p[0] != n]
            if budget > 0 and ok(c, v):
                case, var, changed = c, v, True
        for e, ms in list(case["edges"]):
            for x in list(ms):
                if len(ms) <= 1:
                    break
                c = copy.deepcopy(case); v = copy.deepcopy(var)
                for p in c["edges"]:
                    if p[0] == e:
                        p[1] = [y for y in p[1] if y != x]
                for p in v["edges"]:
                    if p[0] == e:
                        p[1] = [y for y in p[1] if y != x]
                if budget > 0 and ok(c, v):
                    case, var, changed = c, v, True
                    ms = [y for y in ms if y != x]
    return case, var


# ------------------------------------------------------------------------------------------------ model side

def _rat(s):
    if isinstance(s, (int, float)):
        return s
    if s == "nan":
        return float("nan")
    if s == "inf":
        return float("inf")
    if isinstance(s, str) and s.startswith("err:"):
        return ("$err", {"err:lib": "XGIError", "err:value": "ValueError", "err:type": "TypeError", "err:index": "IndexError"}[s])
    p, q = s.split("/")
    return float(Fraction(int(p), int(q)))


def _pairs_dict(pairs, f=lambda x: x):
    return {dec_id(k): f(v) for k, v in pairs}


def model_request(case):
    return {"f": "measures", "net": {"nodes": case["nodes"], "edges": case["edges"]},
            "dens": [list(t) for t in CM.DENS_GRID], "mats": [list(t) for t in CM.MAT_GRID], "laps": list(CM.LAP_GRID)}


def _mat_of(obj, n_rows, cols_key="cols", square=False):
    rows = [dec_id(r) for r in obj["rows"]]
    cols = rows if square else [dec_id(c) for c in obj[cols_key]]
    if square:
        if not rows or obj["ne"] == 0:
            return {"$noindex": (len(rows), len(rows), True)}
    elif not rows or not cols:
        return {"$noindex": (0, 0, True)}
    return {(r, c): obj["M"][i][j] for i, r in enumerate(rows) for j, c in enumerate(cols)}


def model_values(resp):
    """model response -> {key: (shape, value)} in the vocabulary of c09_measures"""
    idn = None
    out = {}
    nd = lambda key, f=lambda x: x: (CM.ND, _pairs_dict(resp[key], f))
    out["nodes.degree"] = nd("degree")
    out["edges.size"] = (CM.ED, _pairs_dict(resp["size"]))
    out["unique_edge_sizes"] = ('x', list(resp["unique_edge_sizes"]))
    out["nodes.neighbors"] = (('dict', 'n', ('set', 'n')), _pairs_dict(resp["neighbors"], lambda l: [dec_id(x) for x in l]))
    out["nodes.average_neighbor_degree"] = nd("average_neighbor_degree", _rat)
    out["clustering_coefficient"] = nd("clustering_coefficient", _rat)
    out["local_clustering_coefficient"] = nd("local_clustering_coefficient", _rat)
    for k in ("union", "min", "max"):
        out[f"two_node_clustering_coefficient:{k}"] = nd(f"two_node_clustering_coefficient:{k}", _rat)
    out["connected_components"] = (('set', ('set', 'n')), [[dec_id(x) for x in c] for c in resp["connected_components"]])
    out["number_connected_components"] = ('x', resp["number_connected_components"])
    out["is_connected"] = ('x', _rat(resp["is_connected"]) if isinstance(resp["is_connected"], str) else resp["is_connected"])
    out["node_connected_component"] = (('dict', 'n', ('set', 'n')), _pairs_dict(resp["node_connected_component"], lambda l: [dec_id(x) for x in l]))
    out["shortest_path_length"] = (('dict', 'n', ('dict', 'n', 'x')), _pairs_dict(resp["shortest_path_length"], lambda d: _pairs_dict(d, _rat)))
    for i in range(len(CM.DENS_GRID)):
        out[f"density:{i}"] = ('x', _rat(resp["density"][i]))
        out[f"incidence_density:{i}"] = ('x', _rat(resp["incidence_density"][i]))
    for key, lab in (("maximal", "edges.maximal"), ("maximal:strict", "edges.maximal(strict)")):
        v = resp[key]
        out[lab] = ('x', _rat(v)) if isinstance(v, str) else (('set', 'e'), [dec_id(x) for x in v])
    out["duplicates"] = (('set', 'e'), [dec_id(x) for x in resp["duplicates"]])
    if resp.get("duplicates_exact") != "unmodelled":     # the exact result of H.edges.duplicates() (model: `duplicates`)
        out["duplicates_exact"] = (('set', 'e'), [dec_id(x) for x in resp["duplicates_exact"]])
    out["degree_pairs"] = ('x', sorted(tuple(p) for p in resp["degree_pairs"]))
    for i, (o, s, w) in enumerate(CM.MAT_GRID):
        out[f"incidence_matrix#{i}"] = (CM.NE, _mat_of(resp["incidence_matrix"][i], None))
        out[f"adjacency_matrix#{i}"] = (CM.NN, _mat_of(resp["adjacency_matrix"][i], None, square=True))
    for i, d in enumerate(CM.LAP_GRID):
        out[f"laplacian#{i}"] = (CM.NN, _mat_of(resp["laplacian"][i], None, square=True))
    return out


def _captured_pairs(H):
    """the degree pairs handed to np.corrcoef by degree_assortativity(kind='uniform', exact=True)"""
    seen = {}
    orig = np.corrcoef

    def spy(x, *a, **k):
        seen["x"] = np.array(x)
        return orig(x, *a, **k)
    np.corrcoef = spy
    try:
        try:
            CM._quiet(lambda G: xgi.degree_assortativity(G, kind="uniform", exact=True))(H)
        except (Exception, CM.NoAnswer):  # noqa
            pass
    finally:
        np.corrcoef = orig
    if "x" not in seen:
        return None
    x = seen["x"]
    if x.size == 0:
        return []
    return sorted((int(a), int(b)) for a, b in x.T.tolist())


def impl_for_model(H, base):
    """the implementation's values for the keys of model_values (raw, label-keyed)"""
    out = {}
    for lab in ("nodes.degree", "edges.size", "unique_edge_sizes", "nodes.neighbors", "nodes.average_neighbor_degree", "clustering_coefficient",
                "local_clustering_coefficient", "two_node_clustering_coefficient:union", "two_node_clustering_coefficient:min",
                "two_node_clustering_coefficient:max", "connected_components", "number_connected_components", "is_connected",
                "node_connected_component", "shortest_path_length", "edges.maximal", "edges.maximal(strict)"):
        out[lab] = base.get(lab, CM.NO_ANSWER)
    for i in range(len(CM.DENS_GRID)):
        out[f"density:{i}"] = base.get(f"density:{i}", CM.NO_ANSWER)
        out[f"incidence_density:{i}"] = base.get(f"incidence_density:{i}", CM.NO_ANSWER)
    d = base.get("edges.duplicates (classes)", CM.NO_ANSWER)
    out["duplicates"] = d[2] if isinstance(d, tuple) and d and d[0] != "$err" else d
    idn, ide = {n: n for n in H.nodes}, {e: e for e in H.edges}
    try:
        out["duplicates_exact"] = CM.norm(('set', 'e'), CM._quiet(lambda G: set(G.edges.duplicates()))(H), idn, ide)
    except CM.NoAnswer:
        out["duplicates_exact"] = CM.NO_ANSWER
    except Exception as ex:  # noqa
        out["duplicates_exact"] = ("$err", type(ex).__name__)

    def ev(shape, f):
        try:
            return CM.norm(shape, CM._quiet(f)(H), idn, ide)
        except CM.NoAnswer:
            return CM.NO_ANSWER
        except Exception as ex:  # noqa
            return ("$err", type(ex).__name__)
    for i, (o, s, w) in enumerate(CM.MAT_GRID):
        out[f"incidence_matrix#{i}"] = ev(CM.NE, CM._inc(o, False))
        out[f"adjacency_matrix#{i}"] = ev(CM.NN, CM._adj(o, s, w, False))
    for i, dd in enumerate(CM.LAP_GRID):
        out[f"laplacian#{i}"] = ev(CM.NN, CM._lap(dd, False, False))
    p = _captured_pairs(H)
    out["degree_pairs"] = None if p is None else CM.plain(p)
    return out


MODEL_SITE = lambda key: key.replace("duplicates_exact", "duplicates").split("#")[0].split(":")[0].replace("nodes.", "").replace("edges.", "").replace("(strict)", "")


def compare_model(case, H, base, resp):
    """returns list of (site, key, impl, model) disagreements"""
    idn, ide = {n: n for n in H.nodes}, {e: e for e in H.edges}
    mv = model_values(resp)
    iv = impl_for_model(H, base)
    dis = []
    for key, (shape, val) in mv.items():
        m = val if (isinstance(val, tuple) and val and val[0] == "$err") else CM.norm(shape, val, idn, ide)
        i = iv[key]
        if key == "degree_pairs":
            if i is None:
                continue        # degree_assortativity raised before forming the pairs (no nodes / no edges)
            m = CM.plain(val)
        if not CM.same(i, m, 1e-9):
            dis.append((MODEL_SITE(key), key, i, m))
    return dis


# ------------------------------------------------------------------------------------------------ the check

def load_corpus():
    out = []
    for f in sorted(glob.glob(os.path.join(VERIF, "corpus", "C09", "*.json"))):
        try:
            j = json.load(open(f))
            if "nodes" in j and "edges" in j:
                out.append({"nodes": j["nodes"], "edges": j["edges"], "nattr": j.get("nattr", []), "eattr": j.get("eattr", [])})
        except Exception:  # noqa
            pass
    return out


def classify(case):
    eids = [e for e, _ in case["edges"]]
    m = len(eids)
    if m and all(isinstance(e, int) for e in eids):
        if eids == list(range(m)):
            return "eids:identity"
        if sorted(eids) == list(range(m)):
            return "eids:nonidentity-permutation"
        return "eids:int-gaps"
    if m and all(isinstance(e, str) for e in eids):
        return "eids:strings"
    return "eids:mixed" if m else "eids:none"


def base_skip_flags(case):
    """flags of measures that cannot be evaluated on this case at all"""
    nodes = [dec_id(n) for n in case["nodes"]]
    eids = [dec_id(e) for e, _ in case["edges"]]
    return ({"orderable"} if not CM.orderable(nodes) else set()) | ({"eids-orderable"} if not CM.orderable(eids) else set())


def metamorphic(ctx, case, base, H, labels=None, first_seen=None):
    """the six relabel x order variants plus two pure re-insertions; records violations"""
    rng = ctx.rng
    nodes = [dec_id(n) for n in case["nodes"]]
    edges = [(dec_id(e), [dec_id(x) for x in ms]) for e, ms in case["edges"]]
    skip0 = base_skip_flags(case)
    if "orderable" in skip0:
        ctx.stats["simpliciality-skipped:mixed-node-labels"] += 1
    failed_order = set()
    obs0 = CM.observe(H, {n: n for n in H.nodes}, {e: e for e in H.edges}) if labels is None else {}
    for relabel in ("id",) + RELABELS:
        for nodes_first in (True, False):
            var = make_variant(rng, nodes, edges, relabel, nodes_first)
            H2, inv_n, inv_e = build_variant(var, case)
            if relabel == "perm" and len(edges) >= 2 and list(H2.edges) != list(range(len(edges))):
                ctx.stats["variant:edge-id-differs-from-position"] += 1
            res = CM.evaluate(H2, inv_n, inv_e, labels=labels, skip_flags=skip0 | (set() if relabel == "id" else {"order-only"}))
            if obs0:
                for (site, label, shape, tol, _), (_, b) in zip(CM.OBS, CM.observe(H2, inv_n, inv_e).items()):
                    if not CM.same(obs0[label], b, tol):
                        ctx.stats["outside-statement-differs:" + label] += 1
                        ctx.extra.setdefault("outside_statement_examples", {}).setdefault(
                            label, {"original": case, "relabelled": variant_net(var, case), "detail": CM.first_diff(obs0[label], b, tol)})
            ctx.evaluations += len(res)
            ctx.stats["variant:" + relabel] += 1
            for label, b in res.items():
                site, _, shape, tol, flags, _ = CM.BY_LABEL[label]
                if label not in base:
                    continue
                a = base[label]
                if CM.same(a, b, tol):
                    continue
                again = relabel != "id" and label in failed_order
                cls = "not-order-invariant" if (relabel == "id" or again) else "not-relabel-invariant"
                if relabel == "id":
                    failed_order.add(label)
                detail = (f"{label}: original vs {relabel}-relabelled/reordered (mapped back)"
                          + (" [already differs under re-insertion alone]" if again else "") + ": " + CM.first_diff(a, b, tol))
                c, v = case, var
                if first_seen is not None and (site, cls) not in first_seen:
                    first_seen.add((site, cls))
                    c, v = shrink(case, var, label, budget=40 if CM.NO_ANSWER in (a, b) else 150)
                    d2 = forced(differs, c, v, label)       # the shrunk pair must still differ under the full budget
                    c, v, detail = (c, v, d2) if d2 else (case, var, detail)
                ctx.violation(site, cls, {"measure": label, "original": c, "variant": v, "relabelled": variant_net(v, c)}, detail=detail)
                ctx.stats["violation:" + site] += 1


def run_cases(ctx, cases, model=True, meta=True, labels=None, first_seen=None, dis_sites=None):
    reqs, keep, xreqs, xexp = [], [], [], []
    for case in cases:
        H = build_orig(case)
        idn, ide = {n: n for n in H.nodes}, {e: e for e in H.edges}
        nodes = [dec_id(n) for n in case["nodes"]]
        base = CM.evaluate(H, idn, ide, labels=labels, skip_flags=base_skip_flags(case))
        ctx.evaluations += len(base)
        for lab, val in base.items():
            if val == CM.NO_ANSWER:          # never "the same exception on both sides": the measure did not return
                site, cls, c = CM.BY_LABEL[lab][0], "no-answer-within-cpu-budget", case
                detail = f"{lab}: no answer within {5 * CM.GUARD['s']:g} s of CPU time on a network of {len(case['nodes'])} nodes / {len(case['edges'])} edges"
                if first_seen is not None and (site, cls) not in first_seen:
                    first_seen.add((site, cls))
                    c, _ = shrink(case, make_variant(ctx.rng, nodes, [(dec_id(e), [dec_id(x) for x in ms]) for e, ms in case["edges"]], "id", True),
                                  lab, budget=40, still=lambda cc, vv: hangs(cc, lab) is not None)
                    d2 = forced(hangs, c, lab)
                    c, detail = (c, d2) if d2 else (case, detail)
                ctx.violation(site, cls, {"measure": lab, "original": c}, detail=detail)
                ctx.stats["violation:" + site] += 1
        comp = ctx.extra.setdefault("_completion", {})
        for lab, val in base.items():
            rec = comp.setdefault(lab, [0, 0, Counter()])
            rec[1] += 1
            if isinstance(val, tuple) and val and val[0] == "$err":
                rec[2][val[1]] += 1
            else:
                rec[0] += 1
        if case.get("eattr"):
            ctx.stats["cases-with-edge-weights"] += 1
        if case.get("nattr"):
            ctx.stats["cases-with-node-attributes"] += 1
        ctx.stats[classify(case)] += 1
        ctx.stats["node-labels:" + ("mixed" if not CM.orderable(nodes) else "str" if nodes and isinstance(nodes[0], str) else "int")] += 1
        if any(len(ms) >= 2 for _, ms in case["edges"]):
            ctx.nontrivial.add(jhash(case))
        ctx.sample({"case": case, "degree": repr(base.get("nodes.degree")), "local_clustering_coefficient": repr(base.get("local_clustering_coefficient"))}, cap=3)
        if meta:
            metamorphic(ctx, case, base, H, labels=labels, first_seen=first_seen)
        if model:
            reqs.append(model_request(case))
            keep.append((case, H, base if labels is None else CM.evaluate(H, idn, ide)))
            # the model's own `rename` / `reverseAll` against the harness's relabelling of the same network
            var = make_variant(ctx.rng, nodes, [(dec_id(e), [dec_id(x) for x in ms]) for e, ms in case["edges"]], "str", True)
            xreqs.append({"f": "rename", "net": {"nodes": case["nodes"], "edges": case["edges"]}, "pi": var["pi"], "sigma": var["sigma"]})
            pi, sg = {json.dumps(a): b for a, b in var["pi"]}, {json.dumps(a): b for a, b in var["sigma"]}
            xexp.append({"out": "ok", "nodes": [pi[json.dumps(n)] for n in case["nodes"]],
                         "edges": [[sg[json.dumps(e)], [pi[json.dumps(x)] for x in ms]] for e, ms in case["edges"]]})
            xreqs.append({"f": "reverse", "net": {"nodes": case["nodes"], "edges": case["edges"]}})
            xexp.append({"out": "ok", "nodes": case["nodes"][::-1], "edges": [[e, ms[::-1]] for e, ms in case["edges"]][::-1]})
    if not reqs:
        return
    resps = run_driver("C09", reqs + xreqs)
    for rq, got, exp in zip(xreqs, resps[len(reqs):], xexp):
        ctx.stats["model-selftest:" + rq["f"]] += 1      # the model's own rename / reverseAll vs the harness: not a trace against /repo
        if got != exp:
            dis_sites["model:" + rq["f"]] += 1
            ctx.extra.setdefault("disagreements", []).append({"case": rq, "measure": rq["f"], "impl": repr(exp)[:300], "model": repr(got)[:300]})
    resps = resps[:len(reqs)]
    for (case, H, base), resp in zip(keep, resps):
        if resp.get("out") == "bad-op":
            raise Infra(f"model C09 rejected request (harness defect): {json.dumps(case)[:300]}")
        if resp.get("out") == "unmodelled":
            ctx.stats["unmodelled"] += 1
            continue
        ctx.traces += 1
        for site, key, i, m in compare_model(case, H, base, canon(resp)):
            dis_sites[site] += 1
            ctx.stats["disagree:" + site] += 1
            ctx.extra.setdefault("disagreements", [])
            if len(ctx.extra["disagreements"]) < 8:
                ctx.extra["disagreements"].append({"case": case, "measure": key, "impl": repr(i)[:400], "model": repr(m)[:400]})


def completion_report(ctx):
    """(iii) of the module docstring: a quantity that raised on every generated original was never exercised"""
    comp = ctx.extra.pop("_completion", {})
    always, table = [], {}
    for lab, (done, total, errs) in sorted(comp.items()):
        if total and done == 0 and set(errs) != {"no-answer"}:     # a measure that never returned is reported concretely above
            always.append({"measure": lab, "site": CM.BY_LABEL[lab][0], "evaluations": total, "exceptions": dict(errs)})
        if total and done * 4 < total:
            table[lab] = {"completed": done, "of": total, "exceptions": dict(errs)}
    ctx.extra["always_raises"] = always
    ctx.extra["rarely_completes"] = table
    ctx.stats["measures_evaluated"] = len(comp)
    ctx.stats["measures_always_raising"] = len(always)
    for a in always:
        ctx.violation(a["site"], "raises-on-every-input", {"measure": a["measure"], "exceptions": a["exceptions"], "evaluations": a["evaluations"]},
                      detail=f"{a['measure']} raised on all {a['evaluations']} generated hypergraphs ({a['exceptions']}): its invariance was "
                             "not exercised at all, nothing is claimed for it", kind="unproven",
                      broken=[f"C09 metamorphic run: {a['measure']} never returned a value"])


def run(ctx):
    ok = build_and_audit(ctx, "XgiModel.Props.C09", ["XgiModel.C09.Drive"])
    ctx.rule = ("small hypergraphs (<=7 nodes, <=7 edges, sizes 1-4, isolated nodes, multi-edges, uniform ones; every 12th one with 9-11 nodes and edge "
                "sizes containing a pair a, a+8 such as 1 and 9) from one PRNG, 85 % of them with "
                "an edge attribute 'weight' (on ~75 % of the edges, values 1/2/3/0.5/2.5) and a node attribute 'mass'; edge-ID "
                "schemes cycled over identity / reversed and rotated permutations of 0..m-1 / gapped ints / strings / mixed, node labels over "
                "ints / gapped / negative / strings / mixed; each case is re-inserted twice under the identity labelling and under three "
                "relabellings (gapped ints, non-identity permutation of 0..k-1 and 0..m-1, strings) x two insertion orders (nodes, edges and "
                "members shuffled; nodes before edges with attributes given at insertion, or after edges with attributes attached by the "
                f"setters); attributes travel with their node / edge; {len(CM.M)} structural quantities incl. the weighted variants compared "
                "after mapping back; the modelled measures are compared with the Lean model on the original; non-trivial = distinct case with "
                "an edge of >=2 members")
    first_seen, dis_sites = set(), Counter()
    corpus = load_corpus()
    ctx.stats["corpus_cases"] = len(corpus)
    cases = corpus + [mk_case(ctx.rng, i) for i in range(ctx.n(70, 1500))]
    run_cases(ctx, cases, first_seen=first_seen, dis_sites=dis_sites)
    if not ctx.quick:
        small = [{"nodes": list(ns), "edges": [[e, list(ms)] for e, ms in es]} for ns, es in all_small_hypergraphs(4, 3)]
        run_cases(ctx, small, meta=False, dis_sites=dis_sites)
        ctx.exhaustive = True
        ctx.extra["exhaustive_space"] = (f"model vs implementation (correspondence only) on all {len(small)} hypergraphs with 4 nodes and <=3 distinct "
                                         "edges, IDs 0..m-1")
    for site, k in dis_sites.items():
        ctx.broken.append(f"correspondence C09 measures: model and implementation differ on {site} in {k} cases")
    unexplained = [s for s in dis_sites if not any(v["site"] == s for v in ctx.violations)]
    if (not ok and not unlisted_violations(ctx)) or unexplained:
        # search harder on the implementation, biased to the functions involved
        labels = None if not ok and not unexplained else {m[1] for m in CM.M if m[0] in unexplained} or None
        more = [mk_case(ctx.rng, i) for i in range(ctx.n(150, 1500))]
        run_cases(ctx, more, model=False, labels=labels, first_seen=first_seen, dis_sites=dis_sites)
        ctx.stats["targeted_search_cases"] = len(more)
        unexplained = [s for s in dis_sites if not any(v["site"] == s for v in ctx.violations)]
        if unexplained or (not ok and not unlisted_violations(ctx)):
            ctx.violation("model-tie", "unproven", {"broken": ctx.broken, "example": ctx.extra.get("disagreements", [])[:1]},
                          detail="; ".join(ctx.broken)[:500], kind="unproven", broken=ctx.broken)
    completion_report(ctx)
    ctx.assumptions = [
        "IDs are int or str (mixed allowed); bool/float/tuple IDs and empty edges are outside the generated domain",
        "attributes: one numeric edge attribute ('weight', missing on some edges) and one numeric node attribute ('mass'); they are data of the "
        "node / edge and travel with it under the relabelling",
        "simpliciality measures are compared only when node labels are mutually orderable (Trie sorts members; mixed int/str labels raise TypeError there)",
        "edges.duplicates() / nodes.duplicates() leave out the smallest ID of every class of equal IDs (sorted(); insertion order when the IDs are not "
        "mutually orderable): under RELABELLING only the classes are compared (which ID is smallest is not preserved by an arbitrary bijection; "
        "Lean: C09_duplicates_rename needs an order-preserving sigma, counter-example in Props/C09.lean), under RE-INSERTION ALONE the exact result "
        "is compared whenever the IDs are mutually orderable",
        "largest_connected_component / largest_connected_hypergraph: with several largest components only the size is compared (first one in node order is returned)",
        "floats compared with relative/absolute tolerance 1e-9 (Katz centrality 1e-8); NaN equals NaN",
        "a quantity raising the same exception type on original and variant counts as equal for that case; a quantity raising on EVERY generated "
        "original is reported (always_raises, exit 1 unproven), not counted as invariant",
        "Katz centrality, degree/dynamical assortativity coefficients, simpliciality, multiorder and normalized Laplacians, intersection profile, "
        "clique motif and degree matrices, every weighted / attribute-reading variant and the line graph are checked metamorphically on the "
        "implementation only (no Lean model)",
    ]
    return finish(ctx, trusted_base=TRUSTED_COMMON + [
        "the relabel/reinsert builder and the map-back canonicaliser of harness/c09_measures.py",
        "numpy/scipy dense and sparse algebra as used by xgi.linalg (the model gives matrix entries as functions of IDs)"])


def replay(ctx, path):
    j = json.load(open(path))
    c = j.get("case", j)
    case, label = c["original"], c["measure"]
    CM.GUARD["force"] = True
    if "variant" not in c:                      # failure class no-answer-within-cpu-budget: the measure did not return
        d = hangs(case, label)
        print(f"original: nodes={case['nodes']} edges={case['edges']}")
        print(("STILL NO ANSWER: " + d) if d else f"{label}: returned")
        return 1 if d else 0
    var = c["variant"]
    d = differs(case, var, label)
    print(f"original: nodes={case['nodes']} edges={case['edges']}")
    print(f"relabelled/reordered: {variant_net(var, case)}")
    if d:
        print("STILL DIFFERS:", d)
        return 1
    print(f"{label}: equal after mapping back")
    return 0
