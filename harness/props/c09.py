"""C09 — structural measures are invariant under relabelling and insertion order.

For every generated hypergraph:
 (i)  model vs implementation on the original, for the measures modelled in lean/XgiModel/C09/Measures.lean;
 (ii) metamorphic check on the implementation itself: two re-insertions under the identity labelling and
      three relabellings (other integers with gaps; a non-identity permutation of 0..k-1 / 0..m-1; strings)
      x two insertion orders; every structural quantity of the statement must be unchanged except by the
      same renaming.  The networks carry an edge attribute "weight" (absent on some edges) and a node attribute
      "mass", carried along by the relabelling, and the weighted / attribute-reading variants are among the
      quantities (degree(weight=), incidence_matrix(weight=), normalized Laplacian weighted=True, attrs,
      filterby_attr, line-graph weights).  A difference is a concrete violation (site = function name, failure_class =
      "not-order-invariant" for the identity labelling, "not-relabel-invariant" otherwise; replay = the two
      networks, shrunk).
 (iii) a quantity that raises on EVERY generated original is not exercised at all: it is listed in the evidence
      (`always_raises`) and reported as unproven (exit 1, no-failing-input-found), never counted as invariant.
"""
import copy
import glob
import json
import math
import os
from collections import Counter
from fractions import Fraction

import numpy as np

import xgi

from .. import c09_measures as CM
from ..core import unlisted_violations  # noqa: E402
from ..core import Infra, TRUSTED_COMMON, VERIF, build_and_audit, canon, dec_id, enc_id, finish, jhash, run_driver
from .. import fn as _fn
from ..fn import all_small_hypergraphs, enc_net, gen_hypergraph

BIG = 2 ** 53           # integers above it are not exactly representable as floats (BIG+1 and BIG+2 collide under float())
# review 2 (escape 9a): pools whose members are EQUAL UNDER str() / format() (1 and "1", 0 and "0") for node labels and
# for edge IDs; fn.LABELS / fn.EDGE_IDS never put such a pair into one network
COLLIDE_N = [1, "1", 0, "0", 2, "2", 3, "3", 4, "4", 5, "5"]
COLLIDE_E = ["0", 0, "1", 1, "2", 2, "3", 3, "4", 4, "5", 5]
LABELS = list(_fn.LABELS) + [lambda k: COLLIDE_N[:k]]
EDGE_IDS = list(_fn.EDGE_IDS) + [lambda m: COLLIDE_E[:m]]

RELABELS = ("ints", "perm", "str", "collide", "tuple")
# these relabellings produce labels that are not mutually orderable: the measures that sort labels (simpliciality: the Trie
# sorts members) are not compared under them (assumption in the evidence)
UNORDERABLE = {"collide": {"orderable", "eids-orderable"}, "tuple": {"orderable", "eids-orderable"}}


# ------------------------------------------------------------------------------------------------ cases and variants

def gen_case(rng, i):
    """(nodes, edges); edge-ID schemes are cycled so that identity, reversed / rotated permutations of 0..m-1,
    gaps, strings and mixed IDs all occur; node labels are drawn from ints, gapped ints, strings, mixed"""
    eid = EDGE_IDS[i % len(EDGE_IDS)]
    lab = LABELS[(i // len(EDGE_IDS)) % len(LABELS)] if i % 3 else None
    uniform = rng.random() < 0.2
    nodes, edges = gen_hypergraph(rng, max_nodes=rng.choice([3, 5, 6, 7]), max_edges=rng.choice([2, 4, 6, 7]), max_size=rng.choice([2, 3, 4]),
                                  labels=lab, edge_ids=eid, isolated=rng.random() < 0.7, multi=rng.random() < 0.6,
                                  singletons=(not uniform) and rng.random() < 0.6)
    if not edges and rng.random() < 0.85:
        return gen_case(rng, i)
    if uniform and edges and len(nodes) >= 2:
        k = min(len(nodes), rng.choice([2, 3]))
        edges = [(e, rng.sample(nodes, k)) for e, _ in edges]
    return nodes, edges


def gen_big_case(rng, i):
    """9-11 nodes and 2-5 edges whose SIZES contain a pair (a, a+8) (or, in a third of the cases, 9-10 small edges through
    one hub node, so that DEGREES 9 / 10 occur next to 1 / 2) — e.g. a singleton and a 9-member edge: small ints
    that collide in an 8-slot hash table, so that anything which iterates over a set / dict of sizes (or degrees up to
    5) in table order instead of sorting depends on which edge was inserted first.  (Found by the mutation sweep:
    unique_edge_sizes with sorted() dropped is order dependent only from edge size 9 on.)"""
    k = rng.choice([9, 10, 11])
    lab = [lambda k: list(range(k)), lambda k: [3 * j + 2 for j in range(k)], lambda k: ["v%d" % j for j in range(k)],
           lambda k: list(range(1, k + 1))][(i // 12) % 4](k)
    rng.shuffle(lab)
    if rng.random() < 0.35:
        # the same for DEGREES: a hub in 9-10 small edges (degree 9 / 10 next to degrees 1 / 2)
        m = rng.choice([9, 10])
        eid = EDGE_IDS[(i // 12) % len(EDGE_IDS)](m)
        hub, rest = lab[0], lab[1:]
        edges = [(eid[j], [hub] + rng.sample(rest, rng.choice([1, 1, 2]))) for j in range(m)]
        rng.shuffle(edges)
        return lab, edges
    a = rng.choice([s for s in (1, 2, 3) if s + 8 <= k])
    sizes = [a, a + 8] + [rng.choice([1, 2, 3, 4, 8, 9]) for _ in range(rng.randint(0, 3))]
    rng.shuffle(sizes)
    eid = EDGE_IDS[(i // 12) % len(EDGE_IDS)](len(sizes))
    return lab, [(eid[j], rng.sample(lab, min(k, sz))) for j, sz in enumerate(sizes)]


def gen_chain_case(rng, i):
    """a path-like hypergraph of 5-8 nodes (edges of size 2-3 overlapping in one node, now and then a gap), edges listed
    from a random end or shuffled, nodes listed in another order than the edges touch them: long dependency chains for
    anything that merges / propagates along edges (union-find forests, BFS layers, distance tables)"""
    k = rng.randint(5, 8)
    lab = LABELS[(i // CHAIN_EVERY) % len(LABELS)](k)
    rng.shuffle(lab)
    path, j = [], 0
    while j < k - 1:
        sz = 2 if rng.random() < 0.75 else 3
        path.append(lab[j:j + sz])
        j += sz - 1
        if rng.random() < 0.1:
            j += 1
    order = rng.choice(["forward", "backward", "shuffled"])
    if order == "backward":
        path.reverse()
    elif order == "shuffled":
        rng.shuffle(path)
    path = [ms[::-1] if rng.random() < 0.5 else ms for ms in path if ms]
    eid = EDGE_IDS[(i // CHAIN_EVERY) % len(EDGE_IDS)](len(path))
    nodes = list(lab)
    rng.shuffle(nodes)
    return nodes, [(eid[j], ms) for j, ms in enumerate(path)]


WEIGHTS = [1, 2, 3, 0.5, 2.5]
MASSES = [1, 2, 5]
BIG_EVERY = 12          # every 12th generated case is a gen_big_case
CHAIN_EVERY = 6         # every 6th one a gen_chain_case


def gen_attrs(rng, nodes, edges):
    """edge attribute "weight" on ~75 % of the edges (the rest default to 1 in every weighted measure), node attribute
    "mass" on ~75 % of the nodes; with probability 0.15 no attributes at all"""
    if rng.random() < 0.15:
        return [], []
    nattr = [[enc_id(n), {"mass": rng.choice(MASSES)}] for n in nodes if rng.random() < 0.75]
    eattr = [[enc_id(e), {"weight": rng.choice(WEIGHTS)}] for e, _ in edges if rng.random() < 0.75]
    return nattr, eattr


def mk_case(rng, i):
    nodes, edges = gen_big_case(rng, i) if i % BIG_EVERY == 5 else gen_chain_case(rng, i) if i % CHAIN_EVERY == 2 else gen_case(rng, i)
    nattr, eattr = gen_attrs(rng, nodes, edges)
    return {"nodes": [enc_id(n) for n in nodes], "edges": [[enc_id(e), [enc_id(x) for x in ms]] for e, ms in edges],
            "nattr": nattr, "eattr": eattr}


def _attrs(case):
    return ({json.dumps(n): a for n, a in case.get("nattr", [])}, {json.dumps(e): a for e, a in case.get("eattr", [])})


def _nonid_perm(rng, k):
    p = list(range(k))
    if k >= 2:
        while p == list(range(k)):
            rng.shuffle(p)
    return p


def make_variant(rng, nodes, edges, relabel, nodes_first):
    """a relabelling (pi, sigma) plus a new insertion order of nodes, edges and members"""
    k, m = len(nodes), len(edges)
    norder = list(nodes)
    rng.shuffle(norder)
    eorder = [(e, rng.sample(list(ms), len(ms))) for e, ms in edges]
    rng.shuffle(eorder)
    if relabel == "id":
        pi = {n: n for n in nodes}
        sigma = {e: e for e, _ in edges}
    elif relabel == "ints":
        # gapped integers; in half of the variants they lie above 2**53 (neighbours collide under float())
        on, oe = (BIG if rng.random() < 0.5 else 0), (BIG if rng.random() < 0.5 else 0)
        pi = dict(zip(nodes, [on + x for x in rng.sample(range(40, 43 + 3 * k), k)]))
        sigma = dict(zip([e for e, _ in edges], [oe + x for x in rng.sample(range(20, 23 + 3 * m), m)]))
    elif relabel == "collide":
        # into a pool whose members are pairwise equal under str(): 1 / "1", 0 / "0", … (first the pairs, so that a
        # small network gets both members of a pair)
        need_n, need_e = 2 * ((k + 1) // 2), 2 * ((m + 1) // 2)
        pn = (COLLIDE_N + ["6", 6, "7", 7])[:max(need_n, 2)]
        pe = (COLLIDE_E + [6, "6", 7, "7"])[:max(need_e, 2)]
        pi = dict(zip(nodes, rng.sample(pn, k)))
        sigma = dict(zip([e for e, _ in edges], rng.sample(pe, m)))
    elif relabel == "tuple":
        # tuple node labels and tuple edge IDs (mixed with their own str() and with plain ints: never orderable)
        pn = [(0, 0), (0, 1), (1, 0), (1,), (0,), (1, 1), ("a", 0), (0, 0, 0), (2, 1), "(0, 1)", 0, 1, (2,), (3, 0), (0, 3), (4,)]
        pe = [(0, 1), (1, 0), (0,), (1,), (0, 0), (2, 1), ("e", 0), (1, 1), "(0, 1)", 0, 1, (3,), (4,), (5,), (6,), (7,)]
        pi = dict(zip(nodes, rng.sample(pn, k)))
        sigma = dict(zip([e for e, _ in edges], rng.sample(pe, m)))
    elif relabel == "perm":
        # the ID of the p-th inserted edge is perm[p] != p for some p: an ID is not its position
        pp, pe = _nonid_perm(rng, k), _nonid_perm(rng, m)
        pi = {n: pp[i] for i, n in enumerate(norder)}
        sigma = {e: pe[i] for i, (e, _) in enumerate(eorder)}
    elif relabel == "str":
        # multi-digit suffixes so that string order ("n10" < "n2") differs from numeric order
        names = rng.sample(["n%d" % i for i in (1, 2, 3, 10, 11, 20, 21, 100, 101, 200)] + list("pqrstuvw"), k)
        enames = rng.sample(["e%d" % i for i in (1, 2, 3, 10, 11, 20, 21, 100, 101, 200)] + list("ABCDEFG"), m)
        pi = dict(zip(nodes, names))
        sigma = dict(zip([e for e, _ in edges], enames))
    else:
        raise ValueError(relabel)
    return {"relabel": relabel, "nodes_first": bool(nodes_first),
            "pi": [[enc_id(a), enc_id(b)] for a, b in pi.items()], "sigma": [[enc_id(a), enc_id(b)] for a, b in sigma.items()],
            "nodes": [enc_id(n) for n in norder], "edges": [[enc_id(e), [enc_id(x) for x in ms]] for e, ms in eorder]}


def build_orig(case):
    na, ea = _attrs(case)
    H = xgi.Hypergraph()
    for n in case["nodes"]:
        H.add_node(dec_id(n), **na.get(json.dumps(n), {}))
    for e, ms in case["edges"]:
        H.add_edge([dec_id(x) for x in ms], idx=dec_id(e), **ea.get(json.dumps(e), {}))
    return H


def build_variant(var, case=None):
    """the relabelled / re-inserted network; attributes of `case` travel with their node / edge.  With nodes_first the
    attributes are given at insertion, otherwise nodes are created by the edges and all attributes are attached
    afterwards with set_node_attributes / set_edge_attributes (a second way of arriving at the same network)"""
    pi = {dec_id(a): dec_id(b) for a, b in var["pi"]}
    sigma = {dec_id(a): dec_id(b) for a, b in var["sigma"]}
    na, ea = _attrs(case or {})
    H = xgi.Hypergraph()
    if var["nodes_first"]:
        for n in var["nodes"]:
            H.add_node(pi[dec_id(n)], **na.get(json.dumps(n), {}))
        for e, ms in var["edges"]:
            H.add_edge([pi[dec_id(x)] for x in ms], idx=sigma[dec_id(e)], **ea.get(json.dumps(e), {}))
    else:
        for e, ms in var["edges"]:
            H.add_edge([pi[dec_id(x)] for x in ms], idx=sigma[dec_id(e)])
        H.add_nodes_from([pi[dec_id(n)] for n in var["nodes"]])
        nv = {pi[dec_id(n)]: na[json.dumps(n)] for n in var["nodes"] if json.dumps(n) in na}
        ev = {sigma[dec_id(e)]: ea[json.dumps(e)] for e, _ in var["edges"] if json.dumps(e) in ea}
        if nv:
            H.set_node_attributes(nv)
        if ev:
            H.set_edge_attributes(ev)
    return H, {v: k for k, v in pi.items()}, {v: k for k, v in sigma.items()}


def variant_net(var, case=None):
    """the relabelled network as plain data (for the replay file)"""
    pi = {dec_id(a): dec_id(b) for a, b in var["pi"]}
    sigma = {dec_id(a): dec_id(b) for a, b in var["sigma"]}
    na, ea = _attrs(case or {})
    return {"nodes_first": var["nodes_first"], "nodes": [enc_id(pi[dec_id(n)]) for n in var["nodes"]],
            "edges": [[enc_id(sigma[dec_id(e)]), [enc_id(pi[dec_id(x)]) for x in ms]] for e, ms in var["edges"]],
            "nattr": [[enc_id(pi[dec_id(n)]), na[json.dumps(n)]] for n in var["nodes"] if json.dumps(n) in na],
            "eattr": [[enc_id(sigma[dec_id(e)]), ea[json.dumps(e)]] for e, _ in var["edges"] if json.dumps(e) in ea]}


def differs(case, var, label):
    """does measure `label` differ between the original and the variant (mapped back)?  returns detail or None"""
    site, _, shape, tol, flags, _ = CM.BY_LABEL[label]
    H = build_orig(case)
    idn, ide = {n: n for n in H.nodes}, {e: e for e in H.edges}
    a = CM.evaluate(H, idn, ide, labels={label})[label]
    H2, inv_n, inv_e = build_variant(var, case)
    b = CM.evaluate(H2, inv_n, inv_e, labels={label})[label]
    if CM.same(a, b, tol):
        return None
    return f"{label}: original vs {var['relabel']}-relabelled/reordered (mapped back): " + CM.first_diff(a, b, tol)


def hangs(case, label):
    """does measure `label` give no answer on the original within the CPU budget?  returns detail or None"""
    H = build_orig(case)
    a = CM.evaluate(H, {n: n for n in H.nodes}, {e: e for e in H.edges}, labels={label}).get(label)
    if a == CM.NO_ANSWER:
        return (f"{label}: no answer within {CM.GUARD['s'] * (5 if CM.GUARD['retry'] else 1):g} s of CPU time on a network of "
                f"{len(case['nodes'])} nodes / {len(case['edges'])} edges")
    return None


def forced(f, *args, quick=False):
    """run f under the guard settings of the shrinker / replay: dead measures are evaluated again; `quick` = a quarter of
    the budget and no second attempt"""
    old = dict(CM.GUARD)
    CM.GUARD.update({"force": True}, **({"s": 0.5, "retry": False} if quick else {}))
    try:
        return f(*args)
    finally:
        CM.GUARD.update(old)


def shrink(case, var, label, budget=150, still=None):
    """greedy: drop edges, unused nodes, single members (from both networks) while the difference persists (or, with
    `still`, while still(case, var) holds); runs under the quick guard settings"""
    case, var = copy.deepcopy(case), copy.deepcopy(var)
    still = still or (lambda c, v: differs(c, v, label) is not None)

    def ok(c, v):
        nonlocal budget
        budget -= 1
        try:
            return forced(still, c, v, quick=True)
        except Exception:  # noqa
            return False

    changed = True
    while changed and budget > 0:
        changed = False
        for e, _ in list(case["edges"]):
            c = copy.deepcopy(case); v = copy.deepcopy(var)
            c["edges"] = [p for p in c["edges"] if p[0] != e]
            v["edges"] = [p for p in v["edges"] if p[0] != e]
            v["sigma"] = [p for p in v["sigma"] if p[0] != e]
            if budget > 0 and ok(c, v):
                case, var, changed = c, v, True
        used = {x for _, ms in case["edges"] for x in ms}
        for n in list(case["nodes"]):
            if n in used:
                continue
            c = copy.deepcopy(case); v = copy.deepcopy(var)
            c["nodes"] = [x for x in c["nodes"] if x != n]
            v["nodes"] = [x for x in v["nodes"] if x != n]
            v["pi"] = [p for p in v["pi"] if p[0] != n]
            if budget > 0 and ok(c, v):
                case, var, changed = c, v, True
        for e, ms in list(case["edges"]):
            for x in list(ms):
                if len(ms) <= 1:
                    break
                c = copy.deepcopy(case); v = copy.deepcopy(var)
                for p in c["edges"]:
                    if p[0] == e:
                        p[1] = [y for y in p[1] if y != x]
                for p in v["edges"]:
                    if p[0] == e:
                        p[1] = [y for y in p[1] if y != x]
                if budget > 0 and ok(c, v):
                    case, var, changed = c, v, True
                    ms = [y for y in ms if y != x]
    return case, var


# ------------------------------------------------------------------------------------------------ model side

def _rat(s):
    if isinstance(s, (int, float)):
        return s
    if s == "nan":
        return float("nan")
    if s == "inf":
        return float("inf")
    if isinstance(s, str) and s.startswith("err:"):
        return ("$err", {"err:lib": "XGIError", "err:value": "ValueError", "err:type": "TypeError", "err:index": "IndexError"}[s])
    p, q = s.split("/")
    return float(Fraction(int(p), int(q)))


def _pairs_dict(pairs, f=lambda x: x):
    return {dec_id(k): f(v) for k, v in pairs}


def model_request(case):
    return {"f": "measures", "net": {"nodes": case["nodes"], "edges": case["edges"]},
            "dens": [list(t) for t in CM.DENS_GRID], "mats": [list(t) for t in CM.MAT_GRID], "laps": list(CM.LAP_GRID)}


def _mat_of(obj, n_rows, cols_key="cols", square=False):
    rows = [dec_id(r) for r in obj["rows"]]
    cols = rows if square else [dec_id(c) for c in obj[cols_key]]
    if square:
        if not rows or obj["ne"] == 0:
            return {"$noindex": (len(rows), len(rows), True)}
    elif not rows or not cols:
        return {"$noindex": (0, 0, True)}
    return {(r, c): obj["M"][i][j] for i, r in enumerate(rows) for j, c in enumerate(cols)}


def model_values(resp):
    """model response -> {key: (shape, value)} in the vocabulary of c09_measures"""
    idn = None
    out = {}
    nd = lambda key, f=lambda x: x: (CM.ND, _pairs_dict(resp[key], f))
    out["nodes.degree"] = nd("degree")
    out["edges.size"] = (CM.ED, _pairs_dict(resp["size"]))
    out["unique_edge_sizes"] = ('x', list(resp["unique_edge_sizes"]))
    out["nodes.neighbors"] = (('dict', 'n', ('set', 'n')), _pairs_dict(resp["neighbors"], lambda l: [dec_id(x) for x in l]))
    out["nodes.average_neighbor_degree"] = nd("average_neighbor_degree", _rat)
    out["clustering_coefficient"] = nd("clustering_coefficient", _rat)
    out["local_clustering_coefficient"] = nd("local_clustering_coefficient", _rat)
    for k in ("union", "min", "max"):
        out[f"two_node_clustering_coefficient:{k}"] = nd(f"two_node_clustering_coefficient:{k}", _rat)
    out["connected_components"] = (('set', ('set', 'n')), [[dec_id(x) for x in c] for c in resp["connected_components"]])
    out["number_connected_components"] = ('x', resp["number_connected_components"])
    out["is_connected"] = ('x', _rat(resp["is_connected"]) if isinstance(resp["is_connected"], str) else resp["is_connected"])
    out["node_connected_component"] = (('dict', 'n', ('set', 'n')), _pairs_dict(resp["node_connected_component"], lambda l: [dec_id(x) for x in l]))
    out["shortest_path_length"] = (('dict', 'n', ('dict', 'n', 'x')), _pairs_dict(resp["shortest_path_length"], lambda d: _pairs_dict(d, _rat)))
    for i in range(len(CM.DENS_GRID)):
        out[f"density:{i}"] = ('x', _rat(resp["density"][i]))
        out[f"incidence_density:{i}"] = ('x', _rat(resp["incidence_density"][i]))
    for key, lab in (("maximal", "edges.maximal"), ("maximal:strict", "edges.maximal(strict)")):
        v = resp[key]
        out[lab] = ('x', _rat(v)) if isinstance(v, str) else (('set', 'e'), [dec_id(x) for x in v])
    out["duplicates"] = (('set', 'e'), [dec_id(x) for x in resp["duplicates"]])
    if resp.get("duplicates_exact") != "unmodelled":     # the exact result of H.edges.duplicates() (model: `duplicates`)
        out["duplicates_exact"] = (('set', 'e'), [dec_id(x) for x in resp["duplicates_exact"]])
    out["degree_pairs"] = ('x', sorted(tuple(p) for p in resp["degree_pairs"]))
    for i, (o, s, w) in enumerate(CM.MAT_GRID):
        out[f"incidence_matrix#{i}"] = (CM.NE, _mat_of(resp["incidence_matrix"][i], None))
        out[f"adjacency_matrix#{i}"] = (CM.NN, _mat_of(resp["adjacency_matrix"][i], None, square=True))
    for i, d in enumerate(CM.LAP_GRID):
        out[f"laplacian#{i}"] = (CM.NN, _mat_of(resp["laplacian"][i], None, square=True))
    return out


def _captured_pairs(H):
    """the degree pairs handed to np.corrcoef by degree_assortativity(kind='uniform', exact=True)"""
    seen = {}
    orig = np.corrcoef

    def spy(x, *a, **k):
        seen["x"] = np.array(x)
        return orig(x, *a, **k)
    np.corrcoef = spy
    try:
        try:
            CM._quiet(lambda G: xgi.degree_assortativity(G, kind="uniform", exact=True))(H)
        except (Exception, CM.NoAnswer):  # noqa
            pass
    finally:
        np.corrcoef = orig
    if "x" not in seen:
        return None
    x = seen["x"]
    if x.size == 0:
        return []
    return sorted((int(a), int(b)) for a, b in x.T.tolist())


def impl_for_model(H, base):
    """the implementation's values for the keys of model_values (raw, label-keyed)"""
    out = {}
    for lab in ("nodes.degree", "edges.size", "unique_edge_sizes", "nodes.neighbors", "nodes.average_neighbor_degree", "clustering_coefficient",
                "local_clustering_coefficient", "two_node_clustering_coefficient:union", "two_node_clustering_coefficient:min",
                "two_node_clustering_coefficient:max", "connected_components", "number_connected_components", "is_connected",
                "node_connected_component", "shortest_path_length", "edges.maximal", "edges.maximal(strict)"):
        out[lab] = base.get(lab, CM.NO_ANSWER)
    for i in range(len(CM.DENS_GRID)):
        out[f"density:{i}"] = base.get(f"density:{i}", CM.NO_ANSWER)
        out[f"incidence_density:{i}"] = base.get(f"incidence_density:{i}", CM.NO_ANSWER)
    d = base.get("edges.duplicates (classes)", CM.NO_ANSWER)
    out["duplicates"] = d[2] if isinstance(d, tuple) and d and d[0] != "$err" else d
    idn, ide = {n: n for n in H.nodes}, {e: e for e in H.edges}
    try:
        out["duplicates_exact"] = CM.norm(('set', 'e'), CM._quiet(lambda G: set(G.edges.duplicates()))(H), idn, ide)
    except CM.NoAnswer:
        out["duplicates_exact"] = CM.NO_ANSWER
    except Exception as ex:  # noqa
        out["duplicates_exact"] = ("$err", type(ex).__name__)

    def ev(shape, f):
        try:
            return CM.norm(shape, CM._quiet(f)(H), idn, ide)
        except CM.NoAnswer:
            return CM.NO_ANSWER
        except Exception as ex:  # noqa
            return ("$err", type(ex).__name__)
    for i, (o, s, w) in enumerate(CM.MAT_GRID):
        out[f"incidence_matrix#{i}"] = ev(CM.NE, CM._inc(o, False))
        out[f"adjacency_matrix#{i}"] = ev(CM.NN, CM._adj(o, s, w, False))
    for i, dd in enumerate(CM.LAP_GRID):
        out[f"laplacian#{i}"] = ev(CM.NN, CM._lap(dd, False, False))
    p = _captured_pairs(H)
    out["degree_pairs"] = None if p is None else CM.plain(p)
    return out


MODEL_SITE = lambda key: key.replace("duplicates_exact", "duplicates").split("#")[0].split(":")[0].replace("nodes.", "").replace("edges.", "").replace("(strict)", "")


def compare_model(case, H, base, resp):
    """returns list of (site, key, impl, model) disagreements"""
    idn, ide = {n: n for n in H.nodes}, {e: e for e in H.edges}
    mv = model_values(resp)
    iv = impl_for_model(H, base)
    dis = []
    for key, (shape, val) in mv.items():
        m = val if (isinstance(val, tuple) and val and val[0] == "$err") else CM.norm(shape, val, idn, ide)
        i = iv[key]
        if key == "degree_pairs":
            if i is None:
                continue        # degree_assortativity raised before forming the pairs (no nodes / no edges)
            m = CM.plain(val)
        if not CM.same(i, m, 1e-9):
            dis.append((MODEL_SITE(key), key, i, m))
    return dis



# ------------------------------------------------------------------------------------------------ review-2 families
# (implementation only; nothing here is sent to the Lean driver)

def rebuild(H):
    """a FRESH xgi.Hypergraph with the structure and attributes the live object H has now, inserted in H's own order"""
    F = xgi.Hypergraph()
    for n in H.nodes:
        F.add_node(n, **dict(H.nodes[n]))
    for e in H.edges:
        F.add_edge(list(H.edges.members(e)), idx=e, **dict(H.edges[e]))
    return F


HELD_EDITS = ("swap-edge", "swap-member", "add-edge", "remove-node", "remove-edge", "add-node-to-edge")


def gen_held_edit(rng, H, kind):
    """one edit as primitive operations [[method, args…]…]; swap-edge and swap-member keep num_nodes and num_edges"""
    nodes, eids = list(H.nodes), list(H.edges)
    ints = [e for e in eids if isinstance(e, int)]
    new_id = (max(ints) + 1 + rng.randint(0, 2)) if ints else "held%d" % rng.randint(0, 9)
    while new_id in eids:
        new_id = str(new_id) + "x"
    if kind == "swap-edge":
        if not eids or len(nodes) < 2:
            return None
        e = rng.choice(eids)
        old = set(H.edges.members(e))
        for _ in range(20):
            new = rng.sample(nodes, rng.randint(1, min(4, len(nodes))))
            if set(new) != old:
                return [["remove_edge", enc_id(e)], ["add_edge", [enc_id(x) for x in new], enc_id(new_id), rng.choice(WEIGHTS + [None])]]
        return None
    if kind == "swap-member":
        cand = [(e, n) for e in eids for n in nodes if n not in H.edges.members(e)]
        if not cand:
            return None
        e, n = rng.choice(cand)
        out = rng.choice(sorted(H.edges.members(e), key=repr))
        return [["add_node_to_edge", enc_id(e), enc_id(n)], ["remove_node_from_edge", enc_id(e), enc_id(out)]]
    if kind == "add-edge":
        pool = nodes + (["held-new-node"] if rng.random() < 0.3 and "held-new-node" not in nodes else [])
        return [["add_edge", [enc_id(x) for x in rng.sample(pool, rng.randint(1, min(4, len(pool))))], enc_id(new_id), rng.choice(WEIGHTS + [None])]] if pool else None
    if kind == "remove-node":
        return [["remove_node", enc_id(rng.choice(nodes))]] if len(nodes) > 1 else None
    if kind == "remove-edge":
        return [["remove_edge", enc_id(rng.choice(eids))]] if eids else None
    cand = [(e, n) for e in eids for n in nodes if n not in H.edges.members(e)]
    if not cand:
        return None
    e, n = rng.choice(cand)
    return [["add_node_to_edge", enc_id(e), enc_id(n)]]


def apply_held_edit(H, ops):
    for op in ops:
        if op[0] == "add_edge":
            attr = {} if len(op) < 4 or op[3] is None else {"weight": op[3]}
            H.add_edge([dec_id(x) for x in op[1]], idx=dec_id(op[2]), **attr)
        else:
            getattr(H, op[0])(*[dec_id(a) for a in op[1:]])


def _flags_of(H):
    return ({"orderable"} if not CM.orderable(list(H.nodes)) else set()) | ({"eids-orderable"} if not CM.orderable(list(H.edges)) else set())


def held_differs(case, edits, label, warm="all"):
    """replay of a held-object finding: build the network, call the measures (`warm`: "all" = every measure in table
    order, "one" = only `label`), apply the edits to the SAME object (calling again after each), and compare `label`
    on the live object with `label` on a freshly built equal network.  Returns detail or None."""
    H = build_orig(case)
    ident = lambda G: ({n: n for n in G.nodes}, {e: e for e in G.edges})
    warm_labels = None if warm == "all" else {label}
    CM.evaluate(H, *ident(H), labels=warm_labels, skip_flags=_flags_of(H))
    for ops in edits:
        try:
            apply_held_edit(H, ops)
        except Exception:  # noqa
            return None
        if ops is not edits[-1]:
            CM.evaluate(H, *ident(H), labels=warm_labels, skip_flags=_flags_of(H))
    a = CM.evaluate(H, *ident(H), labels={label}).get(label)
    F = rebuild(H)
    b = CM.evaluate(F, *ident(F), labels={label}).get(label)
    tol = CM.BY_LABEL[label][3]
    if a is None or b is None or CM.same(a, b, tol):
        return None
    return (f"{label}: on the live object after {json.dumps(edits)} vs on a freshly built equal network: " + CM.first_diff(a, b, tol))[:600]


def run_held(ctx, n, first_seen=None):
    """HELD OBJECT: every measure is called on one object (table order), compared with the same measures called in the
    OPPOSITE order on a freshly built equal network (class depends-on-earlier-call); then the object is edited in place
    (count-preserving: remove an edge + add another / swap a member; ordinary: add an edge, remove a node, remove an
    edge, add a member) and after every edit all measures are called again on the same object and compared with a
    freshly built equal network (class stale-after-edit)."""
    rng = ctx.rng
    ident = lambda G: ({x: x for x in G.nodes}, {e: e for e in G.edges})
    for i in range(n):
        case = mk_case(rng, rng.randint(0, 10 ** 6))
        if len(case["nodes"]) > 8:
            continue
        H = build_orig(case)
        edits = []
        kinds = [rng.choice(HELD_EDITS[:2]), rng.choice(HELD_EDITS[2:])]
        rng.shuffle(kinds)
        ctx.stats["held-object:sequences"] += 1
        for step in range(len(kinds) + 1):
            if step:
                ops = gen_held_edit(rng, H, kinds[step - 1])
                if not ops:
                    continue
                try:
                    apply_held_edit(H, ops)
                except Exception:  # noqa   (an edit the library refuses ends the sequence; nothing is claimed)
                    break
                edits.append(ops)
                ctx.stats["held-object:edit:" + kinds[step - 1]] += 1
            fl = _flags_of(H)
            a = CM.evaluate(H, *ident(H), skip_flags=fl)
            F = rebuild(H)
            b = CM.evaluate(F, *ident(F), skip_flags=fl, reverse=True)
            ctx.evaluations += len(a)
            cls = "stale-after-edit" if edits else "depends-on-earlier-call"
            for label, va in a.items():
                site, _, shape, tol, flags, _ = CM.BY_LABEL[label]
                if label not in b or CM.same(va, b[label], tol) or CM.NO_ANSWER in (va, b[label]):
                    continue
                detail = (f"{label}: on the live object after {json.dumps(edits) if edits else 'the earlier calls'} vs on a freshly built equal "
                          "network: " + CM.first_diff(va, b[label], tol))[:600]
                c, ed, warm = case, [list(x) for x in edits], "all"
                if first_seen is not None and (site, cls) not in first_seen:
                    first_seen.add((site, cls))
                    # shrink: only the last edit / only the measure itself as the earlier call, when that still shows it
                    for cand_ed, cand_warm in ((ed[-1:], "one"), (ed, "one"), (ed[-1:], "all")):
                        try:
                            d2 = forced(held_differs, case, cand_ed, label, cand_warm) if edits else None
                        except Exception:  # noqa
                            d2 = None
                        if d2:
                            ed, warm, detail = cand_ed, cand_warm, d2
                            break
                ctx.violation(site, cls, {"measure": label, "original": c, "held": {"edits": ed, "warm": warm}}, detail=detail)
                ctx.stats["violation:" + site] += 1


LARGE_LABELS = ["nodes.degree", "edges.size", "degree statistics", "nodes.neighbors", "nodes.average_neighbor_degree", "clustering_coefficient",
                "local_clustering_coefficient", "two_node_clustering_coefficient:union", "connected_components", "number_connected_components",
                "is_connected", "largest_connected_component", "node_connected_component", "shortest_path_length", "density:0", "incidence_density:1",
                "degree_counts", "unique_edge_sizes", "degree_assortativity:uniform:exact", "degree_assortativity:top-2:exact", "dynamical_assortativity",
                "edges.maximal", "edges.duplicates (classes)", "katz_centrality", "incidence_matrix(order=None)", "incidence_matrix(sparse)",
                "adjacency_matrix(order=None,s=1,weighted=True)", "adjacency_matrix(sparse,weighted)", "laplacian(order=1)", "laplacian(order=2)",
                "multiorder_laplacian", "normalized_hypergraph_laplacian(sparse)", "clique_motif_matrix", "degree_matrix", "nodes.degree(weight)",
                "incidence_matrix(weight=edge attribute)", "to_line_graph(s=1)", "nodes.isolates", "edges.singletons",
                "simplicial_fraction", "edit_simpliciality"]
LARGE_HEAVY = {"local_clustering_coefficient", "to_line_graph(s=1)", "edges.maximal", "edges.duplicates (classes)", "simplicial_fraction", "edit_simpliciality",
               "two_node_clustering_coefficient:union", "node_connected_component"}


def gen_large_case(rng, i):
    """REGIME: i % 2 == 0: 70-90 nodes in a few chains / a sparse random part (sizes 2-4, repeated edges), node labels and
    edge IDs with integers above 2**53;  i % 2 == 1: 8-10 nodes and 130-140 parallel edges on one pair plus a few others"""
    if i % 2 == 0:
        k = rng.randint(70, 90)
        lab = rng.sample(range(3 * k), k - 3) + [BIG + 1, BIG + 2, 2 ** 64 + 1]
        rng.shuffle(lab)
        edges, j = [], 0
        while j < k - 1:
            sz = rng.randint(2, 3)
            edges.append(lab[j:j + sz])
            if rng.random() < 0.25:
                edges.append(lab[j:j + 2])
            j += rng.randint(1, sz - 1) if sz > 2 else 1
            if rng.random() < 0.04:
                j += 1
        edges += [rng.sample(lab, rng.choice([2, 3, 4])) for _ in range(rng.randint(0, 6))]
    else:
        k = rng.randint(8, 10)
        lab = rng.sample(range(40), k - 2) + [BIG + 1, BIG + 2]
        rng.shuffle(lab)
        a, b = rng.sample(lab, 2)
        edges = [[a, b] for _ in range(rng.randint(130, 140))] + [rng.sample(lab, rng.randint(1, 4)) for _ in range(rng.randint(2, 6))]
    rng.shuffle(edges)
    m = len(edges)
    eid = rng.choice([lambda: list(range(m)), lambda: [BIG + 1 + j for j in range(m)][::-1], lambda: list(range(1, m)) + [0]])()
    edges = [(eid[j], ms) for j, ms in enumerate(edges)]
    eattr = [[enc_id(e), {"weight": rng.choice(WEIGHTS)}] for e, _ in edges if rng.random() < 0.5]
    return {"nodes": [enc_id(n) for n in lab], "edges": [[enc_id(e), [enc_id(x) for x in ms]] for e, ms in edges], "nattr": [], "eattr": eattr}


def run_large(ctx, n, first_seen=None):
    """REGIME family: a few large networks, the cheaper measures only, original vs one re-insertion and two relabellings"""
    rng = ctx.rng
    old = dict(CM.GUARD)
    CM.GUARD.update({"s": 6.0})
    try:
        for i in range(n):
            case = gen_large_case(rng, i)
            labels = set(LARGE_LABELS) - (LARGE_HEAVY if len(case["edges"]) > 120 and i % 4 == 3 else set())
            H = build_orig(case)
            nodes = [dec_id(x) for x in case["nodes"]]
            edges = [(dec_id(e), [dec_id(x) for x in ms]) for e, ms in case["edges"]]
            base = CM.evaluate(H, {x: x for x in H.nodes}, {e: e for e in H.edges}, labels=labels)
            ctx.evaluations += len(base)
            ctx.stats["large:networks"] += 1
            ctx.stats["large:max_nodes"] = max(ctx.stats["large:max_nodes"], len(nodes))
            ctx.stats["large:max_edges"] = max(ctx.stats["large:max_edges"], len(edges))
            ctx.nontrivial.add(jhash(case))
            for relabel in (rng.choice(["id", "perm"]), rng.choice(["ints", "str"])):
                var = make_variant_large(rng, nodes, edges, relabel)
                H2, inv_n, inv_e = build_variant(var, case)
                res = CM.evaluate(H2, inv_n, inv_e, labels=labels)
                ctx.evaluations += len(res)
                ctx.stats["large:variant:" + relabel] += 1
                for label, b in res.items():
                    site, _, shape, tol, flags, _ = CM.BY_LABEL[label]
                    if label not in base or CM.same(base[label], b, tol):
                        continue
                    cls = "not-order-invariant" if relabel == "id" else "not-relabel-invariant"
                    detail = f"{label}: original vs {relabel}-relabelled/reordered (mapped back), large network: " + CM.first_diff(base[label], b, tol)
                    c, v = case, var
                    if first_seen is not None and (site, cls) not in first_seen:
                        first_seen.add((site, cls))
                        try:
                            c, v = shrink_large(case, var, label)
                            d2 = forced(differs, c, v, label)
                            c, v, detail = (c, v, d2) if d2 else (case, var, detail)
                        except Exception:  # noqa
                            c, v = case, var
                    ctx.violation(site, cls, {"measure": label, "original": c, "variant": v, "relabelled": variant_net(v, c)}, detail=detail)
                    ctx.stats["violation:" + site] += 1
    finally:
        CM.GUARD.update(old)


def make_variant_large(rng, nodes, edges, relabel):
    k, m = len(nodes), len(edges)
    if relabel in ("id", "perm"):
        return make_variant(rng, nodes, edges, relabel, rng.random() < 0.5)
    var = make_variant(rng, nodes, edges, "id", rng.random() < 0.5)
    if relabel == "ints":
        pi = dict(zip(nodes, [BIG + x for x in rng.sample(range(3 * k), k)]))
        sigma = dict(zip([e for e, _ in edges], rng.sample(range(20, 23 + 3 * m), m)))
    else:
        pi = dict(zip(nodes, rng.sample(["n%d" % j for j in range(2 * k)], k)))
        sigma = dict(zip([e for e, _ in edges], rng.sample(["e%d" % j for j in range(2 * m)], m)))
    var["relabel"] = relabel
    var["pi"] = [[enc_id(a), enc_id(b)] for a, b in pi.items()]
    var["sigma"] = [[enc_id(a), enc_id(b)] for a, b in sigma.items()]
    return var


def shrink_large(case, var, label):
    """halving: drop blocks of edges (from both networks) while the difference persists; then the greedy shrinker"""
    def still(c, v):
        try:
            return forced(differs, c, v, label, quick=True) is not None
        except Exception:  # noqa
            return False
    block = max(1, len(case["edges"]) // 2)
    budget = 60
    while block >= 1 and budget > 0:
        j = 0
        while j < len(case["edges"]) and budget > 0:
            drop = {json.dumps(e) for e, _ in case["edges"][j:j + block]}
            c = dict(case, edges=[p for p in case["edges"] if json.dumps(p[0]) not in drop], eattr=[p for p in case.get("eattr", []) if json.dumps(p[0]) not in drop])
            v = dict(var, edges=[p for p in var["edges"] if json.dumps(p[0]) not in drop], sigma=[p for p in var["sigma"] if json.dumps(p[0]) not in drop])
            budget -= 1
            if c["edges"] != case["edges"] and still(c, v):
                case, var = c, v
            else:
                j += block
        block //= 2
    used = {json.dumps(x) for _, ms in case["edges"] for x in ms}
    c = dict(case, nodes=[n for n in case["nodes"] if json.dumps(n) in used], nattr=[p for p in case.get("nattr", []) if json.dumps(p[0]) in used])
    v = dict(var, nodes=[n for n in var["nodes"] if json.dumps(n) in used], pi=[p for p in var["pi"] if json.dumps(p[0]) in used])
    if still(c, v):
        case, var = c, v
    if len(case["edges"]) <= 12:
        case, var = shrink(case, var, label, budget=60)
    return case, var


# ---- SimplicialComplex instances: "for all hypergraphs" includes the subclass

SC_SKIP = {"order-only", "eids-orderable"}


def sc_build(nodes, simplices):
    S = xgi.SimplicialComplex()
    S.add_nodes_from(nodes)
    for ms in simplices:
        S.add_simplex(ms)
    return S


def sc_differs(nodes, simplices, pi, order_seed, label):
    """label on the complex of `simplices` vs on the complex of the relabelled simplices inserted in another order; a
    complex names its own faces, so edge IDs are matched through the member sets"""
    import random as _r
    S = sc_build(nodes, simplices)
    r = _r.Random(order_seed)
    n2 = [pi[x] for x in nodes]
    r.shuffle(n2)
    s2 = [r.sample([pi[x] for x in ms], len(ms)) for ms in simplices]
    r.shuffle(s2)
    T = sc_build(n2, s2)
    inv_n = {v: k for k, v in pi.items()}
    byset = {frozenset(S.edges.members(e)): e for e in S.edges}
    try:
        inv_e = {e: byset[frozenset(inv_n[x] for x in T.edges.members(e))] for e in T.edges}
    except KeyError:
        return f"{label}: the relabelled complex does not have the same faces"
    if len(inv_e) != len(byset):
        return f"{label}: the relabelled complex has {len(inv_e)} faces, the original {len(byset)}"
    fl = SC_SKIP | ({"orderable"} if not (CM.orderable(list(S.nodes)) and CM.orderable(list(T.nodes))) else set())
    if CM.BY_LABEL[label][4] & fl:
        return None
    a = CM.evaluate(S, {x: x for x in S.nodes}, {e: e for e in S.edges}, labels={label}).get(label)
    b = CM.evaluate(T, inv_n, inv_e, labels={label}).get(label)
    tol = CM.BY_LABEL[label][3]
    if a is None or b is None or CM.same(a, b, tol):
        return None
    return f"{label} on a SimplicialComplex: original vs relabelled/re-inserted (mapped back): " + CM.first_diff(a, b, tol)


def run_sc(ctx, n, first_seen=None):
    rng = ctx.rng
    for i in range(n):
        nodes, edges = gen_hypergraph(rng, max_nodes=6, max_edges=3, max_size=rng.choice([2, 3, 4]), labels=LABELS[i % len(LABELS)], isolated=True, multi=False)
        simplices = [ms for _, ms in edges]
        kind = ("id", "ints", "str", "collide", "tuple")[i % 5]
        var = make_variant(rng, nodes, [(j, ms) for j, ms in enumerate(simplices)], kind, True)
        pi = {dec_id(a): dec_id(b) for a, b in var["pi"]}
        seed = rng.randint(0, 10 ** 9)
        ctx.stats["simplicial-complex:pairs"] += 1
        for label in CM.BY_LABEL:
            try:
                d = sc_differs(nodes, simplices, pi, seed, label)
            except AssertionError:
                raise
            except Exception as ex:  # noqa
                d = None
                ctx.stats["simplicial-complex:harness-skip:" + type(ex).__name__] += 1
            ctx.evaluations += 1
            if d:
                site = CM.BY_LABEL[label][0]
                cls = "not-order-invariant" if kind == "id" else "not-relabel-invariant"
                ctx.violation(site, cls, {"measure": label, "simplicial_complex": {"nodes": [enc_id(x) for x in nodes], "simplices": [[enc_id(x) for x in ms] for ms in simplices],
                                          "pi": var["pi"], "order_seed": seed}}, detail=d)
                ctx.stats["violation:" + site] += 1


# ------------------------------------------------------------------------------------------------ the check

def load_corpus():
    out = []
    for f in sorted(glob.glob(os.path.join(VERIF, "corpus", "C09", "*.json"))):
        try:
            j = json.load(open(f))
            if "nodes" in j and "edges" in j:
                out.append({"nodes": j["nodes"], "edges": j["edges"], "nattr": j.get("nattr", []), "eattr": j.get("eattr", [])})
        except Exception:  # noqa
            pass
    return out


def classify(case):
    eids = [e for e, _ in case["edges"]]
    m = len(eids)
    if m and all(isinstance(e, int) for e in eids):
        if eids == list(range(m)):
            return "eids:identity"
        if sorted(eids) == list(range(m)):
            return "eids:nonidentity-permutation"
        return "eids:int-gaps"
    if m and all(isinstance(e, str) for e in eids):
        return "eids:strings"
    return "eids:mixed" if m else "eids:none"


def base_skip_flags(case):
    """flags of measures that cannot be evaluated on this case at all"""
    nodes = [dec_id(n) for n in case["nodes"]]
    eids = [dec_id(e) for e, _ in case["edges"]]
    return ({"orderable"} if not CM.orderable(nodes) else set()) | ({"eids-orderable"} if not CM.orderable(eids) else set())


def metamorphic(ctx, case, base, H, labels=None, first_seen=None):
    """the six relabel x order variants plus two pure re-insertions; records violations"""
    rng = ctx.rng
    nodes = [dec_id(n) for n in case["nodes"]]
    edges = [(dec_id(e), [dec_id(x) for x in ms]) for e, ms in case["edges"]]
    skip0 = base_skip_flags(case)
    if "orderable" in skip0:
        ctx.stats["simpliciality-skipped:mixed-node-labels"] += 1
    failed_order = set()
    obs0 = CM.observe(H, {n: n for n in H.nodes}, {e: e for e in H.edges}) if labels is None else {}
    for relabel in ("id",) + RELABELS:
        # the two new relabellings (str()-colliding pool, tuples) under one insertion order each, drawn at random
        for nodes_first in ((True, False) if relabel in ("id", "ints", "perm", "str") else (rng.random() < 0.5,)):
            var = make_variant(rng, nodes, edges, relabel, nodes_first)
            H2, inv_n, inv_e = build_variant(var, case)
            if relabel == "perm" and len(edges) >= 2 and list(H2.edges) != list(range(len(edges))):
                ctx.stats["variant:edge-id-differs-from-position"] += 1
            res = CM.evaluate(H2, inv_n, inv_e, labels=labels, skip_flags=skip0 | (set() if relabel == "id" else {"order-only"}) | UNORDERABLE.get(relabel, set()))
            if obs0:
                for (site, label, shape, tol, _), (_, b) in zip(CM.OBS, CM.observe(H2, inv_n, inv_e).items()):
                    if not CM.same(obs0[label], b, tol):
                        ctx.stats["outside-statement-differs:" + label] += 1
                        ctx.extra.setdefault("outside_statement_examples", {}).setdefault(
                            label, {"original": case, "relabelled": variant_net(var, case), "detail": CM.first_diff(obs0[label], b, tol)})
            ctx.evaluations += len(res)
            ctx.stats["variant:" + relabel] += 1
            for label, b in res.items():
                site, _, shape, tol, flags, _ = CM.BY_LABEL[label]
                if label not in base:
                    continue
                a = base[label]
                if CM.same(a, b, tol):
                    continue
                again = relabel != "id" and label in failed_order
                cls = "not-order-invariant" if (relabel == "id" or again) else "not-relabel-invariant"
                if relabel == "id":
                    failed_order.add(label)
                detail = (f"{label}: original vs {relabel}-relabelled/reordered (mapped back)"
                          + (" [already differs under re-insertion alone]" if again else "") + ": " + CM.first_diff(a, b, tol))
                c, v = case, var
                if first_seen is not None and (site, cls) not in first_seen:
                    first_seen.add((site, cls))
                    c, v = shrink(case, var, label, budget=40 if CM.NO_ANSWER in (a, b) else 150)
                    d2 = forced(differs, c, v, label)       # the shrunk pair must still differ under the full budget
                    c, v, detail = (c, v, d2) if d2 else (case, var, detail)
                ctx.violation(site, cls, {"measure": label, "original": c, "variant": v, "relabelled": variant_net(v, c)}, detail=detail)
                ctx.stats["violation:" + site] += 1


def run_cases(ctx, cases, model=True, meta=True, labels=None, first_seen=None, dis_sites=None):
    reqs, keep, xreqs, xexp = [], [], [], []
    for case in cases:
        H = build_orig(case)
        idn, ide = {n: n for n in H.nodes}, {e: e for e in H.edges}
        nodes = [dec_id(n) for n in case["nodes"]]
        base = CM.evaluate(H, idn, ide, labels=labels, skip_flags=base_skip_flags(case))
        ctx.evaluations += len(base)
        for lab, val in base.items():
            if val == CM.NO_ANSWER:          # never "the same exception on both sides": the measure did not return
                site, cls, c = CM.BY_LABEL[lab][0], "no-answer-within-cpu-budget", case
                detail = f"{lab}: no answer within {5 * CM.GUARD['s']:g} s of CPU time on a network of {len(case['nodes'])} nodes / {len(case['edges'])} edges"
                if first_seen is not None and (site, cls) not in first_seen:
                    first_seen.add((site, cls))
                    c, _ = shrink(case, make_variant(ctx.rng, nodes, [(dec_id(e), [dec_id(x) for x in ms]) for e, ms in case["edges"]], "id", True),
                                  lab, budget=40, still=lambda cc, vv: hangs(cc, lab) is not None)
                    d2 = forced(hangs, c, lab)
                    c, detail = (c, d2) if d2 else (case, detail)
                ctx.violation(site, cls, {"measure": lab, "original": c}, detail=detail)
                ctx.stats["violation:" + site] += 1
        comp = ctx.extra.setdefault("_completion", {})
        for lab, val in base.items():
            rec = comp.setdefault(lab, [0, 0, Counter()])
            rec[1] += 1
            if isinstance(val, tuple) and val and val[0] == "$err":
                rec[2][val[1]] += 1
            else:
                rec[0] += 1
        if case.get("eattr"):
            ctx.stats["cases-with-edge-weights"] += 1
        if case.get("nattr"):
            ctx.stats["cases-with-node-attributes"] += 1
        ctx.stats[classify(case)] += 1
        ctx.stats["node-labels:" + ("mixed" if not CM.orderable(nodes) else "str" if nodes and isinstance(nodes[0], str) else "int")] += 1
        if any(len(ms) >= 2 for _, ms in case["edges"]):
            ctx.nontrivial.add(jhash(case))
        ctx.sample({"case": case, "degree": repr(base.get("nodes.degree")), "local_clustering_coefficient": repr(base.get("local_clustering_coefficient"))}, cap=3)
        if meta:
            metamorphic(ctx, case, base, H, labels=labels, first_seen=first_seen)
        if model:
            reqs.append(model_request(case))
            keep.append((case, H, base if labels is None else CM.evaluate(H, idn, ide)))
            # the model's own `rename` / `reverseAll` against the harness's relabelling of the same network
            var = make_variant(ctx.rng, nodes, [(dec_id(e), [dec_id(x) for x in ms]) for e, ms in case["edges"]], "str", True)
            xreqs.append({"f": "rename", "net": {"nodes": case["nodes"], "edges": case["edges"]}, "pi": var["pi"], "sigma": var["sigma"]})
            pi, sg = {json.dumps(a): b for a, b in var["pi"]}, {json.dumps(a): b for a, b in var["sigma"]}
            xexp.append({"out": "ok", "nodes": [pi[json.dumps(n)] for n in case["nodes"]],
                         "edges": [[sg[json.dumps(e)], [pi[json.dumps(x)] for x in ms]] for e, ms in case["edges"]]})
            xreqs.append({"f": "reverse", "net": {"nodes": case["nodes"], "edges": case["edges"]}})
            xexp.append({"out": "ok", "nodes": case["nodes"][::-1], "edges": [[e, ms[::-1]] for e, ms in case["edges"]][::-1]})
    if not reqs:
        return
    resps = run_driver("C09", reqs + xreqs)
    for rq, got, exp in zip(xreqs, resps[len(reqs):], xexp):
        ctx.stats["model-selftest:" + rq["f"]] += 1      # the model's own rename / reverseAll vs the harness: not a trace against /repo
        if got != exp:
            dis_sites["model:" + rq["f"]] += 1
            ctx.extra.setdefault("disagreements", []).append({"case": rq, "measure": rq["f"], "impl": repr(exp)[:300], "model": repr(got)[:300]})
    resps = resps[:len(reqs)]
    for (case, H, base), resp in zip(keep, resps):
        if resp.get("out") == "bad-op":
            raise Infra(f"model C09 rejected request (harness defect): {json.dumps(case)[:300]}")
        if resp.get("out") == "unmodelled":
            ctx.stats["unmodelled"] += 1
            continue
        ctx.traces += 1
        for site, key, i, m in compare_model(case, H, base, canon(resp)):
            dis_sites[site] += 1
            ctx.stats["disagree:" + site] += 1
            ctx.extra.setdefault("disagreements", [])
            if len(ctx.extra["disagreements"]) < 8:
                ctx.extra["disagreements"].append({"case": case, "measure": key, "impl": repr(i)[:400], "model": repr(m)[:400]})


def completion_report(ctx):
    """(iii) of the module docstring: a quantity that raised on every generated original was never exercised"""
    comp = ctx.extra.pop("_completion", {})
    always, table = [], {}
    for lab, (done, total, errs) in sorted(comp.items()):
        if total and done == 0 and set(errs) != {"no-answer"}:     # a measure that never returned is reported concretely above
            always.append({"measure": lab, "site": CM.BY_LABEL[lab][0], "evaluations": total, "exceptions": dict(errs)})
        if total and done * 4 < total:
            table[lab] = {"completed": done, "of": total, "exceptions": dict(errs)}
    ctx.extra["always_raises"] = always
    ctx.extra["rarely_completes"] = table
    ctx.stats["measures_evaluated"] = len(comp)
    ctx.stats["measures_always_raising"] = len(always)
    for a in always:
        ctx.violation(a["site"], "raises-on-every-input", {"measure": a["measure"], "exceptions": a["exceptions"], "evaluations": a["evaluations"]},
                      detail=f"{a['measure']} raised on all {a['evaluations']} generated hypergraphs ({a['exceptions']}): its invariance was "
                             "not exercised at all, nothing is claimed for it", kind="unproven",
                      broken=[f"C09 metamorphic run: {a['measure']} never returned a value"])


def run(ctx):
    ok = build_and_audit(ctx, "XgiModel.Props.C09", ["XgiModel.C09.Drive"])
    ctx.rule = ("small hypergraphs (<=7 nodes, <=7 edges, sizes 1-4, isolated nodes, multi-edges, uniform ones; every 12th one with 9-11 nodes and edge "
                "sizes containing a pair a, a+8 such as 1 and 9) from one PRNG, 85 % of them with "
                "an edge attribute 'weight' (on ~75 % of the edges, values 1/2/3/0.5/2.5) and a node attribute 'mass'; edge-ID "
                "schemes cycled over identity / reversed and rotated permutations of 0..m-1 / gapped ints / strings / mixed, node labels over "
                "ints / gapped / negative / strings / mixed / a pool equal under str() (1, '1', 0, '0', ...; also an edge-ID scheme); every 6th case a "
                "path-like hypergraph of 5-8 nodes with edges listed from a random end and nodes pre-inserted in another order; each case is "
                "re-inserted twice under the identity labelling and under five relabellings (gapped ints, half of them above 2**53; non-identity "
                "permutation of 0..k-1 and 0..m-1; strings; the str()-colliding pool; tuples mixed with their str() and ints) — the first three x two "
                "insertion orders (nodes, edges and members shuffled; nodes before edges with attributes given at insertion, or after edges with "
                "attributes attached by the setters), the last two under one order drawn at random; attributes travel with their node / edge; "
                "plus, implementation only: 20 held-object sequences (all quantities on one object vs the opposite call order on a fresh equal "
                "network, then a count-preserving and an ordinary in-place edit, all quantities again vs a fresh equal network), 3 large networks "
                "(70-90 nodes or 130-140 parallel edges, labels above 2**53, 41 cheaper quantities, two variants each) and 20 SimplicialComplex "
                f"pairs (faces matched by member set); {len(CM.M)} structural quantities incl. the weighted variants compared "
                "after mapping back; the modelled measures are compared with the Lean model on the original; non-trivial = distinct case with "
                "an edge of >=2 members")
    first_seen, dis_sites = set(), Counter()
    corpus = load_corpus()
    ctx.stats["corpus_cases"] = len(corpus)
    cases = corpus + [mk_case(ctx.rng, i) for i in range(ctx.n(60, 1500))]
    run_cases(ctx, cases, first_seen=first_seen, dis_sites=dis_sites)
    # review-2 families, implementation only: held objects (state across calls), large networks, SimplicialComplex instances
    run_held(ctx, ctx.n(20, 300), first_seen=first_seen)
    run_large(ctx, ctx.n(3, 12), first_seen=first_seen)
    run_sc(ctx, ctx.n(20, 300), first_seen=first_seen)
    if not ctx.quick:
        small = [{"nodes": list(ns), "edges": [[e, list(ms)] for e, ms in es]} for ns, es in all_small_hypergraphs(4, 3)]
        run_cases(ctx, small, meta=False, dis_sites=dis_sites)
        ctx.exhaustive = True
        ctx.extra["exhaustive_space"] = (f"model vs implementation (correspondence only) on all {len(small)} hypergraphs with 4 nodes and <=3 distinct "
                                         "edges, IDs 0..m-1")
    for site, k in dis_sites.items():
        ctx.broken.append(f"correspondence C09 measures: model and implementation differ on {site} in {k} cases")
    unexplained = [s for s in dis_sites if not any(v["site"] == s for v in ctx.violations)]
    if (not ok and not unlisted_violations(ctx)) or unexplained:
        # search harder on the implementation, biased to the functions involved
        labels = None if not ok and not unexplained else {m[1] for m in CM.M if m[0] in unexplained} or None
        more = [mk_case(ctx.rng, i) for i in range(ctx.n(150, 1500))]
        run_cases(ctx, more, model=False, labels=labels, first_seen=first_seen, dis_sites=dis_sites)
        ctx.stats["targeted_search_cases"] = len(more)
        unexplained = [s for s in dis_sites if not any(v["site"] == s for v in ctx.violations)]
        if unexplained or (not ok and not unlisted_violations(ctx)):
            ctx.violation("model-tie", "unproven", {"broken": ctx.broken, "example": ctx.extra.get("disagreements", [])[:1]},
                          detail="; ".join(ctx.broken)[:500], kind="unproven", broken=ctx.broken)
    completion_report(ctx)
    ctx.assumptions = [
        "originals have int / str IDs (mixed allowed, incl. pairs equal under str() such as 1 and '1'); tuple IDs and integers above 2**53 occur in "
        "the relabelled variants (and above 2**53 in the large originals); bool / float IDs and empty edges are outside the generated domain",
        "held-object family: the reference is a fresh xgi.Hypergraph rebuilt from the live object's own views (nodes, members, attributes) in the "
        "object's own order; an edit the library refuses ends the sequence",
        "SimplicialComplex family: a complex names its own faces, so edge IDs are matched through the member sets; quantities flagged order-only / "
        "needing orderable edge IDs are left out there",
        "attributes: one numeric edge attribute ('weight', missing on some edges) and one numeric node attribute ('mass'); they are data of the "
        "node / edge and travel with it under the relabelling",
        "simpliciality measures are compared only when node labels are mutually orderable on BOTH sides (Trie sorts members; mixed int/str labels raise "
        "TypeError there): never under the str()-colliding and tuple relabellings",
        "edges.duplicates() / nodes.duplicates() leave out the smallest ID of every class of equal IDs (sorted(); insertion order when the IDs are not "
        "mutually orderable): under RELABELLING only the classes are compared (which ID is smallest is not preserved by an arbitrary bijection; "
        "Lean: C09_duplicates_rename needs an order-preserving sigma, counter-example in Props/C09.lean), under RE-INSERTION ALONE the exact result "
        "is compared whenever the IDs are mutually orderable",
        "largest_connected_component / largest_connected_hypergraph: with several largest components only the size is compared (first one in node order is returned)",
        "floats compared with relative/absolute tolerance 1e-9 (Katz centrality 1e-8); NaN equals NaN",
        "a quantity raising the same exception type on original and variant counts as equal for that case; a quantity raising on EVERY generated "
        "original is reported (always_raises, exit 1 unproven), not counted as invariant",
        "Katz centrality, degree/dynamical assortativity coefficients, simpliciality, multiorder and normalized Laplacians, intersection profile, "
        "clique motif and degree matrices, every weighted / attribute-reading variant and the line graph are checked metamorphically on the "
        "implementation only (no Lean model)",
    ]
    return finish(ctx, trusted_base=TRUSTED_COMMON + [
        "the relabel/reinsert builder and the map-back canonicaliser of harness/c09_measures.py",
        "numpy/scipy dense and sparse algebra as used by xgi.linalg (the model gives matrix entries as functions of IDs)"])


def replay(ctx, path):
    j = json.load(open(path))
    c = j.get("case", j)
    if "simplicial_complex" in c:
        sc = c["simplicial_complex"]
        d = sc_differs([dec_id(x) for x in sc["nodes"]], [[dec_id(x) for x in ms] for ms in sc["simplices"]],
                       {dec_id(a): dec_id(b) for a, b in sc["pi"]}, sc["order_seed"], c["measure"])
        print(f"SimplicialComplex: nodes={sc['nodes']} simplices={sc['simplices']} relabelling={sc['pi']}")
        print(("STILL DIFFERS: " + d) if d else f"{c['measure']}: equal after mapping back")
        return 1 if d else 0
    case, label = c["original"], c["measure"]
    CM.GUARD["force"] = True
    if "held" in c:                             # held-object family: stale-after-edit / depends-on-earlier-call
        d = held_differs(case, c["held"]["edits"], label, c["held"].get("warm", "all"))
        print(f"original: nodes={case['nodes']} edges={case['edges']}; on the SAME object: measures ({c['held'].get('warm', 'all')}), then edits {c['held']['edits']}, then {label}")
        print(("STILL DIFFERS: " + d) if d else f"{label}: the live object agrees with a freshly built equal network")
        return 1 if d else 0
    if "variant" not in c:                      # failure class no-answer-within-cpu-budget: the measure did not return
        d = hangs(case, label)
        print(f"original: nodes={case['nodes']} edges={case['edges']}")
        print(("STILL NO ANSWER: " + d) if d else f"{label}: returned")
        return 1 if d else 0
    var = c["variant"]
    d = differs(case, var, label)
    print(f"original: nodes={case['nodes']} edges={case['edges']}")
    print(f"relabelled/reordered: {variant_net(var, case)}")
    if d:
        print("STILL DIFFERS:", d)
        return 1
    print(f"{label}: equal after mapping back")
    return 0
