"""C07 — copies, pickles and network-to-network constructors are equal and independent.

A *case* is {"class", "build": [ops], "route": "copy"|"pickle"|"ctor", "edits": [ops tagged with "side"]}.
`evaluate` runs it on the real implementation and evaluates the property's own predicate:

  (a) the clone shows the same network as the source (nodes in order, edges in order, members or tail/head,
      memberships, the three attribute levels), is of the same class, and cloning does not change the source;
  (b) the object graphs of source and clone share no mutable container (`id()` walk: dicts, sets, lists,
      bytearrays, the itertools.count, instances; ints/strs/tuples of immutables/frozensets are values) —
      full depth for copy(), container level (tables, per-ID sets, attribute dicts) for pickle / constructor;
      the same object graph is handed to the Lean model (`Heap.checkSep`, the hypothesis of theorem `frame`);
  (c) every edit of one side (public mutators, in-place writes to attribute dicts, and — through copy() —
      in-place edits of nested attribute values) leaves the snapshot of the other side unchanged;
  (d) afterwards both sides add edges with automatic IDs: every existing edge stays, the new ID is new.

For `Hypergraph` the whole case is replayed through the Lean model (Drivers/C07.lean: build history on side a,
`HG.copy` / `HG.pickleRoundTrip` / `HG.ofNetwork`, edits on either side) and compared step by step.
"""
import copy as pycopy
import datetime
import decimal
import enum
import fractions
import glob
import itertools
import json
import os
import pickle
import types
import warnings
from collections import deque

import numpy as np
import xgi
from xgi.exception import IDNotFound, XGIError

from .. import c07_families as FAM
from .. import hg as MH
from ..core import Infra, TRUSTED_COMMON, VERIF, build_and_audit, canon, dec_id, enc_id, enc_val, finish, idkey, jhash, run_driver
from ..fn import all_small_hypergraphs, conclude

ROUTES = {
    "copy": lambda H: H.copy(),
    "pickle": lambda H: pickle.loads(pickle.dumps(H)),
    "ctor": lambda H: type(H)(H),
}


def site_of(cls, route):
    return {"copy": f"{cls}.copy", "pickle": f"pickle({cls})", "ctor": f"{cls}(network)"}[route]


# ----------------------------------------------------------------------------- nested attribute values

NESTED = [
    [1, 2],
    {"k": [1]},
    {"s": {"$pyset": [1, 2]}, "l": [3, [4]]},
    [{"d": {"e": [5]}}, 6],
    {"$pyset": [7, 8]},
    {"deep": {"deeper": {"deepest": [0]}}},
    [],
    {},
    {"$pytuple": [[0, 1], "fixed"]},                 # an immutable shell around a mutable value
    {"pos": {"$pytuple": [{"xy": [2, 3]}, 4]}},
]
KEYS = ["w", "color", "label", "nest", "m"]


def mk(spec):
    """JSON spec -> fresh Python value ({"$pyset": l} -> set)"""
    if isinstance(spec, dict):
        if set(spec) == {"$pyset"}:
            return {mk(x) for x in spec["$pyset"]}
        if set(spec) == {"$pytuple"}:
            return tuple(mk(x) for x in spec["$pytuple"])
        return {k: mk(v) for k, v in spec.items()}
    if isinstance(spec, list):
        return [mk(x) for x in spec]
    return spec


def spec_of(v):
    if isinstance(v, (set, frozenset)):
        return {"$pyset": sorted((spec_of(x) for x in v), key=idkey)}
    if isinstance(v, dict):
        return {str(k): spec_of(x) for k, x in v.items()}
    if isinstance(v, (list, tuple)):
        return [spec_of(x) for x in v]
    if v is None or isinstance(v, (str, int, float, bool)):
        return v
    return repr(v)


def _scalar(x):
    return x is None or isinstance(x, str) or (isinstance(x, int) and not isinstance(x, bool))


def _has_set(v):
    if isinstance(v, dict):
        return any(_has_set(x) for x in v.values())
    if isinstance(v, (list, tuple)):
        return any(isinstance(x, (set, frozenset)) or _has_set(x) for x in v)
    return False


def enc_val7(v):
    """canonical form of an attribute value: core.enc_val, extended to containers that hold sets (sorted)"""
    if isinstance(v, (set, frozenset)) and not all(_scalar(x) for x in v):
        return {"$o": json.dumps(spec_of(v), sort_keys=True)}
    if isinstance(v, (dict, list)) and _has_set(v):
        return {"$o": json.dumps(spec_of(v), sort_keys=True)}
    return enc_val(v)


def enc_val7_req(v):
    if isinstance(v, (set, frozenset)) and all(_scalar(x) for x in v):
        return {"$set": sorted(v, key=idkey)}
    return enc_val7(v)


def enc_attrs7(d):
    return sorted(([str(k), enc_val7(v)] for k, v in d.items()), key=lambda p: p[0])


# ----------------------------------------------------------------------------- snapshots (public API + the counter)

def sids(it):
    return sorted((enc_id(x) for x in it), key=idkey)


def next_uid(H):
    try:
        return next(pycopy.copy(H._edge_uid))
    except Exception:  # noqa
        return "$err"


def snapshot(H, cls, out="ok"):
    nodes, edges = list(H.nodes), list(H.edges)
    s = {"out": out, "nodes": [enc_id(n) for n in nodes], "edges": [enc_id(e) for e in edges]}
    mem, memb, nattr, eattr = [], [], [], []
    for e in edges:
        try:
            if cls == "DiHypergraph":
                t, h = H.edges.dimembers(e)
                mem.append([enc_id(e), [sids(t), sids(h)]])
            else:
                mem.append([enc_id(e), sids(H.edges.members(e))])
        except Exception as ex:  # noqa
            mem.append([enc_id(e), "$err:" + type(ex).__name__])
        try:
            eattr.append([enc_id(e), enc_attrs7(H.edges[e])])
        except Exception:  # noqa
            eattr.append([enc_id(e), "$missing"])
    for n in nodes:
        try:
            if cls == "DiHypergraph":
                i, o = H.nodes.dimemberships(n)
                memb.append([enc_id(n), [sids(i), sids(o)]])
            else:
                memb.append([enc_id(n), sids(H.nodes.memberships(n))])
        except Exception as ex:  # noqa
            memb.append([enc_id(n), "$err:" + type(ex).__name__])
        try:
            nattr.append([enc_id(n), enc_attrs7(H.nodes[n])])
        except Exception:  # noqa
            nattr.append([enc_id(n), "$missing"])
    s.update(mem=mem, memb=memb, nattr=nattr, eattr=eattr)
    na, ea = getattr(H, "_node_attr", None), getattr(H, "_edge_attr", None)
    s["nattrK"] = sids(na.keys()) if na is not None else sids(nodes)
    s["eattrK"] = sids(ea.keys()) if ea is not None else sids(edges)
    s["net"] = enc_attrs7(getattr(H, "_net_attr", {}))
    s["uid"] = next_uid(H)
    s["frozen"] = bool(H.is_frozen)
    return s


EQ_FIELDS = ["nodes", "edges", "mem", "memb", "nattr", "eattr", "net"]           # what the statement calls "the same"
ALL_FIELDS = ["out", "nodes", "edges", "mem", "memb", "nattr", "eattr", "nattrK", "eattrK", "net", "uid", "frozen"]


def body(s):
    return {k: v for k, v in s.items() if k != "out"}


def consistent(s, cls):
    """two-way incidence and one attribute record per id on the *source* (defects of other properties — C01/C02/C03 —
    are not charged to C07: such sources are skipped and counted)"""
    nodes, edges = s["nodes"], s["edges"]
    if any(a == "$missing" for _, a in s["nattr"] + s["eattr"]):
        return False
    mem, memb = {repr(k): v for k, v in s["mem"]}, {repr(k): v for k, v in s["memb"]}
    flat = (lambda v: v[0] + v[1]) if cls == "DiHypergraph" else (lambda v: v)
    for e, ms in s["mem"]:
        if not isinstance(ms, list):
            return False
        for n in flat(ms):
            if n not in nodes or not isinstance(memb.get(repr(n)), list) or e not in flat(memb[repr(n)]):
                return False
    for n, es in s["memb"]:
        if not isinstance(es, list):
            return False
        for e in flat(es):
            if e not in edges or not isinstance(mem.get(repr(e)), list) or n not in flat(mem[repr(e)]):
                return False
    return True


def sc_closed(S):
    sets = {frozenset(S.edges.members(e)) for e in S.edges}
    if len(sets) != len(S.edges) or frozenset() in sets:
        return False
    for f in sets:
        for r in range(2, len(f)):
            for sub in itertools.combinations(f, r):
                if frozenset(sub) not in sets:
                    return False
    return True


def counter_stale(s):
    """the source's own counter is not above its integer edge ids (a C04-type defect of the source, not of the clone)"""
    ints = [e for e in s["edges"] if isinstance(e, int) and not isinstance(e, bool)]
    return isinstance(s["uid"], int) and any(e >= s["uid"] for e in ints)


# ----------------------------------------------------------------------------- object-graph walk

ATOMS = (int, float, complex, str, bytes, bool, type(None), range, type(Ellipsis), type(NotImplemented),
         datetime.date, datetime.time, datetime.timedelta, enum.Enum, np.generic, fractions.Fraction, decimal.Decimal)
CODE = (type, types.FunctionType, types.BuiltinFunctionType, types.ModuleType, types.MethodDescriptorType,
        types.WrapperDescriptorType, property, staticmethod, classmethod)


def _is_value(o):
    if isinstance(o, ATOMS) or isinstance(o, CODE):
        return True
    if isinstance(o, (tuple, frozenset)):
        return all(_is_value(x) for x in o)
    return False


def _children(o):
    if isinstance(o, dict):
        return list(o.keys()) + list(o.values())
    if isinstance(o, (list, tuple, set, frozenset, deque)):
        return list(o)
    if isinstance(o, (bytearray, itertools.count)):
        return []
    if isinstance(o, types.MethodType):
        return [o.__self__]
    kids = []
    d = getattr(o, "__dict__", None)
    if isinstance(d, dict):
        kids += list(d.values())
    for klass in type(o).__mro__:
        sl = getattr(klass, "__slots__", ())
        for s in ([sl] if isinstance(sl, str) else sl or ()):
            if isinstance(s, str) and hasattr(o, s):
                kids.append(getattr(o, s))
    return kids


def walk(root, leaves=frozenset()):
    """mutable cells reachable from root: {id: (object, [ids of referenced cells])}; cells in `leaves` are not entered"""
    cells, stack = {}, [root]
    while stack:
        o = stack.pop()
        if id(o) in cells:
            continue
        refs = []
        cells[id(o)] = (o, refs)
        if id(o) in leaves:
            continue
        todo, shells = list(_children(o)), set()
        while todo:
            c = todo.pop()
            if _is_value(c):
                continue
            if isinstance(c, (tuple, frozenset)):       # immutable shell around something mutable: look through it
                if id(c) not in shells:
                    shells.add(id(c))
                    todo += list(c)
                continue
            refs.append(id(c))
            stack.append(c)
    return cells


def attr_dicts(H):
    """ids of the attribute dicts (per node, per edge, network) — the boundary of the container-level walk"""
    out = set()
    for view in (H.nodes, H.edges):
        for i in view:
            try:
                out.add(id(view[i]))
            except Exception:  # noqa  (a broken clone; already reported by (a))
                pass
    na = getattr(H, "_net_attr", None)
    if na is not None:
        out.add(id(na))
    return out


def describe_shared(shared, cells):
    out = []
    for i in list(shared)[:3]:
        o = cells[i][0]
        out.append(f"{type(o).__name__} {repr(o)[:60]}")
    return "; ".join(out)


def heap_request(H, C, cellsA, cellsB):
    """the two object graphs as a concrete heap of the Lean model + the reach sets as certificate"""
    num = {}
    for i in list(cellsA) + list(cellsB):
        num.setdefault(i, len(num))
    merged = dict(cellsB)
    merged.update(cellsA)
    return {"op": "heap_sep", "cells": [[num[i], [num[r] for r in merged[i][1]]] for i in num],
            "A": [num[id(H)]], "B": [num[id(C)]], "SA": [num[i] for i in cellsA], "SB": [num[i] for i in cellsB]}


# ----------------------------------------------------------------------------- ops on the implementation

def _decorate(H, op):
    v = mk(op["v"])
    if op["level"] == "net":
        H[op["k"]] = v
    elif op["level"] == "node":
        H.set_node_attributes({dec_id(op["id"]): {op["k"]: v}})
    else:
        H.set_edge_attributes({dec_id(op["id"]): {op["k"]: v}})


def _poke(H, op):
    """in-place write below the public API: to an attribute dict handed out by a view, or to a nested value inside it.
    Records in op["done"] what was changed (None = nothing to poke)."""
    op["done"] = None
    level, k = op["level"], op["k"]
    if level == "net":
        try:
            v = H[k]
        except Exception:  # noqa
            return
    else:
        view = H.nodes if level == "node" else H.edges
        ident = dec_id(op["id"])
        try:
            if ident not in view:
                return
        except Exception:  # noqa
            return
        d = view[ident]
        if op["act"] == "assign":
            d[op["k2"]] = mk(op["v"])
            op["done"] = op["k2"]
            return
        if k not in d:
            return
        v = d[k]
    def _through_tuple(v):
        while isinstance(v, tuple):                  # look through immutable shells
            inner = next((x for x in v if isinstance(x, (list, dict, set, tuple))), None)
            if inner is None:
                return v
            v = inner
        return v
    v = _through_tuple(v)
    for _ in range(op.get("depth", 0)):
        nxt = None
        if isinstance(v, dict):
            for kk in sorted(v, key=str):
                if isinstance(v[kk], (list, dict, set, tuple)):
                    nxt = v[kk]
                    break
        elif isinstance(v, list):
            for x in v:
                if isinstance(x, (list, dict, set)):
                    nxt = x
                    break
        if nxt is None:
            break
        v = _through_tuple(nxt)
    if isinstance(v, list):
        v.append(op.get("x", 99))
    elif isinstance(v, dict):
        v["poked"] = [op.get("x", 99)]
    elif isinstance(v, set):
        v.add(op.get("x", 99))
    else:
        return
    op["done"] = k


def call_hg(H, op):
    if op["op"] == "decorate":
        return _decorate(H, op)
    if op["op"] == "poke":
        return _poke(H, op)
    return MH.call(H, op)


def _members1(ms):
    """member container for a bulk format: a list — unless a label is a tuple; then a frozenset, which the format
    detection always reads as a member set (a list or tuple that starts with a tuple label is read as (members, id[, attrs]):
    DESIGN 13.6, tuple labels and the list formats — not what C07 is about)"""
    return frozenset(ms) if any(isinstance(m, tuple) for m in ms) else ms


def _attrs_of(op):
    return {k: mk(v) for k, v in op.get("attr", {}).items()}


def call_dh(H, op):
    name = op["op"]
    if name == "decorate":
        return _decorate(H, op)
    if name == "poke":
        return _poke(H, op)
    if name == "add_nodes_from":
        return H.add_nodes_from([(dec_id(n), {k: mk(v) for k, v in a.items()}) if a is not None else dec_id(n) for n, a in op["items"]])
    if name == "add_edge":
        kw = {} if op["idx"] == "$auto" else {"idx": dec_id(op["idx"])}
        return H.add_edge(([dec_id(x) for x in op["tail"]], [dec_id(x) for x in op["head"]]), **kw, **_attrs_of(op))
    if name == "add_edges_from":
        if op["fmt"] == 1:
            return H.add_edges_from([([dec_id(x) for x in it["tail"]], [dec_id(x) for x in it["head"]]) for it in op["items"]])
        return H.add_edges_from([(([dec_id(x) for x in it["tail"]], [dec_id(x) for x in it["head"]]), dec_id(it["idx"]),
                                  {k: mk(v) for k, v in it.get("attr", {}).items()}) for it in op["items"]])
    if name == "remove_edge":
        return H.remove_edge(dec_id(op["e"]))
    if name == "remove_node":
        return H.remove_node(dec_id(op["n"]), strong=op["strong"])
    if name == "add_node_to_edge":
        return H.add_node_to_edge(dec_id(op["e"]), dec_id(op["n"]), op["direction"])
    if name == "remove_node_from_edge":
        return H.remove_node_from_edge(dec_id(op["e"]), dec_id(op["n"]), op["direction"])
    if name == "clear":
        return H.clear()
    if name == "freeze":
        return H.freeze()
    raise AssertionError(name)


def call_sc(H, op):
    name = op["op"]
    if name == "decorate":
        return _decorate(H, op)
    if name == "poke":
        return _poke(H, op)
    if name == "add_nodes_from":
        return H.add_nodes_from([(dec_id(n), {k: mk(v) for k, v in a.items()}) if a is not None else dec_id(n) for n, a in op["items"]])
    if name == "add_simplex":
        kw = {} if op["idx"] == "$auto" else {"idx": dec_id(op["idx"])}
        return H.add_simplex([dec_id(x) for x in op["members"]], **kw, **_attrs_of(op))
    if name == "add_simplices_from":
        if op["fmt"] == 1:
            return H.add_simplices_from([_members1([dec_id(x) for x in it["members"]]) for it in op["items"]])
        return H.add_simplices_from([(_members1([dec_id(x) for x in it["members"]]), dec_id(it["idx"]),
                                      {k: mk(v) for k, v in it.get("attr", {}).items()}) for it in op["items"]])
    if name == "remove_simplex_id":
        return H.remove_simplex_id(dec_id(op["e"]))
    if name == "remove_node":
        return H.remove_node(dec_id(op["n"]))
    if name == "clear":
        return H.clear()
    if name == "freeze":
        return H.freeze()
    raise AssertionError(name)


CLASSES = {
    "Hypergraph": (xgi.Hypergraph, call_hg),
    "DiHypergraph": (xgi.DiHypergraph, call_dh),
    "SimplicialComplex": (xgi.SimplicialComplex, call_sc),
}


def apply(cls, H, op):
    out, _ = MH.apply_impl(H, op, callf=CLASSES[cls][1])
    return out


def to_request(op, H, side):
    """request line of the C07 driver for an op already executed on the implementation (Hypergraph only)"""
    name = op["op"]
    if name == "decorate":
        v = enc_val7_req(mk(op["v"]))
        if op["level"] == "net":
            r = {"op": "set_net_attr", "k": op["k"], "v": v}
        else:
            r = {"op": "set_node_attributes" if op["level"] == "node" else "set_edge_attributes", "shape": "dict_of_dict",
                 "values": [[op["id"], [[op["k"], v]]]]}
    elif name == "poke":
        raise AssertionError("pokes are translated by poke_requests")
    else:
        r = MH.to_request(op)
        r.pop("done", None)
    r = dict(r)
    r["side"] = side
    return r


def poke_requests(H, before, after, side):
    """an in-place write below the API has no model call of its own: it is sent as the attribute writes it amounts to.
    Values may be aliased inside one network (`add_nodes_from(..., **attr)` and `set_*_attributes(const, name)` store the
    same object under several ids), so every id whose attribute dict changed on this side is re-sent in full."""
    reqs = []
    for lvl, field, view in (("node", "nattr", H.nodes), ("edge", "eattr", H.edges)):
        b = {repr(k): v for k, v in before[field]}
        ch = [k for k, v in after[field] if b.get(repr(k)) != v and v != "$missing"]
        if ch:
            reqs.append({"op": f"set_{lvl}_attributes", "shape": "dict_of_dict", "side": side,
                         "values": [[k, [[str(a), enc_val7_req(v)] for a, v in view[dec_id(k)].items()]] for k in ch]})
    if before["net"] != after["net"]:
        b = dict(map(tuple, map(lambda p: (p[0], json.dumps(p[1])), before["net"])))
        for k, v in after["net"]:
            if b.get(k) != json.dumps(v):
                reqs.append({"op": "set_net_attr", "k": k, "v": enc_val7_req(H[k]), "side": side})
    return reqs or [{"op": "snapshot", "side": side}]


# ----------------------------------------------------------------------------- generation

def _nested(rng):
    return pycopy.deepcopy(rng.choice(NESTED))


def _decor_ops(rng, nodes, eids, n):
    ops = []
    for _ in range(n):
        level = rng.choice(["node", "edge", "net", "node", "edge"])
        op = {"op": "decorate", "level": level, "k": rng.choice(KEYS), "v": _nested(rng)}
        if level != "net":
            op["id"] = enc_id(rng.choice(nodes if level == "node" else eids))
        ops.append(op)
    return ops


def _poke_op(rng, nodes, eids, nested_ok):
    level = rng.choice(["node", "edge", "net"] if nested_ok else ["node", "edge"])
    op = {"op": "poke", "level": level, "k": rng.choice(KEYS), "act": "nested" if nested_ok and rng.random() < 0.75 else "assign",
          "depth": rng.randint(0, 3), "x": rng.choice([99, "p", -1])}
    if level == "net":
        op["act"] = "nested"
    else:
        op["id"] = enc_id(rng.choice(nodes if level == "node" else eids))
    if op["act"] == "assign":
        op["k2"] = rng.choice(KEYS + ["fresh"])
        op["v"] = rng.choice([1, "z", None]) if rng.random() < 0.5 else _nested(rng)
    return op


def _bulk_start(rng, g):
    fmt = rng.choice([1, 1, 2, 3, 4, 5])
    items = [g.edge_item(fmt) for _ in range(rng.randint(1, 5))]
    for it in items:
        it["members"] = [m for m in it["members"] if m is not None]
        if not it["members"] and rng.random() < 0.7:
            it["members"] = [enc_id(g.nodes[0])]
        if "idx" in it and it["idx"] is None:
            it["idx"] = enc_id(g.eids[0])
    if fmt == 1 and not items[0]["members"]:
        items[0]["members"] = [enc_id(g.nodes[0])]
    if fmt == 5:
        seen, out = set(), []
        for it in items:
            if repr(it["idx"]) not in seen:
                seen.add(repr(it["idx"])); out.append(it)
        items = out
    return {"op": "add_edges_from", "fmt": fmt, "items": items, "attr": []}


BUILD_W = {"freeze": 0.4, "clear": 0.5, "add_edge": 16, "add_edges_from": 14, "add_nodes_from": 7}
EDIT_W = {"freeze": 0.3}


def gen_hg(rng):
    g = MH.Gen(rng, dict(BUILD_W), malformed=0.03)
    build = [_bulk_start(rng, g)] if rng.random() < 0.8 else []
    build += [g.op() for _ in range(rng.randint(0, 10))]
    build += _decor_ops(rng, g.nodes, g.eids, rng.randint(0, 4))
    if rng.random() < 0.3:      # some ops after the decoration (merges, relabelling, removals see nested values)
        build += [g.op() for _ in range(rng.randint(1, 4))]
    g.weights = dict(EDIT_W)
    return build, g


def gen_edits_hg(rng, g, route):
    edits = []
    for _ in range(rng.randint(2, 8)):
        r = rng.random()
        if r < 0.3:
            op = _poke_op(rng, g.nodes, g.eids, nested_ok=(route == "copy"))
        elif r < 0.4:
            op = _decor_ops(rng, g.nodes, g.eids, 1)[0]
        else:
            op = g.op()
        op["side"] = rng.choice(["a", "b"])
        edits.append(op)
    return edits


def _ms(rng, nodes, lo, hi):
    return [enc_id(rng.choice(nodes)) for _ in range(rng.randint(lo, hi))]


def _plain_attr(rng):
    if rng.random() < 0.5:
        return {}
    return {rng.choice(KEYS): (rng.choice([0, 1, "r", None]) if rng.random() < 0.5 else _nested(rng))}


def gen_op_dh(rng, nodes, eids):
    r = rng.random()
    eid = lambda: enc_id(rng.choice(eids))
    if r < 0.12:
        return {"op": "add_nodes_from", "items": [[enc_id(rng.choice(nodes)), (_plain_attr(rng) if rng.random() < 0.6 else None)]
                                                  for _ in range(rng.randint(1, 3))]}
    if r < 0.42:
        return {"op": "add_edge", "tail": _ms(rng, nodes, 0, 3), "head": _ms(rng, nodes, 0, 3),
                "idx": "$auto" if rng.random() < 0.5 else eid(), "attr": _plain_attr(rng)}
    if r < 0.6:
        fmt = rng.choice([1, 4])
        items = [{"tail": _ms(rng, nodes, 0 if fmt == 4 else 1, 3), "head": _ms(rng, nodes, 0, 2), "idx": eid(), "attr": _plain_attr(rng)}
                 for _ in range(rng.randint(1, 3))]
        return {"op": "add_edges_from", "fmt": fmt, "items": items}
    if r < 0.7:
        return {"op": "remove_edge", "e": eid()}
    if r < 0.8:
        return {"op": "remove_node", "n": enc_id(rng.choice(nodes)), "strong": rng.random() < 0.25}
    if r < 0.9:
        return {"op": "add_node_to_edge", "e": eid(), "n": enc_id(rng.choice(nodes)), "direction": rng.choice(["in", "out"])}
    if r < 0.98:
        return {"op": "remove_node_from_edge", "e": eid(), "n": enc_id(rng.choice(nodes)), "direction": rng.choice(["in", "out"])}
    return {"op": "clear"}


def gen_op_sc(rng, nodes, eids):
    r = rng.random()
    eid = lambda: enc_id(rng.choice(eids))
    if r < 0.12:
        return {"op": "add_nodes_from", "items": [[enc_id(rng.choice(nodes)), (_plain_attr(rng) if rng.random() < 0.6 else None)]
                                                  for _ in range(rng.randint(1, 3))]}
    if r < 0.45:
        return {"op": "add_simplex", "members": _ms(rng, nodes, 1, 4), "idx": "$auto" if rng.random() < 0.5 else eid(),
                "attr": _plain_attr(rng)}
    if r < 0.65:
        fmt = rng.choice([1, 4])
        return {"op": "add_simplices_from", "fmt": fmt,
                "items": [{"members": _ms(rng, nodes, 1, 4), "idx": eid(), "attr": _plain_attr(rng)} for _ in range(rng.randint(1, 3))]}
    if r < 0.8:
        return {"op": "remove_simplex_id", "e": eid()}
    if r < 0.95:
        return {"op": "remove_node", "n": enc_id(rng.choice(nodes))}
    return {"op": "clear"}


# tuple node labels and tuple edge IDs (the directed and the simplicial class are not replayed through a model here, so the
# alphabet is free; sources that the format sniffers of add_*_from garble are skipped as "violates another property's invariant")
TUPLE_NODES = [[(0, 0), (0, 1), (1, 1), (1, 0)], [(0,), (1, 2), "a", 3, ("a", 1)], [0, 1, (2, 3), (4, (5, 6))]]
TUPLE_EIDS = [[(1, 2), (0, 0), ("e", 0), 5, "x"], [(0,), (1,), (2,), (3,)], [1, 2, (1, 2), ((1, 2), 3)]]


def gen_other(rng, cls):
    nodes, eids = rng.choice(MH.NODE_UNIVERSES), rng.choice(MH.EDGE_UNIVERSES)
    if rng.random() < 0.2:
        nodes = rng.choice(TUPLE_NODES)
    if rng.random() < 0.25:
        eids = rng.choice(TUPLE_EIDS)
    if cls == "SimplicialComplex":
        eids = [e for e in eids if e != 0] or [1, 2]     # add_simplex(idx=0) is C04's finding F4, not exercised here
    gen = gen_op_dh if cls == "DiHypergraph" else gen_op_sc
    build = [gen(rng, nodes, eids) for _ in range(rng.randint(1, 9))] + _decor_ops(rng, nodes, eids, rng.randint(0, 4))
    if rng.random() < 0.12:                              # a frozen source: every clone must be unfrozen and editable
        build.append({"op": "freeze"})
    return build, (gen, nodes, eids)


def gen_edits_other(rng, gi, route):
    gen, nodes, eids = gi
    edits = []
    for _ in range(rng.randint(2, 7)):
        r = rng.random()
        if r < 0.3:
            op = _poke_op(rng, nodes, eids, nested_ok=(route == "copy"))
        elif r < 0.4:
            op = _decor_ops(rng, nodes, eids, 1)[0]
        else:
            op = gen(rng, nodes, eids)
        op["side"] = rng.choice(["a", "b"])
        edits.append(op)
    return edits


def gen_cases(rng, cls):
    """one generated network, cloned by each of the three routes (with its own edit list)"""
    if cls == "Hypergraph":
        build, g = gen_hg(rng)
        return [{"class": cls, "build": pycopy.deepcopy(build), "route": r, "edits": gen_edits_hg(rng, g, r)} for r in ROUTES]
    build, gi = gen_other(rng, cls)
    return [{"class": cls, "build": pycopy.deepcopy(build), "route": r, "edits": gen_edits_other(rng, gi, r)} for r in ROUTES]


# ----------------------------------------------------------------------------- the predicate on the implementation

def fresh_members(rnd):
    return [f"zz-new-{rnd}-1", f"zz-new-{rnd}-2"]


def _auto_add(cls, X, rnd):
    ms = fresh_members(rnd)
    with warnings.catch_warnings():
        warnings.simplefilter("ignore")
        if cls == "DiHypergraph":
            X.add_edge(([ms[0]], [ms[1]]))
        elif cls == "SimplicialComplex":
            X.add_simplex(ms)
        else:
            X.add_edge(ms)


def check_fresh(cls, X, label, rnd):
    """(d): one automatic-id addition keeps every existing edge and creates exactly one edge under a new id"""
    if X.is_frozen:
        return None
    before = snapshot(X, cls)
    try:
        _auto_add(cls, X, rnd)
    except Exception as ex:  # noqa
        return f"{label}: adding an edge with an automatic id raised {type(ex).__name__}: {ex}"
    after = snapshot(X, cls)
    bm, ba = {repr(k): v for k, v in before["mem"]}, {repr(k): v for k, v in before["eattr"]}
    am, aa = {repr(k): v for k, v in after["mem"]}, {repr(k): v for k, v in after["eattr"]}
    for e in before["edges"]:
        k = repr(e)
        if k not in am:
            return f"{label}: existing edge {e!r} disappeared on an automatic-id addition"
        if am[k] != bm[k] or aa.get(k) != ba.get(k):
            return f"{label}: existing edge {e!r} overwritten by an automatic-id addition: {bm[k]} -> {am[k]}"
    new = [e for e in after["edges"] if e not in before["edges"]]
    if len(new) != 1 or len(after["edges"]) != len(before["edges"]) + 1:
        return f"{label}: automatic-id addition created {len(new)} new edge ids (next id {before['uid']!r}, existing ids {before['edges']})"
    return None


class Skip(Exception):
    pass


def evaluate(case, want_model=False, stats=None):
    """`_evaluate`; when the clone is already known to be wrong (some clause failed) and a later phase trips over
    the broken object, the failures found so far are the result"""
    acc = {"fails": [], "reqs": [{"op": "reset"}], "exps": [None], "info": {}}
    try:
        return _evaluate(case, want_model, stats, acc)
    except Skip:
        raise
    except Exception:  # noqa
        if acc["fails"]:
            return acc["fails"], acc["reqs"][:1], acc["exps"][:1], acc["info"]
        raise


def _evaluate(case, want_model, stats, acc):
    """run one case on the implementation.  Returns (fails, reqs, exps, info): fails = [(site, class, detail)],
    reqs/exps = the request lines for Drivers/C07.lean with the implementation's observation for each (None = not compared)"""
    case = pycopy.deepcopy(case)
    cls, route = case["class"], case["route"]
    site = site_of(cls, route)
    factory = CLASSES[cls][0]
    fails, reqs, exps = acc["fails"], acc["reqs"], acc["exps"]
    model = want_model and cls == "Hypergraph"
    H = factory()
    for op in case["build"]:
        out = apply(cls, H, op)
        if stats is not None:
            stats["build:" + op["op"]] += 1
        if model:
            reqs.append(to_request(op, H, "a")); exps.append(snapshot(H, cls, out))
    src0 = snapshot(H, cls)
    acc["info"]["src"] = src0
    if not consistent(src0, cls) or (cls == "SimplicialComplex" and not sc_closed(H)):
        raise Skip("source violates another property's invariant (incidence / closure)")
    stale = counter_stale(src0)
    # ---- clone
    with warnings.catch_warnings(record=True) as w:
        warnings.simplefilter("always")
        try:
            C = ROUTES[route](H)
        except Exception as ex:  # noqa
            fails.append((site, "clone-raises", f"{type(ex).__name__}: {ex}"))
            return fails, reqs, exps, {"src": src0}
    if any(issubclass(x.category, UserWarning) for x in w):
        fails.append((site, "clone-warns", "; ".join(str(x.message) for x in w)[:200]))
    src1 = snapshot(H, cls)
    if body(src1) != body(src0):
        fails.append((site, "source-changed-by-clone", str([k for k in src0 if src0[k] != src1[k]])))
    if type(C) is not type(H):
        fails.append((site, "clone-class", f"{type(C).__name__} from {type(H).__name__}"))
    cl0 = snapshot(C, cls)
    for f in EQ_FIELDS:                                                           # (a)
        if cl0[f] != src0[f]:
            fails.append((site, "clone-differs-" + f, f"source {json.dumps(src0[f])[:150]} clone {json.dumps(cl0[f])[:150]}"))
    if cl0["frozen"]:
        fails.append((site, "clone-frozen", "the clone is frozen"))
    if model:
        r = {"op": "clone", "route": route}
        reqs.append(r); exps.append(dict(cl0, out="ok"))
    # ---- (b) no shared mutable container
    full = route == "copy"
    la, lb = (frozenset(), frozenset()) if full else (attr_dicts(H), attr_dicts(C))
    cellsA, cellsB = walk(H, la), walk(C, lb)
    shared = set(cellsA) & set(cellsB)
    if shared:
        fails.append((site, "shares-mutable-container", describe_shared(shared, cellsA)))
    if want_model:
        reqs.append(heap_request(H, C, cellsA, cellsB)); exps.append({"sep": not shared})
    info = acc["info"]
    info.update(cells=len(cellsA) + len(cellsB), stale=stale)
    if not full and stats is not None:                 # informational: what the statement does not ask for
        deep = set(walk(H)) & set(walk(C))
        stats[f"nested_sharing_beyond_statement:{route}"] += bool(deep)
    del cellsA, cellsB
    # ---- (d) both sides keep assigning fresh ids (right after the clone, and again after the edits)
    sides = {"a": H, "b": C}
    fresh_at_clone = {"a": not counter_stale(src1), "b": not counter_stale(cl0)}

    def fresh_phase(rounds):
        for rnd in rounds:
            sd = "ab"[rnd % 2]
            label = "source" if sd == "a" else "clone"
            X, Y = sides[sd], sides["b" if sd == "a" else "a"]
            other, mine = snapshot(Y, cls), snapshot(X, cls)
            msg = check_fresh(cls, X, label, rnd)
            if msg:
                if stale:
                    slug = "fresh-ids-source-stale"            # the source's own counter was already behind (C04-type defect)
                elif counter_stale(mine) and fresh_at_clone[sd]:
                    slug = "fresh-ids-stale-after-edits"       # a later mutator left the counter behind (C04-type defect)
                else:
                    slug = "fresh-ids"
                fails.append((site, slug, msg))
                return
            if body(snapshot(Y, cls)) != body(other):
                fails.append((site, "edit-visible-in-other-network", f"automatic-id addition on the {label} changed the other side"))
                return
            if model and not X.is_frozen:
                reqs.append({"op": "add_edge", "members": [enc_id(m) for m in set(fresh_members(rnd))], "idx": "$auto", "attr": [], "side": sd})
                exps.append(snapshot(X, cls, "ok"))
    fresh_phase((0, 1))
    # ---- (c) behavioural independence
    for ed in case["edits"]:
        side = ed.pop("side")
        X, Y = sides[side], sides["b" if side == "a" else "a"]
        before = snapshot(Y, cls)
        mine = snapshot(X, cls) if model and ed["op"] == "poke" else None
        out = apply(cls, X, ed)
        after = snapshot(Y, cls)
        if stats is not None:
            stats["edit:" + ed["op"]] += 1
            if ed["op"] == "poke":
                stats["poke_done" if ed.get("done") is not None else "poke_noop"] += 1
        if body(before) != body(after):
            diff = [k for k in before if before[k] != after[k]]
            what = ed["op"] + (":" + ed.get("act", "") if ed["op"] == "poke" else "")
            fails.append((site, "edit-visible-in-other-network",
                          f"{what} on the {'source' if side == 'a' else 'clone'} changed {diff} of the other side"))
        if model and ed["op"] == "poke":
            now = snapshot(X, cls, "ok")
            prs = poke_requests(X, mine, now, side)
            reqs += prs
            exps += [None] * (len(prs) - 1) + [now]
        elif model:
            reqs.append(to_request(ed, X, side)); exps.append(snapshot(X, cls, out))
    if model:
        for sd in ("a", "b"):
            reqs.append({"op": "snapshot", "side": sd}); exps.append(snapshot(sides[sd], cls, "ok"))
    fresh_phase((2, 3))
    return fails, reqs, exps, info


def shrink_case(case, slug):
    from ..sm import shrink

    def bad(c):
        try:
            return any(f[1] == slug for f in evaluate(c)[0])
        except Exception:  # noqa
            return False
    c = pycopy.deepcopy(case)
    for key in ("edits", "build"):
        if c[key] and bad(dict(c, **{key: []})):
            c[key] = []
        elif len(c[key]) > 1:
            c[key] = shrink(c[key], lambda ops, key=key: bad(dict(c, **{key: ops})), budget=150)
    return c


# ----------------------------------------------------------------------------- runner

def load_corpus():
    cases = []
    for f in sorted(glob.glob(os.path.join(VERIF, "corpus", "C07", "*.json"))):
        try:
            j = json.load(open(f))
            c = j.get("case", j)
            if isinstance(c, dict) and "class" in c and "route" in c and "family" not in c:
                cases.append(c)
        except Exception:  # noqa
            pass
    return cases


def load_family_corpus():
    cases = []
    for f in sorted(glob.glob(os.path.join(VERIF, "corpus", "C07", "*.json"))):
        try:
            j = json.load(open(f))
            c = j.get("case", j)
            if isinstance(c, dict) and "family" in c and "class" in c and "route" in c:
                cases.append(c)
        except Exception:  # noqa
            pass
    return cases


def exhaustive_cases():
    """every hypergraph on 4 nodes with <= 3 distinct edges (ids 0.., one isolated-node variant each) x 3 routes"""
    for nodes, edges in all_small_hypergraphs(4, 3):
        build = [{"op": "add_nodes_from", "items": [{"n": n} for n in nodes], "attr": []}]
        build += [{"op": "add_edge", "members_raw": list(ms), "idx": e, "attr": []} for e, ms in edges]
        for r in ROUTES:
            yield {"class": "Hypergraph", "build": pycopy.deepcopy(build), "route": r,
                   "edits": [{"op": "remove_edge", "e": 0, "side": "a"}, {"op": "add_node_to_edge", "e": 1, "n": 0, "side": "b"}]}


def run_cases(ctx, cases, model_ok, tag="gen"):
    """evaluate the predicate on every case; replay Hypergraph cases through the model.  Returns #disagreements"""
    all_reqs, index = [], []
    for ci, case in enumerate(cases):
        try:
            fails, reqs, exps, info = evaluate(case, want_model=model_ok, stats=ctx.stats)
        except Skip:
            ctx.stats["skipped_source_breaks_other_property:" + case["class"]] += 1
            continue
        ctx.evaluations += 1
        ctx.stats[f"case:{case['class']}:{case['route']}"] += 1
        src = info["src"]
        flat = (lambda v: v[0] + v[1]) if case["class"] == "DiHypergraph" else (lambda v: v)
        if any(isinstance(m[1], list) and len(flat(m[1])) >= 2 for m in src["mem"]):
            ctx.nontrivial.add(jhash([case["class"], case["route"], body(src)]))
        ctx.stats["source_has_nested_attr"] += any("$o" in json.dumps(src[k]) for k in ("nattr", "eattr", "net"))
        ctx.stats["source_has_empty_edge"] += any(isinstance(m[1], list) and not flat(m[1]) for m in src["mem"])
        ctx.stats["source_has_isolated_node"] += any(isinstance(m[1], list) and not flat(m[1]) for m in src["memb"])
        ctx.stats["source_has_edge_id_0"] += 0 in src["edges"]
        ctx.stats["source_counter_stale"] += bool(info.get("stale"))
        seen = set()
        for site, slug, detail in fails:
            if (site, slug) in seen:
                continue
            seen.add((site, slug))
            small = shrink_case(case, slug)
            ctx.violation(site, slug, small, detail=detail)
        if tag == "gen":
            ctx.sample({"class": case["class"], "route": case["route"], "build": case["build"][:3], "edits": case["edits"][:2],
                        "source": {k: src[k] for k in ("nodes", "edges", "mem")}}, cap=3)
        if model_ok and len(reqs) > 1:
            for r, e in zip(reqs, exps):
                all_reqs.append(r); index.append((ci, e))
    if not model_ok or not all_reqs:
        return 0
    resps = run_driver("C07", all_reqs)
    dis, dead = [], set()
    for r, (ci, e), q in zip(resps, index, all_reqs):
        if e is None or ci in dead:
            continue
        if r.get("out") == "bad-op":
            raise Infra(f"model rejected request as bad-op (harness defect): {json.dumps(q)[:400]}")
        if r.get("out") == "unmodelled":
            ctx.stats["unmodelled_tail"] += 1
            dead.add(ci)
            continue
        ctx.traces += 1
        if "sep" in e:
            if r.get("sep") != e["sep"]:
                dead.add(ci); dis.append((ci, q, ["sep"], r, e))
            continue
        m = canon(r)
        diff = [k for k in ALL_FIELDS if m.get(k) != e.get(k)]
        if diff:
            dead.add(ci)
            dis.append((ci, q, diff, {k: m.get(k) for k in diff}, {k: e.get(k) for k in diff}))
    for ci, q, diff, m, e in dis[:5]:
        ctx.extra.setdefault("disagreements", []).append({"case": cases[ci], "request": q, "fields": diff, "model": m, "impl": e})
    if dis:
        ctx.extra["disagreements_total"] = ctx.extra.get("disagreements_total", 0) + len(dis)
        ops = sorted({q.get("op") + (":" + q["route"] if "route" in q else "") for _, q, *_ in dis})
        ctx.broken.append(f"correspondence C07 driver~Hypergraph ({tag}): model and implementation differ after {ops}")
    return len(dis)


# ----------------------------------------------------------------------------- families outside the JSON op alphabet

WALKERS = (walk, attr_dicts, describe_shared)


def run_family_cases(ctx, cases, tag="family"):
    """harness/c07_families.py: regime (large), labels (tuple / unreadable-by-float / > 2**53 IDs), values (containers of
    every kind as attribute values), classes (trivial subclasses, frozen sources), twice (the same source cloned repeatedly
    with edits in between)"""
    for case in cases:
        fam = case.get("family", "?")
        try:
            fails, info = FAM.evaluate(case, WALKERS)
        except FAM.Skip:
            ctx.stats[f"family:{fam}:skipped_source_breaks_other_property"] += 1
            continue
        ctx.evaluations += 1
        ctx.stats[f"family:{fam}:{case['class']}"] += 1
        ctx.stats[f"family-route:{case['route']}:{case.get('script', 'basic')}"] += 1
        if case.get("sub"):
            ctx.stats["family:source_is_a_trivial_subclass"] += 1
        if case.get("frozen"):
            ctx.stats["family:source_frozen:" + case["class"]] += 1
        ctx.stats["family:max_nodes"] = max(ctx.stats["family:max_nodes"], info["nodes"])
        ctx.stats["family:max_parallel_edges"] = max(ctx.stats["family:max_parallel_edges"], info["parallel"])
        ctx.stats["family:nested_values_poked"] += info.get("poked", 0)
        if info["edges"]:
            ctx.nontrivial.add(jhash([fam, case["class"], case["route"], case.get("script"), case["npool"], case["epool"], case["n"],
                                      case["edges"], case.get("nattr"), case.get("frozen"), case.get("sub")]))
        seen = set()
        for site, slug, detail in fails:
            if (site, slug) in seen:
                continue
            seen.add((site, slug))
            ctx.violation(site, slug, FAM.shrink(case, slug, WALKERS), detail=detail)
        if tag == "family" and fam in ("regime", "twice"):
            ctx.sample({"family": fam, "class": case["class"], "route": case["route"], "script": case.get("script"), "npool": case["npool"],
                        "epool": case["epool"], "nodes": info["nodes"], "edges": info["edges"], "parallel_edges": info["parallel"]}, cap=6)


# ----------------------------------------------------------------------------- directed class: model of C02 + C02/Copy.lean

WEIGHTS_D = {"copy": 8, "pickle": 8, "construct": 8, "freeze": 3, "add_edge": 20, "remove_edge": 8, "set_net_attr": 3}
SAME_D = ["nodes", "edges", "tail", "head", "membIn", "membOut", "nattr", "eattr"]


def pred_dclone(snap, op, prev, exc):
    """clause (a) and the counter part of (d) read off the implementation along directed histories (the history
    continues on the clone): the clone shows the network the source showed, is not frozen, and its counter is
    above every integer edge ID"""
    name = op["op"]
    if name not in ("copy", "pickle", "construct"):
        return []
    site = {"copy": "DiHypergraph.copy", "pickle": "pickle(DiHypergraph)", "construct": "DiHypergraph(network)"}[name]
    fails = []
    if snap["out"] != "ok":
        return [("clone-raises" if snap["out"].startswith("err") else "clone-warns", f"{site}: outcome {snap['out']} ({exc!r})")]
    for f in SAME_D:
        if snap[f] != prev[f]:
            fails.append(("clone-differs-" + f, f"{site}: source {json.dumps(prev[f])[:150]} clone {json.dumps(snap[f])[:150]}"))
    want = dict(prev["net"])
    want.update(dict((k, v) for k, v in _ctor_attrs(op)) if name == "construct" else {})
    if dict(snap["net"]) != want:
        fails.append(("clone-differs-net", f"{site}: network attributes {snap['net']} expected {sorted(want.items())}"))
    if snap["frozen"]:
        fails.append(("clone-frozen", f"{site}: the clone is frozen"))
    if isinstance(snap["uid"], int) and isinstance(prev["uid"], int) and \
            not any(isinstance(e, int) and e >= prev["uid"] for e in prev["edges"]) and \
            any(isinstance(e, int) and not isinstance(e, bool) and e >= snap["uid"] for e in snap["edges"]):
        fails.append(("fresh-ids", f"{site}: next automatic id of the clone {snap['uid']} is not above its integer ids {snap['edges']}"))
    return fails


def _ctor_attrs(op):
    """the keyword attributes of a `construct` request as the snapshot encodes them"""
    from ..core import enc_attrs
    from ..dhg import _attrs
    return enc_attrs(_attrs(op.get("attr", [])))


def run_directed_model(ctx, ok):
    """step-by-step correspondence of the directed model (driver DHG: `DHG.step`, `DHG.clone`) with xgi.DiHypergraph on
    histories rich in copy() / pickle round trips / DiHypergraph(DH, **attr): full snapshot incl. counter and frozen flag"""
    from .. import dhg as MD
    from ..sm import run_sm
    from .c02 import FULL, derive
    total = ctx.extra.get("disagreements_total", 0)
    site = {"copy": "DiHypergraph.copy", "pickle": "pickle(DiHypergraph)", "construct": "DiHypergraph(network)"}

    class Sited:   # run_sm names the site after the op; C07 names it after the clone route
        def violation(self, s, *a, **k):
            return ctx.violation(site.get(s, s), *a, **k)

        def __getattr__(self, k):
            return getattr(ctx, k)

        def __setattr__(self, k, v):
            setattr(ctx, k, v)
    dis, _ = run_sm(Sited(), MD, "DHG", FULL, pred_dclone, ctx.n(120, 3000), weights=WEIGHTS_D, derive=derive, model_ok=ok,
                    corr_name="correspondence DHG~DiHypergraph (clone routes, full snapshot)")
    ctx.stats["histories_directed_model"] = ctx.stats.pop("histories", 0)
    ctx.stats.pop("corpus_histories", None)
    ctx.extra["disagreements_total"] = total + len(dis)
    return len(dis)


def run(ctx):
    # Props/C07D.lean: the three clone routes on the directed model (C02/DHG.lean + C02/Copy.lean), audited with this property
    # Props/C07S.lean: the three clone routes on the simplicial model (C03/SC.lean + C03/Copy.lean), audited with this property
    ok = build_and_audit(ctx, "XgiModel.Props.C07", ["XgiModel.C07.Drive", "XgiModel.Props.C07D", "XgiModel.C02.Drive",
                                                      "XgiModel.Props.C07S"],
                         audit_extra=("XgiModel.Props.C07D", "XgiModel.Props.C07S"))
    ctx.rule = ("networks of the three classes built by random histories of public calls (any labels, explicit ids incl. 0, empty edges, "
                "isolated nodes, removals, merges) and decorated with nested mutable attribute values (lists/dicts/sets inside dicts) at node, "
                "edge and network level; each network cloned by copy(), pickle round trip and Class(network); then 2-8 edits on either side "
                "(public mutators, in-place writes to attribute dicts, nested in-place edits through copy()) and automatic-id additions on "
                "both sides; non-trivial = distinct (class, route, source snapshot) with an edge of >= 2 members.  Plus the families of "
                "harness/c07_families.py per run and class: the same source cloned repeatedly with edits in between (state across calls, compared with a fresh "
                "computation), one network with 70-90 nodes / >= 130 parallel edges / labels above 2**53, attribute values of every container kind, trivial "
                "subclasses and frozen sources, and every exotic label / edge-ID pool")
    rng = ctx.rng
    cases = load_corpus()
    ctx.stats["corpus_cases"] = len(cases)
    for _ in range(ctx.n(250, 5000)):
        cases += gen_cases(rng, "Hypergraph")
    for _ in range(ctx.n(100, 2000)):
        cases += gen_cases(rng, "DiHypergraph")
    for _ in range(ctx.n(100, 2000)):
        cases += gen_cases(rng, "SimplicialComplex")
    ndis = run_cases(ctx, cases, model_ok=True)
    fam = load_family_corpus()
    ctx.stats["corpus_cases"] += len(fam)
    for _ in range(ctx.n(3, 1)):
        fam += FAM.gen_cases(rng, quick=ctx.quick)
    run_family_cases(ctx, fam)
    ndis += run_directed_model(ctx, ok)
    if not ctx.quick:
        ex = list(exhaustive_cases())
        ndis += run_cases(ctx, ex, model_ok=True, tag="exhaustive")
        ctx.exhaustive = True
        ctx.extra["exhaustive_space"] = (f"correspondence of the three clone routes (+1 edit per side, automatic-id additions) on every hypergraph "
                                         f"with 4 nodes and <= 3 distinct edges: {len(ex)} cases")

    def search():
        more = []
        for _ in range(ctx.n(300, 4000)):
            more += gen_cases(rng, rng.choice(list(CLASSES)))
        run_cases(ctx, more, model_ok=False, tag="search")
        run_family_cases(ctx, [c for _ in range(ctx.n(3, 10)) for c in FAM.gen_cases(rng, quick=True)], tag="search")
    conclude(ctx, ok, ndis, search=search)
    ctx.assumptions = [
        "op-alphabet cases: IDs int/str (Hypergraph, replayed through the model) and int/str/tuple (DiHypergraph, SimplicialComplex); attribute "
        "values scalars and lists/dicts/sets/tuples nested in each other.  Family cases (harness/c07_families.py, judged by the predicate only): "
        "labels and edge IDs from the pools tuple, nested tuple, frozenset, bytes, date, enum, complex, float, numpy int, integers above 2**53 and "
        "beyond float range; attribute values incl. numpy arrays, deque, bytearray, defaultdict, instances; bool and None IDs are not drawn",
        "sources that already violate another property's invariant (two-way incidence, simplicial closure) are skipped and counted, not charged to C07",
        "frame (Lean) speaks about code that writes only through its own network and fresh objects; that xgi's mutators do so (no module-level "
        "mutable state) is an assumption, exercised by (c) on every case",
        "deepcopy / pickle are modelled as producing a fresh isomorphic structure; their freshness is what (b) observes with id()",
        "nested independence is required (and checked) only through copy(); for pickle / constructor the walk stops at the attribute dicts",
    ]
    return finish(ctx, trusted_base=TRUSTED_COMMON + [
        "the id()-based object-graph walk (which Python types count as mutable cells), the one private read `_edge_uid`, `_net_attr`"])


def replay(ctx, path):
    j = json.load(open(path))
    case = j.get("case", j)
    if not (isinstance(case, dict) and "class" in case):
        print(f"replay {path}: no case in this replay (kind={j.get('kind')}); broken: {j.get('broken')}")
        return 2
    if "family" in case:
        try:
            fails, _ = FAM.evaluate(case, WALKERS)
        except FAM.Skip as s:
            print(f"replay {path}: skipped: {s}")
            return 0
        if fails:
            print(f"VIOLATION property={ctx.prop} replay={path}")
            for site, slug, detail in fails[:3]:
                print(f"  reproduced: site={site} class={slug}: {detail[:300]}")
            return 1
        print(f"replay {path}: not reproduced on the current tree (predicate holds)")
        return 0
    try:
        fails, reqs, exps, _ = evaluate(case, want_model=True)
    except Skip as s:
        print(f"replay {path}: skipped: {s}")
        return 0
    if fails:
        print(f"VIOLATION property={ctx.prop} replay={path}")
        for site, slug, detail in fails[:3]:
            print(f"  reproduced: site={site} class={slug}: {detail[:300]}")
        return 1
    if case["class"] == "Hypergraph":
        resps = run_driver("C07", reqs)
        for r, e, q in zip(resps, exps, reqs):
            if e is None or r.get("out") in ("unmodelled",):
                continue
            if "sep" in e:
                bad = r.get("sep") != e["sep"]
            else:
                m = canon(r)
                bad = any(m.get(k) != e.get(k) for k in ALL_FIELDS)
            if bad:
                print(f"VIOLATION property={ctx.prop} replay={path}")
                print(f"  reproduced: model and implementation differ after {json.dumps(q)[:200]}")
                return 1
    print(f"replay {path}: not reproduced on the current tree (predicate holds, model and implementation agree)")
    return 0
