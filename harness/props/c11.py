"""C11 — what is written to disk reads back as the same network.

Every case really writes into a per-run temporary directory (tempfile.mkdtemp, outside /repo and /verif, removed
at the end) with the public writer and reads back with the public reader:

  hif         write_hif / read_hif                  Hypergraph, DiHypergraph, SimplicialComplex
  json        write_json / read_json                Hypergraph (+ SimplicialComplex: all but the class), nodetype/edgetype in {None,int,str}
  edgelist    write_edgelist / read_edgelist        delimiters " " "," ";" "|" "\\t" (+ delimiter=None), nodetype
  bipartite   write_bipartite_edgelist / read_…     + edgetype, dual
  incidence   write_incidence_matrix / read_…       incl. 1×m, n×1, 1×1
  hifcoll / jsoncoll   write_hif_collection / read_hif_collection, write_json of a list / dict / read_json
  held        any of the first five on ONE network object: write, edit, write again (same path and another path), compare
              with a fresh equal network

Input axes beyond the network itself: trivial subclasses, integer labels held as numpy integers, labels above 2**53, float
labels (HIF), output of library generators, path as str / pathlib.Path / os.PathLike, one large network per format and run.

*Predicate on the implementation* (the statement of C11): the network read back equals the source in everything
the statement lists for that format.  *Correspondence*: the text the implementation wrote equals what the Lean
model (lean/XgiModel/C11/IO.lean, driver Drivers/C11.lean) generates for the same network, and the model's reader
applied to that text gives the network the implementation's reader returns (or the same error kind); for
JSON the ID handling (string keys, casts, collisions) is compared, for HIF the ID values.  The correspondence
compares JSON documents as parsed objects (key order and the order of nodes / edges in the network read back are not
part of the statement).  It also runs on inputs *outside* the statement's domain (labels containing the delimiter or '#', padded labels,
empty edges, mismatched casts, hand-made files with comments / blank lines / short lines), where model and
implementation must still agree.
"""
import glob
import json
import os
import pathlib
import shutil
import tempfile
import warnings

import numpy as np
import xgi
from xgi.exception import XGIError

from .. import c10_lib as L10
from ..core import TRUSTED_COMMON, VERIF, Infra, build_and_audit, canon, finish, idkey, jhash, run_driver
from ..fn import all_small_hypergraphs, conclude
from . import c10 as C10

from collections import Counter

_SHRUNK = set()
STAT = Counter()   # how often the property's predicate was actually evaluated, per format (filled by the evaluators)
DELIMS = [" ", ",", ";", "|", "\t"]
# "any delimiter that cannot occur in a label": delimiters of more than one character (outside the Lean model, which is
# per character: the predicate alone decides these)
MULTI_DELIMS = [", ", "::", "||", "\t ", " ; ", "-->", "§§"]
# single characters that stress the readers' other arguments: the default comment token itself (readable only with another
# comment token or none: a reader that ignores `comments` cuts every line at the first delimiter) and a non-ASCII character
# (written and read through `encoding`: a writer or reader that ignores it produces / expects other bytes)
EXTRA_DELIMS = ["#", "§"]
COMMENT_TOKENS = ["#", "#", "%", "//", None]
# only ASCII-compatible encodings without a byte-order mark: the writers encode and the readers decode line by line
ENCODINGS = ["utf-8", "latin-1", "cp1252", "ascii"]
TY = {None: None, "int": int, "str": str}
CLASSES = {"Hypergraph": xgi.Hypergraph, "DiHypergraph": xgi.DiHypergraph, "SimplicialComplex": xgi.SimplicialComplex}


# trivial subclasses ("for all networks of each supported class" includes instances of user subclasses): a network of
# class MyD is a directed hypergraph and must be written and read back as one (of the base class kind)
class MyH(xgi.Hypergraph):
    pass


class MyD(xgi.DiHypergraph):
    pass


class MyS(xgi.SimplicialComplex):
    pass


SUBCLASSES = {"Hypergraph": MyH, "DiHypergraph": MyD, "SimplicialComplex": MyS}
NP_INT = {"int64": np.int64, "int32": np.int32}
# labels above 2**53 (not exactly representable as a float: a cast through float() changes them) and their neighbours
BIG_INTS = [2 ** 60 + 1, 2 ** 64 + 3, -(2 ** 55) - 1, 2 ** 53 + 1, 10 ** 20 + 7, 2 ** 60 + 2, -(2 ** 64) - 5, 2 ** 53 + 3]
# floats that need all 17 significant digits / have tiny or huge exponents (rounding to a few decimals, float32 or a
# "%g"-style rendering changes them)
FINE_FLOATS = [0.1 + 0.2, 0.1234567891, 2e-7, 2.0 ** -30, 1e300, -0.0, 1 / 3, 123456789.12345679, 5e-324, 1.7976931348623157e308]
FLOAT_LABELS = [0.1 + 0.2, 0.1234567891, 2e-7, 2.0 ** -30, 1e300, 2.5, 1 / 3, -1.75]


class PathLike:
    """an os.PathLike that is neither str nor pathlib.Path"""

    def __init__(self, p):
        self._p = str(p)

    def __fspath__(self):
        return self._p


def as_path(case, p, collection=False):
    """the path argument in the type the case asks for: str (default) | pathlib.Path | another os.PathLike (single files only:
    the collection writers build the member paths with an f-string, which is documented for strings and works for pathlib)"""
    k = case.get("path")
    if k == "pathlib":
        return pathlib.Path(p)
    if k == "pathlike" and not collection:
        return PathLike(p)
    return p


def py(x):
    """the label as a plain Python object: a numpy scalar equal to it is the same label (same hash, same dict key)"""
    return x.item() if isinstance(x, np.generic) else x


def kind_of(H):
    """the class kind of a network (an instance of a subclass is a network of its base kind)"""
    if isinstance(H, xgi.DiHypergraph):
        return "DiHypergraph"
    if isinstance(H, xgi.SimplicialComplex):
        return "SimplicialComplex"
    return "Hypergraph"

# ----------------------------------------------------------------------------- generators


def gen_value(rng, depth=0):
    """a JSON-representable attribute value (no NaN/inf, no tuples, dict keys are str)"""
    r = rng.random()
    if depth < 2 and r < 0.12:
        return [gen_value(rng, depth + 1) for _ in range(rng.randint(0, 3))]
    if depth < 2 and r < 0.22:
        return {rng.choice(["k", "a b", "", "é", "0"]) + str(i): gen_value(rng, depth + 1) for i in range(rng.randint(0, 2))}
    if r < 0.42:
        return rng.choice(FINE_FLOATS + BIG_INTS[:4])
    return rng.choice([None, True, False, 0, 1, -7, 2 ** 40, 0.5, -1.25, 1e-3, 3.0, "", "x", "red", "a b", 'q"uo\\te', "li\nne", "é日本", "1"])


ATTR_NAMES = ["weight", "color", "a", "name", "x y", "é", "w2", "0"]
# keys spelled like parameters of add_node / add_edge / the constructors (a reader forwarding a dict as **attr breaks)
PARAM_NAMES = ["node", "idx", "members", "attr", "edge", "n", "incoming_data", "self"]


def gen_attrs(rng, p=0.5):
    if rng.random() > p:
        return {}
    pool = ATTR_NAMES + PARAM_NAMES if rng.random() < 0.5 else ATTR_NAMES
    return {k: gen_value(rng) for k in rng.sample(pool, rng.randint(1, 3))}


INT_LABELS = [lambda k: list(range(k)), lambda k: list(range(1, k + 1)), lambda k: [-i for i in range(k)],
              lambda k: [100 + 7 * i for i in range(k)][::-1], lambda k: [10 ** i for i in range(k)],
              lambda k: BIG_INTS[:k], lambda k: ([5] + BIG_INTS)[:k]]
STR_LABELS = [lambda k: ["é", "ß", "ü", "ñ", "å", "ø", "ç", "æ"][:k], lambda k: list("abcdefgh"[:k]), lambda k: ["n%d" % i for i in range(k)], lambda k: [str(10 + i) for i in range(k)],
              lambda k: ["é", "日本", "ß", "Ω", "ж", "x", "y", "z"][:k], lambda k: ["a b", "c d", "e", "f g h", "i", "j", "k", "l"][:k]]
ODD_STR = ["x,y", "p|q", "s;t", "u\tv", "h#1", " pad", "pad ", "", "a b", "-", "1_0", "+5", "٣", "1.5", "e1"]


def gen_labels(rng, k, kind):
    """kind: 'int' | 'str' | 'odd' (strings that stress the text formats) | 'mixed' | 'float' (HIF only)"""
    if kind == "int":
        lab = rng.choice(INT_LABELS)(k)
    elif kind == "float":
        lab = rng.sample(FLOAT_LABELS, min(k, len(FLOAT_LABELS)))
    elif kind == "str":
        lab = rng.choice(STR_LABELS)(k)
    elif kind == "odd":
        base = rng.choice(STR_LABELS)(k)
        lab = [rng.choice(ODD_STR) if rng.random() < 0.35 else b for b in base]
        lab = list(dict.fromkeys(lab))
    else:
        lab = ([0, "a", 1, "b", 2, "c", 3, "d"])[:k]
    if rng.random() < 0.5:
        rng.shuffle(lab)
    return lab


def gen_net(rng, cls="Hypergraph", node_kind=None, edge_kind=None, attrs=True, empty_edges=True, isolated=True,
            max_nodes=6, max_edges=5):
    """a network description (JSON-able): nodes [[id, attrs]], edges [[id, members | [tail, head], attrs]], net attrs"""
    k = rng.randint(1, max_nodes)
    node_kind = node_kind or rng.choice(["int", "int", "str", "mixed"])
    edge_kind = edge_kind or rng.choice(["int", "int", "str", "mixed"])
    lab = gen_labels(rng, k, node_kind)
    k = len(lab)
    m = rng.randint(0, max_edges)
    if cls == "SimplicialComplex":
        eids = ["s%d" % i for i in range(m)]          # explicit simplex IDs never collide with automatic face IDs
    else:
        eids = gen_labels(rng, m, edge_kind)
    edges = []
    for e in eids:
        def pick(lo):
            sz = rng.randint(lo, min(k, 4))
            return rng.sample(lab, sz)
        ea = gen_attrs(rng, 0.4) if attrs else {}
        if cls == "DiHypergraph":
            t, h = pick(0), pick(0)
            if not empty_edges and not t and not h:
                t = pick(1)
            edges.append([e, [t, h], ea])
        else:
            lo = 1 if (cls == "SimplicialComplex" or not empty_edges or rng.random() > 0.12) else 0
            ms = pick(lo)
            if edges and rng.random() < 0.1 and cls == "Hypergraph":
                ms = list(edges[-1][1])           # multi-edge
            edges.append([e, ms, ea])
    used = set()
    for _, ms, _ in edges:
        for x in (ms[0] + ms[1] if cls == "DiHypergraph" else ms):
            used.add(repr(x))
    nodes = [[n, gen_attrs(rng, 0.4) if attrs else {}] for n in lab if isolated or repr(n) in used]
    return {"cls": cls, "nodes": nodes, "edges": edges, "net": gen_attrs(rng, 0.6) if attrs else {}}


def build_net(net):
    """the real network, through the public API only.  Attribute dicts are never passed as **kwargs (a key may be
    spelled like a parameter): nodes and edges are created bare, then set_node_attributes / set_edge_attributes.
    Flags of the description: "sub" (an instance of a trivial subclass), "np" = {"where": "members" | "all", "dtype":
    "int64" | "int32"} (integer labels handed over as numpy integers: in the member lists only - what
    watts_strogatz_hypergraph produces - or everywhere), "source" = [generator name, args, kwargs] (the network is the
    output of that library generator; nodes / edges of the description are then only bookkeeping)."""
    import copy
    cls = net["cls"]
    if net.get("source"):
        name, args, kwargs = net["source"]
        try:
            return quiet(getattr(xgi, name), *args, **kwargs)
        except Exception as ex:  # noqa
            raise Infra(f"generator defect: xgi.{name}{tuple(args)} {kwargs}: {type(ex).__name__}: {ex}")
    npf = net.get("np") or {}
    nt = NP_INT.get(npf.get("dtype"))
    conv_m = (lambda x: nt(x) if isinstance(x, int) and not isinstance(x, bool) else x) if nt else (lambda x: x)
    conv_i = conv_m if npf.get("where") == "all" else (lambda x: x)
    try:
        H = (SUBCLASSES if net.get("sub") else CLASSES)[cls]()
        for n, _ in net["nodes"]:
            H.add_node(conv_i(n))
        with warnings.catch_warnings():
            warnings.simplefilter("ignore")
            for e, ms, _ in net["edges"]:
                if cls == "DiHypergraph":
                    H.add_edge(([conv_m(x) for x in ms[0]], [conv_m(x) for x in ms[1]]), idx=conv_i(e))
                elif cls == "SimplicialComplex":
                    H.add_simplex([conv_m(x) for x in ms], idx=e)
                else:
                    H.add_edge([conv_m(x) for x in ms], idx=conv_i(e))
            H.set_node_attributes({n: copy.deepcopy(a) for n, a in net["nodes"] if a})
            H.set_edge_attributes({e: copy.deepcopy(a) for e, _, a in net["edges"] if a and e in H.edges})
        for k, v in net["net"].items():
            H[k] = copy.deepcopy(v)
    except Exception as ex:  # noqa
        raise Infra(f"generator defect: cannot build {net}: {type(ex).__name__}: {ex}")
    for n, a in net["nodes"]:
        if jv(H.nodes[n]) != jv(a):
            raise Infra(f"generator defect: node {n!r} has attributes {H.nodes[n]} instead of {a}")
    return H


def net_of(H, **flags):
    """description of an existing undirected network (bookkeeping for networks made by a library generator)"""
    return dict({"cls": kind_of(H), "nodes": [[py(n), {}] for n in H.nodes],
                 "edges": [[py(e), sorted((py(x) for x in H.edges.members(e)), key=idkey), {}] for e in H.edges], "net": {}}, **flags)


# ----------------------------------------------------------------------------- snapshots and the predicate

def jv(x):
    """strict JSON identity of an attribute dict / value (distinguishes 1, 1.0, True)"""
    return json.dumps(x, sort_keys=True, ensure_ascii=True, default=repr)


def rp(x):
    """identity of a label: numpy scalars count as the Python number they equal (same hash, same dict key in xgi)"""
    return repr(py(x))


def snap(H, source=False, fn=None, fe=None):
    """everything the statement lists.  `source`: the network that is written - its class is its base kind (an instance of
    a trivial subclass of DiHypergraph is a directed hypergraph); a network read back must be of exactly a base class.
    fn / fe: casts applied to the node labels / edge IDs (the expected network under a documented cast)"""
    cls = kind_of(H) if source else type(H).__name__
    N = (lambda x: repr(fn(py(x)))) if fn else rp
    E = (lambda x: repr(fe(py(x)))) if fe else rp
    if kind_of(H) == "DiHypergraph":
        mem = {E(e): [sorted(map(N, H.edges.tail(e))), sorted(map(N, H.edges.head(e)))] for e in H.edges}
    else:
        mem = {E(e): sorted(map(N, H.edges.members(e))) for e in H.edges}
    return {"cls": cls, "nodes": sorted(map(N, H.nodes)), "edges": sorted(map(E, H.edges)), "members": mem,
            "nattr": {N(n): jv(H.nodes[n]) for n in H.nodes}, "eattr": {E(e): jv(H.edges[e]) for e in H.edges},
            "net": jv(dict(H._net_attr))}


CLAUSES = [("cls", "class"), ("nodes", "nodes"), ("edges", "edges"), ("members", "members"), ("nattr", "node-attrs"),
           ("eattr", "edge-attrs"), ("net", "net-attrs")]


def same_network(a, b, skip=()):
    """clauses of "is the same network" that fail between two snapshots"""
    out = []
    for k, name in CLAUSES:
        if name in skip:
            continue
        if a[k] != b[k]:
            out.append((name, f"{name}: wrote {str(a[k])[:160]} read {str(b[k])[:160]}"))
    return out


def outcome(ex):
    if isinstance(ex, XGIError):
        return "err:lib"
    if isinstance(ex, TypeError):
        return "err:type"
    if isinstance(ex, ValueError):
        return "err:value"
    return "err:other:" + type(ex).__name__


def quiet(fn, *a, **k):
    with warnings.catch_warnings():
        warnings.simplefilter("ignore")
        return fn(*a, **k)


def read_text(p, encoding="utf-8"):
    with open(p, "rb") as f:
        return f.read().decode(encoding)


def write_text(p, text, encoding="utf-8"):
    with open(p, "wb") as f:
        f.write(text.encode(encoding))


def encodable(labels, encoding):
    try:
        "".join(str(x) for x in labels).encode(encoding)
        return True
    except UnicodeError:
        return False


def using_of(case):
    """create_using argument of a reader: None | the class | a fresh instance | an instance with content (it must be
    cleared, 'If hypergraph instance, then cleared before populated')"""
    k = case.get("using")
    if k == "class":
        return xgi.Hypergraph
    if k == "instance":
        return xgi.Hypergraph()
    if k == "used-instance":
        H = xgi.Hypergraph()      # content without edges: the automatic edge-ID counter (C04's business) stays at 0
        H.add_nodes_from(["zz", "yy"])
        H["stale"] = 1
        return H
    return None


def net_result(R, sort_nodes=False):
    """canonical form of an undirected network read back (labels int/str)"""
    nodes = list(R.nodes)
    if sort_nodes:
        nodes = sorted(nodes, key=idkey)
    return {"out": "ok", "nodes": nodes, "edges": [[e, sorted(R.edges.members(e), key=idkey)] for e in R.edges]}


# ----------------------------------------------------------------------------- label domain of the text formats

def label_ok(x, rdelim, comments="#"):
    """the statement's domain for text formats: the rendered label is non-empty, contains neither the delimiter
    nor the comment token nor a newline, and has no leading/trailing whitespace (strip() would eat it).  For a
    delimiter of several characters "cannot occur in a label" is read as: the label shares no character with it
    ("a:" + "::" + "b" splits wrongly although "::" occurs in neither label)."""
    s = str(x)
    if not s or (comments is not None and comments in s) or "\n" in s or s != s.strip():
        return False
    if rdelim is None:
        return not any(c.isspace() for c in s)
    if len(rdelim) > 1:
        return not any(c in s for c in rdelim)
    return rdelim not in s


def cast_matches(labels, ty):
    """the documented cast recovers these labels: ints with int, strs with None/str"""
    if all(isinstance(x, int) for x in labels):
        return ty == "int"
    if all(isinstance(x, str) for x in labels):
        return ty in (None, "str")
    return False


# ----------------------------------------------------------------------------- one case on the implementation
# every evaluator returns (fails, request for the model or None, impl result for the comparison or None)

CLS10 = {"Hypergraph": "hg", "DiHypergraph": "dhg", "SimplicialComplex": "sc"}
NT10 = {None: "none", "str": "none", "int": "int"}
JSON_LAYER = Counter()   # the hypothesis `jsonRoundTrip` of write_hif_read_hif_rt*, exhibited on every written document


def plain(x):
    """IDDict / defaultdict / tuple documents as json.loads returns them (dict / list)"""
    if isinstance(x, dict):
        return {k: plain(v) for k, v in x.items()}
    if isinstance(x, (list, tuple)):
        return [plain(v) for v in x]
    return x


def cast_ids(ids, ty):
    """IDs for which the cast `ty` is total and injective; the expected IDs after the cast"""
    try:
        out = [TY[ty](i) for i in ids] if ty else list(ids)
    except (ValueError, TypeError):
        return None
    return out if len(set(map(repr, out))) == len(out) else None


NP_UNSERIALISABLE = "numpy-integer-label-not-serializable"


def has_np_labels(H):
    """some node label / edge ID / member is a numpy integer (np.float64 and np.str_ are float / str subclasses)"""
    ids = list(H.nodes) + list(H.edges)
    for e in H.edges:
        ids += (list(H.edges.tail(e)) + list(H.edges.head(e))) if kind_of(H) == "DiHypergraph" else list(H.edges.members(e))
    return any(isinstance(x, np.integer) for x in ids)


def model_free(case, H):
    """cases the Lean model has no answer for (predicate only): numpy / float labels, subclass instances, generator output,
    the large network of the run"""
    net = case["net"]
    if net.get("np") or net.get("sub") or net.get("source") or case.get("large"):
        return True
    return any(isinstance(py(x), float) for x in list(H.nodes) + list(H.edges))


def ev_hif(case, tmp):
    net = case["net"]
    H = build_net(net)
    p = os.path.join(tmp, "n.hif.json")
    try:
        xgi.write_hif(H, as_path(case, p))
    except Exception as ex:  # noqa
        if isinstance(ex, TypeError) and "is not JSON serializable" in str(ex) and has_np_labels(H):
            return [(NP_UNSERIALISABLE, f"write_hif raised {type(ex).__name__}: {ex} (the labels are integers: numpy integers equal to "
                                        f"{sorted({rp(n) for n in H.nodes})[:6]})")], None, None
        return [("write-raises:" + net["cls"], f"write_hif raised {type(ex).__name__}: {ex}")], None, None
    a = snap(H, source=True)
    nty, ety = case.get("nodetype"), case.get("edgetype")
    try:
        R = xgi.read_hif(as_path(case, p), nodetype=TY[nty], edgetype=TY[ety])
    except Exception as ex:  # noqa
        if isinstance(ex, TypeError) and "got multiple values for argument" in str(ex):
            return [(KWARG_CLASH + ":" + net["cls"], f"read_hif raised {type(ex).__name__}: {ex} (attribute dict forwarded as **kwargs)")], None, None
        return [("read-raises:" + net["cls"], f"read_hif raised {type(ex).__name__}: {ex}")], None, None
    b = snap(R)
    fails = []
    if case.get("real_cast"):
        # a cast that changes the IDs (digit strings -> int, ints -> str): the same network under the cast IDs
        cn, ce = (TY[nty] or (lambda x: x)), (TY[ety] or (lambda x: x))
        want = snap(build_net(relabel_net(net, cn, ce)), source=True)
        fails = [("cast-" + c + ":" + net["cls"], d) for c, d in same_network(want, b)]
        STAT["predicate:hif:real-cast"] += 1
        return fails, None, None
    fails = [(c + ":" + net["cls"], d) for c, d in same_network(a, b)]
    STAT["predicate:hif:" + net["cls"]] += 1
    for flag in ("np", "sub", "source", "path"):
        src = case if flag == "path" else net
        if src.get(flag):
            STAT["predicate:hif:" + flag + "=" + (str(src[flag]) if flag == "path" else "yes")] += 1
    if case.get("large"):
        STAT["predicate:hif:large"] += 1
    if model_free(case, H):
        return fails, None, None
    doc = json.loads(read_text(p))
    JSON_LAYER["hif:documents"] += 1
    JSON_LAYER["hif:loads(dumps(d))==d"] += (doc == plain(xgi.to_hif_dict(H)))
    if nty or ety:
        return fails, None, None      # identity casts: the model's reader has no cast argument
    # correspondence: the document in the file and the network read back vs the model's writeHif / readHif
    anet = L10.snapshot(H)
    c10case = {"f": "hif_dict", "net": anet}
    reqs = [{"f": "hif", "net": anet}]
    wants = [{"out": "ok", "rep": L10.hif_rep(doc), "rt": L10.snapshot(R), "_c10": c10case}]
    ids = [r["node"] for r in doc.get("incidences", [])][:2] + [r["edge"] for r in doc.get("incidences", [])][:2]
    reqs += [{"f": "hifid", "id": i, "type": None} for i in ids]
    wants += [{"out": "ok", "read": {"out": "ok", "id": i}} for i in ids]
    return fails, reqs, wants


def relabel_net(net, fn, fe):
    di = net["cls"] == "DiHypergraph"
    return dict(net, nodes=[[fn(n), a] for n, a in net["nodes"]],
                edges=[[fe(e), ([[fn(x) for x in ms[0]], [fn(x) for x in ms[1]]] if di else [fn(x) for x in ms]), a] for e, ms, a in net["edges"]])


KWARG_CLASH = "attribute-key-named-like-a-parameter"


def ev_json(case, tmp):
    net = case["net"]
    H = build_net(net)
    p = os.path.join(tmp, "n.json")
    nty, ety = case.get("nodetype"), case.get("edgetype")
    sc = net["cls"] == "SimplicialComplex"
    # write_json accepts a SimplicialComplex explicitly; read_json is documented to return a Hypergraph: everything but the
    # class is judged for it (the statement's second sentence is about undirected hypergraphs = class Hypergraph)
    skip = ("class",) if sc else ()
    free = model_free(case, H) or sc
    req = {"f": "json", "net": {"nodes": [py(n) for n in H.nodes], "edges": [[py(e), [py(x) for x in H.edges.members(e)]] for e in H.edges]},
           "nodetype": nty, "edgetype": ety}
    nodes, eids = [py(n) for n in H.nodes], [py(e) for e in H.edges]
    collide = len({str(n) for n in nodes}) != len(nodes) or len({str(e) for e in eids}) != len(eids)
    in_domain = case.get("in_domain", True) and (collide or (cast_matches(nodes, nty) if nodes else True) and (cast_matches(eids, ety) if eids else True))
    sc_str = None
    if sc and not collide:
        # a complex mixes explicit simplex IDs (strings here) with automatic face IDs (ints): read without an edge cast, every
        # edge ID comes back as its string form (the documented cast) - the same network under str() of the edge IDs
        in_domain = case.get("in_domain", True) and (cast_matches(nodes, nty) if nodes else True) and ety is None
        sc_str = str
    fails = []
    STAT["predicate:json" + (":collision" if collide else "")] += bool(in_domain)
    for flag in ("np", "sub", "source"):
        if net.get(flag):
            STAT["predicate:json:" + flag] += bool(in_domain)
    STAT["predicate:json:SimplicialComplex"] += bool(in_domain and sc)
    if case.get("path"):
        STAT["predicate:json:path=" + case["path"]] += bool(in_domain)
    try:
        quiet(xgi.write_json, H, as_path(case, p))
        wout = "ok"
    except Exception as ex:  # noqa
        wout = outcome(ex)
    if collide:
        if wout != "err:lib":
            fails.append(("collision-not-refused", f"IDs collide after str() but write_json gave {wout}"))
        return (fails, None, None) if free else (fails, [req], [{"out": "ok", "write": {"out": wout} if wout != "ok" else "ok", "keys": None, "read": None}])
    if wout == "ok" and not os.path.exists(p):
        wout = "nothing-written"
    if wout != "ok":
        if in_domain:
            fails.append(("write-raises", f"write_json gave {wout}"))
        return (fails, None, None) if free or wout == "nothing-written" else (fails, [req], [{"out": "ok", "write": {"out": wout}, "keys": None, "read": None}])
    doc = json.loads(read_text(p))
    keys = list(doc["node-data"].keys())
    JSON_LAYER["json:documents"] += 1
    JSON_LAYER["json:loads(dumps(d))==d"] += (doc == plain(quiet(xgi.to_hypergraph_dict, H)))
    reqs, wants = [req], None
    full = None
    try:
        R = quiet(xgi.read_json, as_path(case, p), nodetype=TY[nty], edgetype=TY[ety])
        res = net_result(R)
        if in_domain:
            fails += same_network(snap(H, source=True, fe=sc_str), snap(R), skip=skip)
        elif case.get("real_cast"):
            cn, ce = cast_ids(nodes, nty), cast_ids(eids, ety)
            if cn is not None and ce is not None:
                # documented casts that change the IDs (ints without a cast come back as str, digit strings under int as int)
                fn, fe = (TY[nty] or str), (TY[ety] or str)
                fails += [("cast-" + c, d) for c, d in same_network(snap(build_net(relabel_net(net, fn, fe)), source=True), snap(R), skip=skip)]
                STAT["predicate:json:real-cast"] += 1
        full = {"out": "ok", "rep": L10.hdict_rep(doc), "rt": L10.snapshot(R)}
    except Exception as ex:  # noqa
        res = {"out": outcome(ex)}
        full = {"out": L10.err_kind(ex)}
        if isinstance(ex, TypeError) and "got multiple values for argument" in str(ex):
            fails.append((KWARG_CLASH, f"read_json raised {type(ex).__name__}: {ex} (attribute dict forwarded as **kwargs)"))
            full = None        # the model describes the repaired reader
        elif in_domain:
            fails.append(("read-raises", f"read_json raised {type(ex).__name__}: {ex}"))
    wants = [{"out": "ok", "write": "ok", "keys": keys, "read": res}]
    if free:
        return fails, None, None
    if full is not None:
        anet = L10.snapshot(H)
        c10case = {"f": "hypergraph_dict", "net": anet, "nodetype": NT10[nty], "edgetype": NT10[ety]}
        reqs.append(dict(c10case, f="jsonfull"))
        wants.append(dict(full, _c10=c10case))
    return fails, reqs, wants


def flag_stats(fmt, case, dom):
    """how often the predicate was evaluated on the widened input families, per format"""
    net = case["net"]
    for flag in ("np", "sub", "source"):
        if net.get(flag):
            STAT[f"predicate:{fmt}:{flag}"] += bool(dom)
    if case.get("path"):
        STAT[f"predicate:{fmt}:path={case['path']}"] += bool(dom)
    if case.get("large"):
        STAT[f"predicate:{fmt}:large"] += bool(dom)
    ids = [x for x, _ in net["nodes"]]
    if any(isinstance(x, int) and abs(x) > 2 ** 53 for x in ids):
        STAT[f"predicate:{fmt}:label>2**53"] += bool(dom)


def _text_domain(case, labels_n, labels_e=()):
    rd = case["rdelim"]
    cm = case.get("comments", "#")
    labels = list(labels_n) + list(labels_e)
    return (case.get("in_domain", True) and case["delim"] == (rd if rd is not None else case["delim"]) and
            (rd is not None or case["delim"].isspace()) and all(label_ok(x, rd, cm) for x in labels)
            and (cm is None or not any(c in cm for c in case["delim"])) and encodable(labels, case.get("encoding", "utf-8")))


def ev_edgelist(case, tmp):
    net = case["net"]
    H = build_net(net)
    p = os.path.join(tmp, "el.txt")
    members = [[py(x) for x in H.edges.members(e)] for e in H.edges]
    enc = case.get("encoding", "utf-8")
    ekw = {"encoding": enc} if "encoding" in case else {}
    U = using_of(case)
    ukw = {"create_using": U} if case.get("using") else {}
    if "encoding" in case and not encodable([x for ms in members for x in ms] + [case["delim"]], enc):
        enc, ekw = "utf-8", {}
    xgi.write_edgelist(H, as_path(case, p), delimiter=case["delim"], **ekw)
    text = case.get("text") if case.get("text") is not None else read_text(p, enc)
    if case.get("text") is not None:
        write_text(p, text, enc)
    cm = case.get("comments", "#")
    req = {"f": "edgelist", "delim": case["delim"], "rdelim": case["rdelim"], "comments": cm, "nodetype": case.get("nodetype"), "text": text}
    if case.get("text") is None:
        req["edges"] = members
    used = [x for ms in members for x in ms]
    dom = (case.get("text") is None and _text_domain(case, used) and all(ms for ms in members) and cast_matches(used, case.get("nodetype")))
    fails = []
    STAT["predicate:edgelist:nodetype=" + str(case.get("nodetype"))] += bool(dom)
    flag_stats("edgelist", case, dom)
    try:
        R = xgi.read_edgelist(as_path(case, p), comments=cm, delimiter=case["rdelim"], nodetype=TY[case.get("nodetype")], **ekw, **ukw)
        res = net_result(R, sort_nodes=True)
        if dom:
            got = [sorted(map(repr, R.edges.members(e))) for e in R.edges]
            want = [sorted(map(repr, ms)) for ms in members]
            if got != want:
                fails.append(("edges-differ", f"delimiter {case['delim']!r}: wrote member sets {want} read {got}"))
            elif sorted(map(repr, R.nodes)) != sorted({repr(x) for x in used}):
                fails.append(("nodes-differ", f"nodes read {sorted(map(repr, R.nodes))}"))
            elif dict(R._net_attr):
                fails.append(("create-using-not-cleared", f"network attributes {dict(R._net_attr)} survive in the network read"))
            elif case.get("using") in ("instance", "used-instance") and R is not U:
                fails.append(("create-using-ignored", "the network read is not the instance given as create_using"))
    except Exception as ex:  # noqa
        res = {"out": outcome(ex)}
        if dom:
            fails.append(("read-raises", f"read_edgelist (delimiter {case['rdelim']!r}, comments {cm!r}, encoding {enc}) raised {type(ex).__name__}: {ex}"))
    gen = read_text(p, enc) if case.get("text") is None else None
    return fails, [req], [{"out": "ok", "gen": gen, "read": res}]


def ev_bipartite(case, tmp):
    net = case["net"]
    H = build_net(net)
    p = os.path.join(tmp, "bip.txt")
    edges = [[py(e), [py(x) for x in H.edges.members(e)]] for e in H.edges]
    enc = case.get("encoding", "utf-8")
    ekw = {"encoding": enc} if "encoding" in case else {}
    U = using_of(case)
    ukw = {"create_using": U} if case.get("using") else {}
    if "encoding" in case and not encodable([x for e, ms in edges for x in [e] + ms] + [case["delim"]], enc):
        enc, ekw = "utf-8", {}
    xgi.write_bipartite_edgelist(H, as_path(case, p), delimiter=case["delim"], **ekw)
    text = case.get("text") if case.get("text") is not None else read_text(p, enc)
    if case.get("text") is not None:
        write_text(p, text, enc)
    dual = bool(case.get("dual"))
    nty, ety = case.get("nodetype"), case.get("edgetype")
    cm = case.get("comments", "#")
    req = {"f": "bipartite", "delim": case["delim"], "rdelim": case["rdelim"], "comments": cm, "nodetype": nty, "edgetype": ety,
           "dual": dual, "text": text}
    if case.get("text") is None:
        req["edges"] = edges
    used_n = [x for _, ms in edges for x in ms]
    used_e = [e for e, ms in edges if ms]
    # with dual=True the reader applies nodetype to the written edge IDs and edgetype to the written node IDs
    dom = (case.get("text") is None and _text_domain(case, used_n, used_e) and bool(used_n)
           and cast_matches(used_n, ety if dual else nty) and cast_matches(used_e, nty if dual else ety))
    fails = []
    STAT["predicate:bipartite" + (":dual" if dual else "")] += bool(dom)
    flag_stats("bipartite", case, dom)
    try:
        R = xgi.read_bipartite_edgelist(as_path(case, p), comments=cm, delimiter=case["rdelim"], nodetype=TY[nty], edgetype=TY[ety], dual=dual, **ekw, **ukw)
        res = net_result(R)
        if dom:
            want = sorted((repr(e), repr(n)) if dual else (repr(n), repr(e)) for e, ms in edges for n in ms)
            got = sorted((repr(n), repr(e)) for e in R.edges for n in R.edges.members(e))
            if got != want:
                fails.append(("incidences-differ" + (":dual" if dual else ""), f"delimiter {case['delim']!r}: wrote {want} read {got}"))
            else:
                wn = sorted({repr(e) for e in used_e} if dual else {repr(n) for n in used_n})
                we = sorted({repr(n) for n in used_n} if dual else {repr(e) for e in used_e})
                if sorted(map(repr, R.nodes)) != wn or sorted(map(repr, R.edges)) != we:
                    fails.append(("ids-differ" + (":dual" if dual else ""), f"nodes {list(R.nodes)} edges {list(R.edges)}"))
                elif dict(R._net_attr):
                    fails.append(("create-using-not-cleared", f"network attributes {dict(R._net_attr)} survive in the network read"))
                elif case.get("using") in ("instance", "used-instance") and R is not U:
                    fails.append(("create-using-ignored", "the network read is not the instance given as create_using"))
    except Exception as ex:  # noqa
        res = {"out": outcome(ex)}
        if dom:
            fails.append(("read-raises" + (":dual" if dual else ""), f"read_bipartite_edgelist (delimiter {case['rdelim']!r}, comments {cm!r}, encoding {enc}) raised {type(ex).__name__}: {ex}"))
    gen = read_text(p, enc) if case.get("text") is None else None
    return fails, [req], [{"out": "ok", "gen": gen, "read": res}]


def ev_incidence(case, tmp):
    net = case["net"]
    H = build_net(net)
    p = os.path.join(tmp, "inc.txt")
    nodes, eids = list(H.nodes), list(H.edges)
    n, m = len(nodes), len(eids)
    enc = case.get("encoding", "utf-8")
    ekw = {"encoding": enc} if "encoding" in case else {}
    U = using_of(case)
    ukw = {"create_using": U} if case.get("using") else {}
    if "encoding" in case and not encodable([case["delim"]], enc):
        enc, ekw = "utf-8", {}
    if case.get("text") is None:
        xgi.write_incidence_matrix(H, as_path(case, p), delimiter=case["delim"], **ekw)
        text = read_text(p, enc)
    else:
        text = case["text"]
        write_text(p, text, enc)
    cm = case.get("comments", "#")
    req = {"f": "incidence", "delim": case["delim"], "rdelim": case["rdelim"], "comments": cm, "text": text}
    if case.get("text") is None:
        req["net"] = {"nodes": [py(x) for x in nodes], "edges": [[py(e), [py(x) for x in H.edges.members(e)]] for e in eids]}
    # the tokens are '0'/'1' floats in 'e' notation: any delimiter / comment token made of other characters is admissible
    tokchars = set("01.e+")
    dom = (case.get("text") is None and n >= 1 and m >= 1 and case.get("in_domain", True)
           and (case["rdelim"] == case["delim"] or m == 1 or (case["rdelim"] is None and case["delim"].isspace()))
           and not (tokchars & set(case["delim"])) and (cm is None or not ((tokchars | set(case["delim"])) & set(cm))))
    fails = []
    flag_stats("incidence", case, dom)
    STAT["predicate:incidence" + (":1xm" if n == 1 and m > 1 else ":nx1" if m == 1 and n > 1 else ":1x1" if n == 1 and m == 1 else "")] += bool(dom)
    try:
        R = quiet(xgi.read_incidence_matrix, as_path(case, p), comments=cm, delimiter=case["rdelim"], **ekw, **ukw)
        res = net_result(R)
        if dom:
            want = sorted((i, j) for j, e in enumerate(eids) for i, x in enumerate(nodes) if x in H.edges.members(e))
            got = sorted((x, e) for e in R.edges for x in R.edges.members(e))
            if got != want:
                fails.append(("incidences-differ", f"{n}x{m} matrix, delimiter {case['delim']!r}: wrote incidences {want} read {got}"))
            elif dict(R._net_attr):
                fails.append(("create-using-not-cleared", f"network attributes {dict(R._net_attr)} survive in the network read"))
            elif case.get("using") in ("instance", "used-instance") and R is not U:
                fails.append(("create-using-ignored", "the network read is not the instance given as create_using"))
    except Exception as ex:  # noqa
        res = {"out": outcome(ex)}
        if dom:
            if case["rdelim"] is not None and len(case["rdelim"]) > 1 and isinstance(ex, TypeError) and "single unicode character" in str(ex):
                cls = MULTICHAR
            else:
                cls = "single-row-or-column-unreadable" if (n == 1 or m == 1) else "read-raises"
            fails.append((cls, f"{n}x{m} matrix written with delimiter {case['delim']!r}: read_incidence_matrix(delimiter={case['rdelim']!r}) raised {type(ex).__name__}: {ex}"))
        elif case.get("text") is not None:
            # a hand-made file: no source network, so no predicate; but a raise on a file with one data row or one
            # column is the same defect as the class above and must not be booked as a model disagreement
            rows = [l.split(cm)[0] if cm else l for l in text.split("\n")]
            rows = [r for r in rows if r != ""]
            cols = {len(r.split(case["rdelim"])) for r in rows}
            if len(rows) == 1 or cols == {1}:
                fails.append(("~single-row-or-column-unreadable", "hand-made single-row/column file"))
    gen = read_text(p, enc) if case.get("text") is None else None
    return fails, [req], [{"out": "ok", "gen": gen, "read": res}]


MULTICHAR = "multi-character-delimiter-unreadable"


def ev_collection(case, tmp):
    """write_hif_collection / read_hif_collection and write_json(list|dict) / read_json(collection file)"""
    kind = case["fmt"]
    nets = case["nets"]
    names = case.get("names")
    Hs = [build_net(n) for n in nets]
    d = os.path.join(tmp, "coll")
    shutil.rmtree(d, ignore_errors=True)
    os.makedirs(d)
    arg = Hs if names is None else dict(zip(names, Hs))
    cname = case.get("cname", "c")
    keys = [str(i) for i in range(len(Hs))] if names is None else [str(x) for x in names]
    nty, ety = case.get("nodetype"), case.get("edgetype")
    # the files of a collection: "<name>_<member>.json" + "<name>_collection_information.json"; write_json without a
    # collection name writes "<member>.json" + "collection_information.json"
    prefix = (cname + "_") if (cname or kind == "hifcoll") else ""
    expect = sorted([f"{prefix}{k}.json" for k in keys] + [f"{prefix}collection_information.json"])
    # an older collection of the same name is already there: every file must be replaced, not appended to
    for name in expect:
        write_text(os.path.join(d, name), '{"datasets": {"stale": {"relative-path": "stale.json"}}, "type": "collection", "stale": [1, 2, 3]}\n')
    fails = []
    try:
        if kind == "hifcoll":
            xgi.write_hif_collection(arg, as_path(case, d, collection=True), collection_name=cname)
        else:
            quiet(xgi.write_json, arg, as_path(case, d, collection=True), collection_name=cname)
    except Exception as ex:  # noqa
        return [("collection-raises", f"writing raised {type(ex).__name__}: {ex}")], None, None
    if sorted(os.listdir(d)) != expect:
        fails.append(("collection-file-names", f"collection_name={cname!r}: files {sorted(os.listdir(d))} instead of {expect}"))
    infos = glob.glob(os.path.join(d, "*collection_information.json"))
    if len(infos) != 1:
        return fails + [("collection-raises", f"{len(infos)} collection information files in {sorted(os.listdir(d))}")], None, None
    try:
        if kind == "hifcoll":
            R = xgi.read_hif_collection(as_path(case, infos[0], collection=True), nodetype=TY[case.get("nodetype")], edgetype=TY[case.get("edgetype")])
        else:
            R = quiet(xgi.read_json, as_path(case, infos[0], collection=True), nodetype=TY[case.get("nodetype")], edgetype=TY[case.get("edgetype")])
    except Exception as ex:  # noqa
        if isinstance(ex, TypeError) and "got multiple values for argument" in str(ex):
            return fails + [(KWARG_CLASH, f"reading the collection raised {type(ex).__name__}: {ex}")], None, None
        return fails + [("collection-raises", f"reading raised {type(ex).__name__}: {ex}")], None, None
    STAT["predicate:" + kind + (":list" if names is None else ":dict") + (":unnamed" if not cname else "")] += 1
    if not isinstance(R, dict) or sorted(R.keys()) != sorted(keys):
        return fails + [("collection-keys", f"wrote members {keys} read {sorted(R.keys()) if isinstance(R, dict) else type(R).__name__}")], None, None
    for k, H, net in zip(keys, Hs, nets):
        want = snap(H, source=True)
        if case.get("real_cast"):
            # casts that change the IDs, through read_hif_collection: the same network under the cast IDs
            want = snap(build_net(relabel_net(net, TY[nty] or (lambda x: x), TY[ety] or (lambda x: x))), source=True)
            STAT["predicate:" + kind + ":real-cast"] += 1
        skip = ("class",) if (kind == "jsoncoll" and net["cls"] == "SimplicialComplex") else ()
        for c, det in same_network(want, snap(R[k]), skip=skip):
            fails.append((f"collection-member-{c}:" + kind_of(H), f"member {k} (nodetype={nty}, edgetype={ety}): {det}"))
    return fails, None, None


# ----------------------------------------------------------------------------- held objects: write, edit, write again

def apply_edit(H, ed):
    """one edit of a held network through the public API (JSON-able description)"""
    k = kind_of(H)
    with warnings.catch_warnings():
        warnings.simplefilter("ignore")
        if ed[0] == "swap":          # count-preserving: one edge out, another one in
            _, old, new, ms = ed
            H.remove_edge(old)
            H.add_edge((list(ms[0]), list(ms[1])) if k == "DiHypergraph" else list(ms), idx=new)
        elif ed[0] == "attr":        # count-preserving: an attribute value changes
            _, what, i, key, val = ed
            if what == "node":
                H.set_node_attributes({i: {key: val}})
            elif what == "edge":
                H.set_edge_attributes({i: {key: val}})
            else:
                H[key] = val
        elif ed[0] == "grow":        # ordinary: a new node and a new edge
            _, n, e, ms = ed
            H.add_node(n)
            if k == "DiHypergraph":
                H.add_edge((list(ms), [n]), idx=e)
            elif k == "SimplicialComplex":
                H.add_simplex(list(ms) + [n], idx=e)
            else:
                H.add_edge(list(ms) + [n], idx=e)
        else:
            raise Infra(f"unknown edit {ed}")


def held_io(case, which):
    """(write(H, path), read(path) -> comparable summary, expected(H) -> the same summary from the network itself) for the
    format of a held-object case; which = 0: the case's options, 1: another option tuple (text formats: another delimiter)"""
    via = case["via"]
    nty, ety = TY[case.get("nodetype")], TY[case.get("edgetype")]
    d = case.get("delim") if which == 0 else case.get("delim2")
    if via == "hif":
        return (lambda H, p: xgi.write_hif(H, p), lambda p: snap(xgi.read_hif(p)), lambda H: snap(H, source=True))
    if via == "json":
        return (lambda H, p: quiet(xgi.write_json, H, p), lambda p: snap(quiet(xgi.read_json, p, nodetype=nty, edgetype=ety)),
                lambda H: snap(H, source=True))
    if via == "edgelist":
        return (lambda H, p: xgi.write_edgelist(H, p, delimiter=d),
                lambda p: [sorted(map(rp, ms)) for ms in xgi.read_edgelist(p, delimiter=d, nodetype=nty).edges.members()],
                lambda H: [sorted(map(rp, ms)) for ms in H.edges.members()])
    if via == "bipartite":
        def rd(p):
            R = xgi.read_bipartite_edgelist(p, delimiter=d, nodetype=nty, edgetype=ety)
            return sorted((rp(n), rp(e)) for e in R.edges for n in R.edges.members(e))
        return (lambda H, p: xgi.write_bipartite_edgelist(H, p, delimiter=d), rd,
                lambda H: sorted((rp(n), rp(e)) for e in H.edges for n in H.edges.members(e)))
    if via == "incidence":
        def rd(p):
            R = quiet(xgi.read_incidence_matrix, p, delimiter=d)
            return sorted((x, e) for e in R.edges for x in R.edges.members(e))

        def ex(H):
            nodes, eids = list(H.nodes), list(H.edges)
            return sorted((i, j) for j, e in enumerate(eids) for i, x in enumerate(nodes) if x in H.edges.members(e))
        return (lambda H, p: xgi.write_incidence_matrix(H, p, delimiter=d), rd, ex)
    raise Infra(f"held case without a format: {case}")


def ev_held(case, tmp):
    """HELD OBJECT: write H; edit H (round 1 count-preserving, round 2 ordinary); after every round write H again to the same
    path (same options) and to another path (another option tuple), and a FRESH equal network to a third path; every file
    must read back as the network as it is now.  A writer that remembers anything about the object between calls (a memo
    invalidated on counts, on identity, or never) fails the first two and passes the third."""
    net, via = case["net"], case["via"]
    H = build_net(net)
    p1, p2, p3 = (os.path.join(tmp, f"held{i}.{via}") for i in (1, 2, 3))
    for p in (p1, p2, p3):
        if os.path.exists(p):
            os.remove(p)
    def safe(fn, what):
        def g(*a):
            try:
                return fn(*a)
            except Infra:
                raise
            except Exception as ex:  # noqa
                return f"{what} raised {type(ex).__name__}: {ex}"
        return g
    w0, r0, x0 = held_io(case, 0)
    w1, r1, x1 = held_io(case, 1)
    w0, w1, r0, r1 = safe(w0, "the writer"), safe(w1, "the writer"), safe(r0, "the reader"), safe(r1, "the reader")
    fails = []
    w0(H, p1)
    w1(H, p2)
    done = []
    for rnd, edits in enumerate(case["edits"]):
        try:
            for ed in edits:
                apply_edit(H, ed)
            done += edits
            F = build_net(net)
            for ed in done:
                apply_edit(F, ed)
        except Infra:
            raise
        except Exception as ex:  # noqa
            raise Infra(f"generator defect: edit {edits} on {net}: {type(ex).__name__}: {ex}")
        tag = "count-preserving-edit" if rnd == 0 else "edit"
        STAT[f"predicate:held:{via}:{tag}"] += 1
        w0(F, p3)
        want = x0(F)
        fresh = r0(p3)
        if fresh != want or x0(H) != want:
            fails.append(("edited-network-differs", f"{via}: a fresh network equal to the edited one reads back as {str(fresh)[:200]} instead of {str(want)[:200]}"))
            break
        w0(H, p1)
        w1(H, p2)
        got1, got2 = r0(p1), r1(p2)
        if got1 != want:
            fails.append((f"stale-after-{tag}:same-path", f"{via}: after {edits} the held network written again to the same path reads back as "
                                                           f"{str(got1)[:200]}; a fresh equal network gives {str(want)[:200]}"))
        if got2 != x1(F):
            fails.append((f"stale-after-{tag}:other-path", f"{via}: after {edits} the held network written to another path"
                                                            f"{' with delimiter ' + repr(case.get('delim2')) if case.get('delim2') else ''} reads back as "
                                                            f"{str(got2)[:200]}; a fresh equal network gives {str(x1(F))[:200]}"))
    return fails, None, None


def held_cases(rng, n):
    out = []
    tries = 0
    while len(out) < n and tries < 20 * n + 20:
        tries += 1
        via = rng.choice(["hif", "hif", "json", "edgelist", "bipartite", "incidence"])
        text = via in ("edgelist", "bipartite", "incidence")
        cls = rng.choice(["Hypergraph", "DiHypergraph", "SimplicialComplex"]) if via == "hif" else "Hypergraph"
        nk, ek = rng.choice(["int", "str"]), rng.choice(["int", "str"])
        net = gen_net(rng, cls, node_kind=nk, edge_kind=ek, attrs=not text, empty_edges=False, isolated=not text or via == "incidence",
                      max_nodes=5, max_edges=4)
        labs = [x for x, _ in net["nodes"]]
        eids = [e for e, _, _ in net["edges"]]
        if not labs or (text and not eids):
            continue
        case = {"fmt": "held", "via": via, "net": net}
        good = {"int": "int", "str": None}
        if via in ("json", "edgelist", "bipartite"):
            case["nodetype"] = good[nk]
        if via in ("json", "bipartite"):
            case["edgetype"] = good[ek]
        if text:
            case["delim"], case["delim2"] = rng.sample([",", ";", "|", "\t", " "], 2)
        new_n = (max(labs) + 1) if nk == "int" else "zq"
        new_e = (max([e for e in eids if isinstance(e, int)] + [0]) + 17) if (ek == "int" and cls != "SimplicialComplex") else "zz_e"
        new_e2 = (new_e + 1) if isinstance(new_e, int) else "zz_f"
        if text and not all(label_ok(x, d) for x in labs + [new_n] + (eids + [new_e, new_e2] if via == "bipartite" else []) for d in (case["delim"], case["delim2"])):
            continue
        r1 = []
        if eids and cls != "SimplicialComplex":
            old = rng.choice(eids)
            oldms = next(ms for e, ms, _ in net["edges"] if e == old)
            k = rng.randint(1, min(3, len(labs)))
            ms = rng.sample(labs, k)
            if cls == "DiHypergraph":
                ms = [ms[:1], ms[1:]]
            if sorted(map(repr, (ms[0] + ms[1]) if cls == "DiHypergraph" else ms)) != sorted(map(repr, (oldms[0] + oldms[1]) if cls == "DiHypergraph" else oldms)) or via in ("hif", "json", "bipartite"):
                r1.append(["swap", old, new_e, ms])
        if not text:
            what = rng.choice(["node", "net"] + (["edge"] if eids else []))
            i = rng.choice(labs) if what == "node" else (rng.choice(eids) if what == "edge" else None)
            r1.append(["attr", what, i, rng.choice(["weight", "color", "fresh"]), rng.choice([0.1 + 0.2, "changed", 7, [1, 2], None])])
        if not r1:
            continue
        r2 = [["grow", new_n, new_e2, rng.sample(labs, rng.randint(1, min(2, len(labs))))]]
        case["edits"] = [r1, r2]
        out.append(case)
    return out


def site_of(case):
    return SITE[case["via"] if case["fmt"] == "held" else case["fmt"]]


EVAL = {"held": ev_held, "hif": ev_hif, "json": ev_json, "edgelist": ev_edgelist, "bipartite": ev_bipartite, "incidence": ev_incidence,
        "hifcoll": ev_collection, "jsoncoll": ev_collection}
SITE = {"hif": "read_hif", "json": "read_json", "edgelist": "read_edgelist", "bipartite": "read_bipartite_edgelist",
        "incidence": "read_incidence_matrix", "hifcoll": "read_hif_collection", "jsoncoll": "read_json"}


def evaluate(case, tmp):
    try:
        return EVAL[case["fmt"]](case, tmp)
    except Infra:
        raise
    except Exception as ex:  # noqa  (a writer that raises on an admissible network)
        return [("write-raises", f"{type(ex).__name__}: {ex}")], None, None


# ----------------------------------------------------------------------------- shrinking

def _variants(case):
    """smaller cases: drop an edge / an unused node / a member / an attribute / a collection member"""
    import copy
    if "nets" in case:
        for i in range(len(case["nets"])):
            if len(case["nets"]) > 1:
                c = copy.deepcopy(case); del c["nets"][i]
                if c.get("names"):
                    del c["names"][i]
                yield c
        for i, net in enumerate(case["nets"]):
            for v in _variants({"fmt": "x", "net": net}):
                c = copy.deepcopy(case); c["nets"][i] = v["net"]; yield c
        return
    net = case["net"]
    if net.get("source") or case["fmt"] == "held":
        return        # the network is what the library generator returned / the edits refer to the network as it is
    di = net["cls"] == "DiHypergraph"
    for i in range(len(net["edges"])):
        c = copy.deepcopy(case); del c["net"]["edges"][i]; yield c
    used = {repr(x) for _, ms, _ in net["edges"] for x in ((ms[0] + ms[1]) if di else ms)}
    for i, (n, _) in enumerate(net["nodes"]):
        if repr(n) not in used:
            c = copy.deepcopy(case); del c["net"]["nodes"][i]; yield c
    for i, (_, ms, _) in enumerate(net["edges"]):
        parts = [0, 1] if di else [None]
        for part in parts:
            lst = ms[part] if di else ms
            for j in range(len(lst)):
                c = copy.deepcopy(case)
                tgt = c["net"]["edges"][i][1][part] if di else c["net"]["edges"][i][1]
                del tgt[j]; yield c
    for i, (_, a) in enumerate(net["nodes"]):
        for k in a:
            c = copy.deepcopy(case); del c["net"]["nodes"][i][1][k]; yield c
    for i, (_, _, a) in enumerate(net["edges"]):
        for k in a:
            c = copy.deepcopy(case); del c["net"]["edges"][i][2][k]; yield c
    for k in net["net"]:
        c = copy.deepcopy(case); del c["net"]["net"][k]; yield c


def shrink(case, cls, tmp, budget=300):
    """greedy: keep any smaller variant on which the same failure class is still reported"""
    best = case
    progress = True
    while progress and budget > 0:
        progress = False
        for v in _variants(best):
            budget -= 1
            if budget <= 0:
                break
            try:
                fails, _, _ = evaluate(v, tmp)
            except Exception:  # noqa
                continue
            if any(c == cls for c, _ in fails):
                best, progress = v, True
                break
    return best


# ----------------------------------------------------------------------------- case streams

def option_axis(rng, case):
    """reader / writer options beyond the defaults: comment token, encoding, create_using"""
    if rng.random() < 0.3:
        case["comments"] = rng.choice(COMMENT_TOKENS)
    if rng.random() < 0.25:
        case["encoding"] = rng.choice(ENCODINGS)
    if rng.random() < 0.25:
        case["using"] = rng.choice(["class", "instance", "used-instance"])


def fit_options(rng, case):
    """keep a generated case inside the statement's domain: a delimiter containing '#' needs another comment token, and
    the delimiter must be representable in the chosen encoding"""
    d = case["delim"]
    if "#" in d and "#" in (case.get("comments", "#") or ""):
        case["comments"] = rng.choice([None, "%", "//"])
    if "encoding" in case and not encodable([d], case["encoding"]):
        del case["encoding"]


def input_axes(rng, case, np_ok=True, sub_ok=True):
    """argument-type / class / label-representation axes the statement quantifies over implicitly: the path as str /
    pathlib.Path / another os.PathLike, an instance of a trivial subclass, integer labels held as numpy integers"""
    r = rng.random()
    if r < 0.2:
        case["path"] = "pathlib"
    elif r < 0.3:
        case["path"] = "pathlike"
    nets = case.get("nets") or [case["net"]]
    for net in nets:
        if sub_ok and rng.random() < 0.12:
            net["sub"] = True
        if np_ok and rng.random() < 0.15:
            ids = [x for x, _ in net["nodes"]] + [e for e, _, _ in net["edges"]]
            ints = [x for x in ids if isinstance(x, int) and not isinstance(x, bool)]
            if ints:
                dt = rng.choice(["int64", "int64", "int32"])
                if all(abs(x) < (2 ** 31 if dt == "int32" else 2 ** 63) for x in ints):
                    net["np"] = {"where": rng.choice(["members", "all"]), "dtype": dt}
    return case


GENERATOR_SOURCES = [
    # library generators whose output holds numpy integers in the member sets (rewired edges of the Watts-Strogatz model)
    lambda rng: ["watts_strogatz_hypergraph", [rng.choice([6, 7, 8]), 2, 2, 2, 0.5], {"seed": rng.randint(0, 10 ** 6)}],
    lambda rng: ["watts_strogatz_hypergraph", [6, 3, 2, 1, 0.8], {"seed": rng.randint(0, 10 ** 6)}],
    lambda rng: ["random_hypergraph", [6, [0.3, 0.05]], {"seed": rng.randint(0, 10 ** 6)}],
    lambda rng: ["uniform_hypergraph_configuration_model", [{0: 2, 1: 2, 2: 1, 3: 1}, 2], {"seed": rng.randint(0, 10 ** 6)}],
    lambda rng: ["ring_lattice", [7, 3, 2, 1], {}],
]


def source_cases(rng, n):
    """the output of a library generator, written as it is (every format)"""
    out = []
    for _ in range(n):
        src = rng.choice(GENERATOR_SOURCES)(rng)
        with warnings.catch_warnings():
            warnings.simplefilter("ignore")
            H = build_net({"cls": "Hypergraph", "source": src})
        net = net_of(H, source=src)
        fmt = rng.choice(["hif", "hif", "json", "edgelist", "bipartite", "incidence"])
        case = {"fmt": fmt, "net": net}
        if fmt == "json":
            case.update(nodetype="int", edgetype="int")
        elif fmt != "hif":
            case.update(delim=",", rdelim=",", nodetype="int")
            if fmt == "bipartite":
                case.update(edgetype="int", dual=False)
            if fmt == "incidence" and not net["edges"]:
                continue
        out.append(case)
    return out


def large_cases(rng):
    """REGIME: one large network per format and run - 75 nodes (some labels above 2**53), 135 parallel edges (the same
    member set under 135 IDs) plus 10 others"""
    out = []
    for fmt in ["hif", "hif-di", "json", "edgelist", "bipartite", "incidence"]:
        labs = list(range(70)) + BIG_INTS[:5]
        rng.shuffle(labs)
        pair = rng.sample(labs, 2)
        edges = [[1000 + i, list(pair), ({"w": rng.choice(FINE_FLOATS)} if fmt in ("hif", "json") and i % 40 == 0 else {})] for i in range(135)]
        edges += [[2000 + i, rng.sample(labs, rng.randint(1, 6)), {}] for i in range(10)]
        rng.shuffle(edges)
        if fmt == "hif-di":
            edges = [[e, [ms[:1], ms[1:]], a] for e, ms, a in edges]
        iso = fmt in ("hif", "hif-di", "json", "incidence")
        used = {repr(x) for _, ms, _ in edges for x in (ms[0] + ms[1] if fmt == "hif-di" else ms)}
        net = {"cls": "DiHypergraph" if fmt == "hif-di" else "Hypergraph", "nodes": [[x, {}] for x in labs if iso or repr(x) in used], "edges": edges, "net": {}}
        case = {"fmt": fmt.split("-")[0], "net": net, "large": True}
        if fmt == "json":
            case.update(nodetype="int", edgetype="int")
        elif fmt in ("edgelist", "bipartite", "incidence"):
            d = rng.choice([",", ";", "|", " ", "\t"])
            case.update(delim=d, rdelim=d, nodetype="int")
            if fmt == "bipartite":
                case.update(edgetype="int", dual=rng.random() < 0.5)
        out.append(case)
    return out


def text_cases(rng, n, fmt):
    out = []
    for _ in range(n):
        r = rng.random()
        kind = "int" if r < 0.4 else ("str" if r < 0.7 else ("odd" if r < 0.92 else "mixed"))
        ekind = rng.choice(["int", "int", "str", "odd"]) if fmt == "bipartite" else "int"
        net = gen_net(rng, "Hypergraph", node_kind=kind, edge_kind=ekind, attrs=False, empty_edges=rng.random() < 0.15,
                      isolated=rng.random() < 0.3)
        d = rng.choice(MULTI_DELIMS) if rng.random() < 0.3 else rng.choice(DELIMS + EXTRA_DELIMS)
        rd = d if rng.random() < 0.85 else (None if d.isspace() and rng.random() < 0.8 else rng.choice(DELIMS + [None]))
        nk = {"int": "int", "str": rng.choice([None, "str"]), "odd": rng.choice([None, "str"]), "mixed": None}
        nty = nk[kind] if rng.random() < 0.85 else rng.choice([None, "int", "str"])
        case = {"fmt": fmt, "net": net, "delim": d, "rdelim": rd, "nodetype": nty}
        option_axis(rng, case)
        fit_options(rng, case)
        if fmt == "bipartite":
            case["edgetype"] = nk[ekind] if rng.random() < 0.85 else rng.choice([None, "int", "str"])
            case["dual"] = rng.random() < 0.4
            if case["dual"] and rng.random() < 0.85:
                case["nodetype"], case["edgetype"] = nk[ekind], nk[kind]
        out.append(input_axes(rng, case))
    return out


def incidence_cases(rng, n):
    out = []
    for _ in range(n):
        r = rng.random()
        if r < 0.25:      # single node
            net = gen_net(rng, "Hypergraph", node_kind="int", edge_kind="int", attrs=False, empty_edges=False, max_nodes=1, max_edges=4)
        elif r < 0.5:     # single edge
            net = gen_net(rng, "Hypergraph", attrs=False, empty_edges=False, max_edges=1)
        else:
            net = gen_net(rng, "Hypergraph", attrs=False, empty_edges=rng.random() < 0.3)
        if not net["edges"]:
            net["edges"] = [[0, [net["nodes"][0][0]], {}]]
        d = rng.choice(MULTI_DELIMS) if rng.random() < 0.3 else rng.choice(DELIMS + EXTRA_DELIMS)
        rd = d if rng.random() < 0.8 else (None if d.isspace() else rng.choice(DELIMS))
        case = {"fmt": "incidence", "net": net, "delim": d, "rdelim": rd}
        option_axis(rng, case)
        fit_options(rng, case)
        out.append(input_axes(rng, case))
    return out


T1, T0 = "1.000000000000000000e+00", "0.000000000000000000e+00"


def handmade_cases(rng, n):
    """files not produced by the writers: comments, blank lines, padding, short lines, bad casts, ragged matrices"""
    out = []
    empty = {"cls": "Hypergraph", "nodes": [], "edges": [], "net": {}}
    toks = ["1", "2", "30", "-4", "a", "b c", "x", "", " ", "7 ", " 8", "e1", "1.5", "+5", "1_0", "é", "0"]
    for _ in range(n):
        d = rng.choice(DELIMS)
        fmt = rng.choice(["edgelist", "bipartite", "incidence"])
        lines = []
        for _ in range(rng.randint(0, 5)):
            r = rng.random()
            if r < 0.12:
                lines.append("")
            elif r < 0.22:
                lines.append("# a comment" if rng.random() < 0.5 else "   ")
            else:
                if fmt == "incidence":
                    row = d.join(rng.choice([T0, T1]) for _ in range(rng.choice([1, 2, 2, 3])))
                else:
                    k = rng.choice([2, 2, 2, 3, 1]) if fmt == "bipartite" else rng.randint(1, 4)
                    pool = toks if rng.random() < 0.4 else ["1", "2", "30", "-4", "0"]
                    row = d.join(rng.choice(pool) for _ in range(k))
                if rng.random() < 0.15:
                    row += rng.choice([" # tail", "#x", " % p", "%"])
                if rng.random() < 0.1:
                    row = " " + row + " "
                lines.append(row)
        text = "".join(l + "\n" for l in lines)
        if lines and rng.random() < 0.15:
            text = text[:-1]          # no final newline
        case = {"fmt": fmt, "net": empty, "delim": d, "rdelim": d if rng.random() < 0.8 else None, "text": text, "in_domain": False,
                "nodetype": rng.choice([None, "int", "str"]), "comments": rng.choice(["#", "#", "#", "%", None])}
        if fmt == "bipartite":
            case["edgetype"] = rng.choice([None, "int", "str"])
            case["dual"] = rng.random() < 0.4
        out.append(case)
    return out


def hif_cases(rng, n):
    out = []
    for _ in range(n):
        cls = rng.choice(["Hypergraph", "DiHypergraph", "SimplicialComplex"])
        if rng.random() < 0.08:
            # float labels are JSON-representable too (outside the Lean model: predicate only)
            net = gen_net(rng, cls, node_kind="float", edge_kind=rng.choice(["int", "str", "float"]))
        else:
            net = gen_net(rng, cls)
        case = {"fmt": "hif", "net": net}
        ids_n = [x for x, _ in net["nodes"]]
        ids_e = [e for e, _, _ in net["edges"]]
        r = rng.random()
        if cls != "SimplicialComplex" and r < 0.2:          # identity casts
            if ids_n and all(isinstance(x, int) for x in ids_n):
                case["nodetype"] = "int"
            if ids_e and all(isinstance(x, int) for x in ids_e):
                case["edgetype"] = "int"
        elif cls != "SimplicialComplex" and r < 0.4 and all(isinstance(x, int) for x in ids_n + ids_e):
            # casts that change the IDs: ints read with str; the same IDs as digit strings read with int
            if rng.random() < 0.5:
                case.update(nodetype=rng.choice(["str", None]), edgetype="str", real_cast=True)
            else:
                case.update(net=relabel_net(net, str, str), nodetype="int", edgetype=rng.choice(["int", None]), real_cast=True)
        out.append(input_axes(rng, case, np_ok=not case.get("real_cast")))
    return out


def json_cases(rng, n):
    out = []
    for _ in range(n):
        nk, ek = rng.choice(["int", "int", "str"]), rng.choice(["int", "int", "str"])
        good = {"int": "int", "str": rng.choice([None, "str"])}
        if rng.random() < 0.12:
            # write_json accepts a SimplicialComplex (everything but the class is judged; edge IDs come back as strings)
            net = gen_net(rng, "SimplicialComplex", node_kind=nk, edge_kind="str")
            out.append(input_axes(rng, {"fmt": "json", "net": net, "nodetype": good[nk], "edgetype": None}))
            continue
        net = gen_net(rng, "Hypergraph", node_kind=nk, edge_kind=ek)
        case = {"fmt": "json", "net": net, "nodetype": good[nk], "edgetype": good[ek]}
        r = rng.random()
        if r < 0.1:       # mismatched casts: correspondence only
            case["nodetype"], case["edgetype"] = rng.choice([None, "int", "str"]), rng.choice([None, "int", "str"])
        elif r < 0.2:     # documented casts that change the IDs (int IDs without a cast -> str; digit strings with int -> int)
            case["nodetype"], case["edgetype"] = rng.choice([None, "int", "str"]), rng.choice([None, "int", "str"])
            if rng.random() < 0.5 and nk == "int" and ek == "int":
                case["net"] = relabel_net(net, str, str)
            case["real_cast"] = True
        elif r < 0.3:     # colliding string forms: the writer must refuse
            ints = [x for x, _ in net["nodes"] if isinstance(x, int)]
            if ints:
                net["nodes"].append([str(ints[0]), {}])
        out.append(input_axes(rng, case, np_ok=r >= 0.3))
    return out


def collection_cases(rng, n):
    out = []
    for _ in range(n):
        if rng.random() < 0.5:
            k = rng.randint(1, 3)
            nets = [gen_net(rng, rng.choice(["Hypergraph", "DiHypergraph", "SimplicialComplex"])) for _ in range(k)]
            case = {"fmt": "hifcoll", "nets": nets}
            if rng.random() < 0.5:
                # nodetype / edgetype through read_hif_collection, casts that change the IDs and differ between nodes and edges
                nets = [gen_net(rng, rng.choice(["Hypergraph", "DiHypergraph"]), node_kind="int", edge_kind="int") for _ in range(k)]
                if rng.random() < 0.5:
                    nty, ety = rng.choice([("str", None), (None, "str"), ("str", "str")])
                else:
                    nets = [relabel_net(n, str, str) for n in nets]
                    nty, ety = rng.choice([("int", None), (None, "int"), ("int", "int")])
                case = {"fmt": "hifcoll", "nets": nets, "nodetype": nty, "edgetype": ety, "real_cast": True}
        else:
            k = rng.randint(1, 3)
            nk, ek = rng.choice(["int", "str"]), rng.choice(["int", "str"])
            nets = [gen_net(rng, "Hypergraph", node_kind=nk, edge_kind=ek) for _ in range(k)]
            good = {"int": "int", "str": None}
            case = {"fmt": "jsoncoll", "nets": nets, "nodetype": good[nk], "edgetype": good[ek]}
        case["names"] = None if rng.random() < 0.5 else rng.choice([["first", "b2", "third_one"], ["0", "x y", "é"], [7, 8, 9]])[:k]
        case["cname"] = rng.choice(["", "", "c", "data set", "x1", "a_b", "tail_"])
        input_axes(rng, case, np_ok=False)
        out.append(case)
    return out


def exhaustive_cases():
    """every hypergraph on <= 4 nodes with <= 3 distinct non-empty edges x the three text formats x every delimiter"""
    out = []
    for nodes, edges in all_small_hypergraphs(4, 3):
        net = {"cls": "Hypergraph", "nodes": [[n, {}] for n in nodes], "edges": [[e, list(ms), {}] for e, ms in edges], "net": {}}
        for d in DELIMS:
            out.append({"fmt": "edgelist", "net": net, "delim": d, "rdelim": d, "nodetype": "int"})
            out.append({"fmt": "bipartite", "net": net, "delim": d, "rdelim": d, "nodetype": "int", "edgetype": "int", "dual": False})
            if edges:
                out.append({"fmt": "incidence", "net": net, "delim": d, "rdelim": d})
    return out


def corpus_cases():
    out = []
    for p in sorted(glob.glob(os.path.join(VERIF, "corpus", "C11", "*.json"))):
        j = json.load(open(p))
        out.append(j.get("case", j))
    return out


# ----------------------------------------------------------------------------- the run

def _unordered_doc(x):
    """a JSON object is an unordered collection of name/value pairs, and the statement does not list the order in which nodes
    and edges appear in the network read back: documents are compared as parsed objects (key order canonicalised), the
    networks with nodes and edges sorted by ID.  (A writer that sorts or reorders the keys of the file is not a disagreement.)"""
    x = dict(x)
    if isinstance(x.get("keys"), list):
        x["keys"] = sorted(x["keys"])
    if isinstance(x.get("read"), dict) and "nodes" in x["read"]:
        x["read"] = dict(x["read"], nodes=sorted(x["read"]["nodes"], key=idkey), edges=sorted(x["read"]["edges"], key=lambda e: idkey(e[0])))
    if isinstance(x.get("rep"), dict) and "node-data" in x["rep"]:
        x["rep"] = {k: (sorted(v, key=lambda p: idkey(p[0])) if k in ("node-data", "edge-data", "edge-dict") else v) for k, v in x["rep"].items()}
    if isinstance(x.get("rt"), dict):
        rt = dict(x["rt"])
        rt["nodes"] = sorted(rt["nodes"], key=idkey)
        rt["edges"] = sorted(rt["edges"], key=lambda e: idkey(e[0]))
        x["rt"] = rt
    return x


def model_compare(fmt, want, got):
    """impl result vs canonicalised model response"""
    if fmt in ("json", "jsonfull"):
        want, got = _unordered_doc(want), _unordered_doc(got)
    if "_c10" in want:      # whole-network HIF / JSON documents: the comparison of C10 (set-iteration order, faces of a complex)
        return C10.same(want["_c10"], {k: v for k, v in want.items() if k != "_c10"}, got)
    if fmt == "edgelist" and isinstance(got.get("read"), dict) and "nodes" in got["read"]:
        got = dict(got); got["read"] = dict(got["read"]); got["read"]["nodes"] = sorted(got["read"]["nodes"], key=idkey)
    if want.get("gen", "absent") is None:
        got = dict(got); got["gen"] = None
    return want == got


def nontrivial(case):
    nets = case.get("nets") or [case["net"]]
    for net in nets:
        for _, ms, _ in net["edges"]:
            if len(ms[0] + ms[1] if net["cls"] == "DiHypergraph" else ms) >= 2:
                return True
    return False


def run_cases(ctx, cases, tmp, do_model=True):
    """predicate on every case; correspondence through the driver; returns the disagreements"""
    reqs, wants, owners = [], [], []
    failed = set()
    maybe = []
    for idx, case in enumerate(cases):
        fails, rq, want = evaluate(case, tmp)
        ctx.evaluations += 1
        ctx.stats["cases:" + case["fmt"]] += 1
        if case["fmt"] in ("edgelist", "bipartite", "incidence"):
            ctx.stats["delim:" + repr(case.get("delim")) + "/read:" + repr(case.get("rdelim"))] += 1
        if nontrivial(case):
            ctx.nontrivial.add(jhash(case))
        for cls, detail in fails:
            if cls.startswith("~"):     # not a predicate failure: "explained by violation <cls> if that one was recorded"
                maybe.append((idx, site_of(case), cls[1:]))
                continue
            failed.add(idx)
            site = "write_hif" if cls == NP_UNSERIALISABLE else site_of(case)
            small = case
            if (site, cls) not in _SHRUNK:          # shrink the first witness of each (site, class); later ones are only counted
                _SHRUNK.add((site, cls))
                small = shrink(case, cls, tmp)
                if small is not case:
                    detail = next((d for c, d in evaluate(small, tmp)[0] if c == cls), detail)
            ctx.violation(site, cls, small, detail=detail)
        if want is not None:
            for w in want:
                r = w.get("read") if isinstance(w, dict) else None
                if isinstance(r, dict) and str(r.get("out", "")).startswith("err"):
                    ctx.stats["impl_" + r["out"]] += 1
        ctx.sample({"case": case, "predicate_failures": [c for c, _ in fails]}, cap=3)
        if do_model and rq:
            for q, w in zip(rq, want):
                reqs.append(q); wants.append(w); owners.append(idx)
    recorded = {(v["site"], v["failure_class"]) for v in ctx.violations if v["kind"] == "concrete"}
    failed |= {idx for idx, site, cls in maybe if (site, cls) in recorded}
    dis = []
    if reqs:
        resps = []
        for i in range(0, len(reqs), 20000):
            resps += run_driver("C11", reqs[i:i + 20000])
        for q, w, m, idx in zip(reqs, wants, resps, owners):
            if m.get("out") == "bad-op":
                raise Infra(f"model C11 rejected request (harness defect): {json.dumps(q)[:300]}")
            if m.get("out") == "unmodelled" or (isinstance(m.get("read"), dict) and m["read"].get("out") == "unmodelled"):
                ctx.stats["unmodelled:" + q["f"]] += 1
                # the generated text is still comparable
                if isinstance(m.get("gen"), str) and isinstance(w.get("gen"), str) and m["gen"] != w["gen"]:
                    dis.append((cases[idx], q, w, canon(m)))
                continue
            ctx.traces += 1
            mc = canon(m)
            if not model_compare(q["f"], w, mc):
                if idx in failed:
                    ctx.stats["disagreement_explained_by_violation"] += 1   # the implementation broke the predicate here
                    continue
                dis.append((cases[idx], q, w, mc))
                ctx.stats["disagree:" + q["f"]] += 1
    if dis:
        ctx.extra.setdefault("disagreements", [])
        for c, q, w, mc in dis[:5]:
            ctx.extra["disagreements"].append({"request": q, "impl": w, "model": mc})
        ctx.extra["disagreements_total"] = ctx.extra.get("disagreements_total", 0) + len(dis)
        ctx.broken.append(f"correspondence C11: model and implementation differ on {len(dis)} of {len(reqs)} requests "
                          f"(formats: {sorted({q['f'] for _, q, _, _ in dis})})")
    return dis


def observations(tmp):
    """behaviour outside the statement's quantifier (delimiters and casts), measured each run and recorded, not judged"""
    obs = {}
    H = xgi.Hypergraph([["a", "b"], ["b", "c"]])
    for enc in ("utf-16", "utf-32"):
        p = os.path.join(tmp, "obs.txt")
        try:
            xgi.write_edgelist(H, p, delimiter=",", encoding=enc)
            R = xgi.read_edgelist(p, delimiter=",", encoding=enc)
            obs[f"edgelist encoding={enc}"] = "reads back" if [set(m) for m in R.edges.members()] == [{"a", "b"}, {"b", "c"}] else "reads back differently"
        except Exception as ex:  # noqa
            obs[f"edgelist encoding={enc}"] = f"raises {type(ex).__name__} (writers encode and readers decode line by line at the byte level)"
    try:
        U = xgi.Hypergraph([[1, 2]])
        p = os.path.join(tmp, "obs2.txt")
        xgi.write_edgelist(H, p)
        R = xgi.read_edgelist(p, create_using=U)
        obs["create_using=instance that had edges"] = f"edge IDs of the network read: {list(R.edges)} (clear() keeps the automatic-ID counter; C04's business)"
    except Exception as ex:  # noqa
        obs["create_using=instance that had edges"] = f"raises {type(ex).__name__}"
    return obs


def all_cases(ctx, rng, scale):
    cases = []
    cases += hif_cases(rng, 45 * scale)
    cases += json_cases(rng, 30 * scale)
    cases += text_cases(rng, 45 * scale, "edgelist")
    cases += text_cases(rng, 45 * scale, "bipartite")
    cases += incidence_cases(rng, 30 * scale)
    cases += handmade_cases(rng, 30 * scale)
    cases += collection_cases(rng, 8 * scale)
    cases += source_cases(rng, 2 * scale)
    cases += held_cases(rng, 6 * scale)
    return cases


def run(ctx):
    ok = build_and_audit(ctx, "XgiModel.Props.C11", ["XgiModel.C11.Drive"])
    rng = ctx.rng
    ctx.rule = ("networks from one PRNG: 1-6 nodes (int / str / mixed / unicode / latin-1 / 'odd' labels containing delimiters, '#', padding), "
                "0-5 edges (explicit int/str IDs, empty edges, multi-edges, isolated nodes), JSON-representable node/edge/network attributes "
                "(nested lists/dicts, None, bools, ints, floats, unicode) whose KEYS include the parameter names node / idx / members / attr / "
                "edge / n / self; each is really written to a temporary directory and read back: HIF x 3 classes (+ identity casts, + casts "
                "that change the IDs: digit strings -> int, int -> str), JSON with nodetype/edgetype (+ such casts), edge list / bipartite "
                "edge list (dual) / incidence matrix x delimiters ' ' ',' ';' '|' '\\t', the default comment token '#' itself (then read with "
                "comments None / '%' / '//'), the non-ASCII '\u00a7' (through encoding=) and the multi-character ones ', ' '::' '||' '\\t ' "
                "' ; ' '-->' '\u00a7\u00a7' (+ delimiter=None) x casts {None,int,str} x comments {'#','%','//',None} x encoding {utf-8, latin-1, cp1252, "
                "ascii} x create_using {None, class, fresh instance, instance with content}, 1xm / nx1 / 1x1 matrices, collections (list and "
                "dict, int / str / unicode member names, collection_name '' / 'c' / 'data set' / 'a_b' / 'tail_'; file names checked; written over "
                "stale files of the same names; read_hif_collection with nodetype / edgetype casts that change the IDs), "
                "hand-made files (comments, blank lines, padding, short lines, bad casts, ragged rows); widened input families: integer "
                "labels above 2**53, float labels (HIF), integer labels as numpy int64 / int32 (members only or everywhere), attribute "
                "values with 17 significant digits / tiny and huge exponents / ints above 2**64, instances of trivial subclasses, a "
                "SimplicialComplex through write_json, output of library generators (watts_strogatz_hypergraph, random_hypergraph, "
                "uniform_hypergraph_configuration_model, ring_lattice) written as it is, the path as str / pathlib.Path / os.PathLike, "
                "one large network per format and run (75 nodes, 135 parallel edges, labels above 2**53), held objects (write, "
                "count-preserving edit, write again to the same and another path with another delimiter, ordinary edit, again).  "
                "evaluations = write+read round "
                "trips; non-trivial = distinct case whose network has an edge with >= 2 members")
    tmp = tempfile.mkdtemp(prefix="xgi-c11-")
    STAT.clear()
    JSON_LAYER.clear()
    _SHRUNK.clear()
    try:
        ctx.extra["observations"] = observations(tmp)
        cases = corpus_cases()
        ctx.stats["corpus_cases"] = len(cases)
        cases += all_cases(ctx, rng, ctx.n(25, 400))
        cases += large_cases(rng)
        if not ctx.quick:
            ex = exhaustive_cases()
            cases += ex
            ctx.exhaustive = True
            ctx.extra["exhaustive_space"] = (f"correspondence and predicate over every hypergraph on 4 nodes with <= 3 distinct edges x "
                                             f"(edge list, bipartite edge list, incidence matrix) x 5 delimiters = {len(ex)} round trips")
        dis = run_cases(ctx, cases, tmp)

        def search():
            fmts = {q["f"] for _, q, _, _ in dis} or set(EVAL)
            more = [c for c in all_cases(ctx, rng, ctx.n(60, 400)) if c["fmt"] in fmts or not dis]
            run_cases(ctx, more, tmp, do_model=False)

        # the explicit hypothesis of write_hif_read_hif_rt* / write_json_read_json_rt (JsonLayer.RoundTrip), exhibited on every
        # document the implementation wrote in this run: json.loads(file) == to_hif_dict(H) / to_hypergraph_dict(H).  A mismatch
        # is a broken tie (the writer changes the document, or a generated value is not JSON-faithful), never a crash: the
        # predicate decides whether a concrete failing input exists
        layer = []
        for k in ("hif", "json"):
            bad = JSON_LAYER[k + ":documents"] - JSON_LAYER[k + ":loads(dumps(d))==d"]
            if bad:
                layer.append(k)
                ctx.broken.append(f"hypothesis JsonLayer.RoundTrip not exhibited: {bad} of {JSON_LAYER[k + ':documents']} {k} files of this run "
                                  f"differ as parsed documents from the dict the converter returns (the writer changes the document, or a "
                                  f"generated value is not preserved by json)")
        conclude(ctx, ok, dis or layer, search)
    finally:
        shutil.rmtree(tmp, ignore_errors=True)
    ctx.extra["tmpdir_removed"] = not os.path.exists(tmp)
    for k, v in STAT.items():
        ctx.stats[k] += v
    ctx.extra["json_layer_hypothesis"] = dict(JSON_LAYER)
    un = sum(v for k, v in ctx.stats.items() if k.startswith("unmodelled:"))
    ctx.extra["model_skip_rate"] = {"unmodelled_requests": un, "compared_requests": ctx.traces,
                                    "why": "delimiters / comment tokens of several characters, labels outside int/str, int() literals "
                                           "outside plain decimals, float tokens other than np.savetxt's: predicate only"}
    ctx.assumptions = [
        "labels: int (incl. above 2**53 and below -2**55), str, mixed int/str; for HIF also float labels (predicate only) and integer "
        "labels held as numpy int64 / int32 - in the member lists only (what watts_strogatz_hypergraph produces) or everywhere - which count "
        "as the Python ints they equal (same hash, same dict key); bool labels are not generated; tuple labels are NOT generated: JSON "
        "turns a tuple into a list (unhashable), so they are outside 'JSON-representable labels'",
        "attribute values are JSON-representable and JSON-faithful: None, bool, int (incl. above 2**64), finite float (incl. 0.1+0.2, "
        "0.1234567891, 2e-7, 2**-30, 5e-324, 1e300, -0.0), str, lists and str-keyed dicts of these (tuples, NaN/inf, non-str dict keys, numpy "
        "integers as VALUES change or fail under json and are outside the statement - not generated); that json.loads(json.dumps(d)) == d "
        "holds for every document written in the run is checked (coverage.json_layer_hypothesis) - it is the explicit hypothesis "
        "JsonLayer.RoundTrip (forall d, loads (dumps d) = d) under which the theorems write_hif_read_hif_rt* / write_json_read_json_rt* are "
        "thin wrappers of C10's hif_rt* / hypergraphDict_rt; Python's json does not satisfy it for tuple / None IDs and sets; the driver "
        "instantiates the layer by the identity (idLayer)",
        "classes: Hypergraph, DiHypergraph, SimplicialComplex and a trivial subclass of each (class MyD(xgi.DiHypergraph): pass); an instance "
        "of a subclass counts as a network of its base class and must be read back as a network of exactly that base class",
        "write_json/read_json: 'undirected hypergraphs' = class Hypergraph (and trivial subclasses); a DiHypergraph is excluded by the "
        "statement's own enumeration (write_json(DiHypergraph) silently writes nothing: not judged); a SimplicialComplex is accepted by "
        "write_json and documented to come back as a Hypergraph: everything but the class is judged (edge IDs under str()); node labels of "
        "one type (all int -> nodetype=int, all str -> None/str), likewise edge IDs; colliding string forms must be refused with XGIError; "
        "casts that change the IDs (no cast on ints -> strings, int on digit strings -> ints) must give the same network under the cast IDs",
        "text formats: the predicate is evaluated when every rendered label is non-empty, contains neither the delimiter, the comment "
        "token in force nor a newline and has no leading/trailing whitespace (line.strip()), no edge is empty (an edge list cannot "
        "represent an empty edge: its blank line reads back as an edge containing the label ''), the cast matches the label type, and "
        "the labels are representable in the chosen encoding; for a delimiter of several characters 'cannot occur in a label' is read "
        "as 'shares no character with any label' ('a:' + '::' + 'b' would split wrongly); outside this domain only model/"
        "implementation agreement is checked; delimiters / comment tokens of several characters are outside the Lean model "
        "(per character) and collections have no model at all: predicate only",
        "incidence matrix: the file carries no labels; its tokens are floats in e-notation, so delimiters and comment tokens containing one "
        "of the token characters '0' '1' '.' 'e' '+' are excluded by the predicate (tokchars; e.g. write_incidence_matrix(H, p, "
        "delimiter='+') cannot be read back - not judged)",
        "encoding: ASCII-compatible encodings without byte-order mark only; utf-16 / utf-32 files cannot be read back (line-wise byte "
        "handling) - not in the statement's quantifier (delimiters and casts), recorded under coverage.observations, not judged",
        "edge list: edge IDs and isolated nodes are not part of the format (edges compared by position); bipartite edge list: "
        "isolated nodes and empty edges are not part of the format; incidence matrix: labels are not part of the format "
        "(incidences compared by position), at least one node and one edge",
        "path arguments: str, pathlib.Path (every writer and reader) and another os.PathLike object (single files; the collection writers "
        "build member paths with an f-string) - documented as strings, all three work on the current tree and must keep working",
        "held objects: a network is written, edited through the public API (round 1 keeps the node and edge counts: one edge out / one in, "
        "an attribute value; round 2 adds a node and an edge), and written again to the same path with the same options and to another "
        "path with another delimiter; each file must read back like a fresh network with the same history",
        "order: JSON documents are compared as parsed objects (key order is not part of a JSON object), and the order in which nodes and "
        "edges appear in a network read back from HIF / JSON is not compared (the statement does not list it)",
        "collections: the file names '<collection_name>_<member>.json' / '<collection_name>_collection_information.json' (write_json "
        "without a collection name: '<member>.json' / 'collection_information.json') are part of what is checked",
        "SimplicialComplex: explicit simplex IDs are strings so that they cannot collide with automatic face IDs (C04's business)",
        "set iteration order: the members of an edge are given to the model in the order the implementation iterates them",
    ]
    return finish(ctx, trusted_base=TRUSTED_COMMON + [
        "file system, text codecs, json.dumps/loads (hypothesis JsonLayer.RoundTrip of the HIF / JSON theorems, exhibited on every document "
        "of the run), np.savetxt float formatting and np.loadtxt float parsing are runtime: identities / constants of the model, exhibited "
        "by the correspondence on real files only",
    ])


def replay(ctx, path):
    j = json.load(open(path))
    case = j.get("case", j)
    if "fmt" not in case:
        print(f"replay {path}: no case in this replay (kind={j.get('kind')}); broken: {j.get('broken')}")
        return 2
    tmp = tempfile.mkdtemp(prefix="xgi-c11-")
    try:
        fails, _, _ = evaluate(case, tmp)
    finally:
        shutil.rmtree(tmp, ignore_errors=True)
    if fails:
        print(f"VIOLATION property={ctx.prop} replay={path}")
        print(f"  reproduced: {'write_hif' if fails[0][0] == NP_UNSERIALISABLE else site_of(case)} {fails[0][0]}: {fails[0][1]}")
        return 1
    print(f"replay {path}: not reproduced on the current tree")
    return 0
