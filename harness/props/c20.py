"""C20 — layouts and drawings represent every node and edge faithfully.

Three kinds of case, all on small generated hypergraphs / simplicial complexes (int, str, mixed, negative labels;
isolated nodes, singleton edges, multi-edges):

* ``layout``  — every ``*_layout`` function found by introspection of ``xgi.drawing.layout`` with option variants
  (seed, return_phantom_graph, center, radius, resolution, equidistant, k, iterations).  Predicate: the returned
  dict has exactly one key per node (the bipartite layout: a second dict with one key per edge), every position is a
  finite array of shape (2,), a returned phantom graph has exactly one fresh extra node per edge with >= 2 members.
* ``edge_positions`` — ``edge_positions_from_barycenters`` on integer-grid positions: keys = edge IDs, value = the exact
  mean of the members' positions.
* ``draw`` — ``draw`` / ``draw_nodes`` / ``draw_hyperedges`` / ``draw_simplices`` (Agg backend) on integer-grid positions
  (exact in float) with scalar / per-ID dict / list / array / stat-valued style arguments and several ``max_order``,
  with an explicit ``ax`` and with the default ``ax=None`` (current axes).  The collections are read back
  (``get_offsets``, ``get_segments``, ``get_paths``) and compared with the plan computed by brute force from the members
  (the property predicate) and with the plan of the Lean model (lean/XgiModel/C20/Draw.lean through Drivers/C20.lean).
  Per-element style arguments are read back too (sizes, line widths, face / edge colours, colour-mapped arrays): element
  k must carry the value given for ITS id; per-ID dicts are built in shuffled order (and, for edge arguments, over all
  edge IDs).  ``hull=True``: one hull per qualifying edge, enclosing every member position and nothing away from
  them.  ``pos=None``: the markers define the positions, the lines / polygons must join exactly those.

Round-2 families (see ``ctx.rule``): documented argument shapes (tuple / range / Series sequences, the colour ``"none"``,
``node_ec`` per ID, an EdgeStat over all edges, per-ID edge arguments of a complex, RandomState seeds), ``pos`` with extra
keys, instances of trivial subclasses, tuple labels / edge IDs, one large network per run (predicate only) and HELD-OBJECT
cases (call, edit, call again on the same object; compared with a fresh rebuild).  A call that raises is classed by the
exception and by the documented shapes present in the case (``cause_suffix``).
"""
import glob
import inspect
import json
import math
import os
import warnings
from collections import Counter
from fractions import Fraction

import matplotlib

matplotlib.use("Agg")
import matplotlib.pyplot as plt  # noqa: E402
import networkx as nx  # noqa: E402
import numpy as np  # noqa: E402
from matplotlib.colors import to_rgba  # noqa: E402
import xgi  # noqa: E402
import xgi.drawing.layout as L  # noqa: E402

from ..core import is_known, unlisted_violations  # noqa: E402
from ..core import TRUSTED_COMMON, VERIF, build_and_audit, dec_id, enc_id, finish  # noqa: E402
from ..fn import all_small_hypergraphs, conclude, gen_hypergraph, run_fn  # noqa: E402

# ----------------------------------------------------------------------------- networks


def build_from_spec(cls, nodes, edges):
    """a fresh network from generator output (nodes in order; edges = [(id, members)])"""
    if cls == "sc":
        S = xgi.SimplicialComplex()
        S.add_nodes_from(nodes)
        for _, ms in edges:
            if ms:
                S.add_simplex(list(ms))
        return S
    H = xgi.Hypergraph()
    H.add_nodes_from(nodes)
    for e, ms in edges:
        H.add_edge(list(ms), idx=e)
    return H


def enc_real(H):
    """the network as its views show it (members in set-iteration order)"""
    return {"nodes": [enc_id(n) for n in H.nodes],
            "edges": [[enc_id(e), [enc_id(x) for x in H.edges.members(e)]] for e in H.edges]}


class MyH(xgi.Hypergraph):
    """a trivial subclass: an instance IS a hypergraph"""


class MyS(xgi.SimplicialComplex):
    """a trivial subclass: an instance IS a simplicial complex"""


def net_of(c):
    """the real network of a case (an instance of a trivial subclass when the case says so)"""
    return build(c["cls"], c["H"], subclass=bool(c.get("subclass")), np_labels=bool(c.get("np_labels")))


def build(cls, enc, subclass=False, np_labels=False):
    """rebuild the real network of a case: same node order, edge order, edge IDs (public API only); with `np_labels`
    every integer node label is handed over as a numpy integer (as labels read from arrays are): equal to, and encoded
    like, the plain integer, so the expected keys are unchanged"""
    if np_labels:
        _dec = dec_id
        dec = lambda j: np.int64(j) if isinstance(j, int) and not isinstance(j, bool) and abs(j) < 2**62 else _dec(j)
        nodes = [dec(n) for n in enc["nodes"]]
        if cls == "sc":
            S = (MyS if subclass else xgi.SimplicialComplex)()
            S.add_nodes_from(nodes)
            d = {_dec(e): [dec(x) for x in ms] for e, ms in enc["edges"]}
            if d:
                with warnings.catch_warnings():
                    warnings.simplefilter("ignore")
                    S.add_simplices_from(d)
            return S
        H = (MyH if subclass else xgi.Hypergraph)()
        H.add_nodes_from(nodes)
        for e, ms in enc["edges"]:
            H.add_edge([dec(x) for x in ms], idx=_dec(e))
        return H
    nodes = [dec_id(n) for n in enc["nodes"]]
    if cls == "sc":
        S = (MyS if subclass else xgi.SimplicialComplex)()
        S.add_nodes_from(nodes)
        d = {dec_id(e): [dec_id(x) for x in ms] for e, ms in enc["edges"]}
        if d:
            with warnings.catch_warnings():
                warnings.simplefilter("ignore")
                S.add_simplices_from(d)  # dict format: explicit IDs, all faces are listed
        return S
    H = (MyH if subclass else xgi.Hypergraph)()
    H.add_nodes_from(nodes)
    for e, ms in enc["edges"]:
        H.add_edge([dec_id(x) for x in ms], idx=dec_id(e))
    return H


def members_of(enc):
    return [(dec_id(e), [dec_id(x) for x in ms]) for e, ms in enc["edges"]]


def has_big_edge(enc):
    return any(len(ms) >= 2 for _, ms in enc["edges"])


SPECIAL = [
    ("hg", [1, 2, 3], [(0, [1, 2])]),
    ("hg", [1, 2, 3, 4], [(0, [1, 2, 3]), (1, [1, 2, 3]), (2, [3, 4]), (3, [4, 3]), (4, [4])]),
    ("hg", ["a", "b", "c", "d", "e"], [("x", ["a", "b", "c", "d"]), ("y", ["b", "c", "d"]), ("z", ["e"]), ("w", ["a", "e"])]),
    ("hg", [0, "a", 1, "b"], [(0, [0, "a"]), (1, ["a", 1, "b"]), (2, ["b", 0])]),
    ("hg", [5, 3, 9, -2, 0, 7], [(3, [5, 3, 9, -2, 0]), (1, [9, 7]), (2, [0, 7, 5]), (0, [3, -2, 7, 0])]),
    ("sc", [1, 2, 3, 4, 5], [(0, [1, 2, 3]), (1, [3, 4]), (2, [5])]),
    ("sc", [1, 2, 3, 4, 5, 6], [(0, [1, 2, 3, 4]), (1, [3, 4, 5]), (2, [5, 6])]),
    ("sc", ["a", "b", "c"], [(0, ["a", "b", "c"])]),
    ("sc", [0, "a", 1, "b", 2, "c", 3, "d"], [(0, [0, "a"]), (1, ["b", 1, "c"]), (2, [2, "d", 3, "a"]), (3, ["c", 3])]),
    ("sc", [7, 8, 9, 10], [(0, [7, 8]), (1, [8, 9]), (2, [7, 9])]),
    # tuple node labels and tuple edge IDs (encoded as JSON lists by core.enc_id)
    ("hg", [(0, 0), (0, 1), (1, 1), "a", 3, (2,)], [((0, 1), [(0, 0), (0, 1)]), ((1, 2), [(0, 1), (1, 1), "a"]), (5, [(1, 1), 3]),
                                                      ((7, "x"), [(0, 0), (2,), 3, "a"])]),
    ("sc", [(0, 0), (0, 1), (1, 1), (2, 2), 4], [(0, [(0, 0), (0, 1), (1, 1)]), (1, [(1, 1), (2, 2)])]),
]


def gen_net(rng, cls=None, need_big=True):
    cls = cls or ("sc" if rng.random() < 0.4 else "hg")
    for _ in range(50):
        if cls == "sc":
            nodes, edges = gen_hypergraph(rng, max_nodes=7, max_edges=4, max_size=4)
        else:
            nodes, edges = gen_hypergraph(rng, max_nodes=7, max_edges=7, max_size=rng.choice([3, 4, 5]))
        seen, es = set(), []
        for e, ms in edges:  # explicit edge IDs must be distinct
            if repr(e) not in seen and ms:
                seen.add(repr(e)); es.append((e, ms))
        if need_big and not any(len(ms) >= 2 for _, ms in es):
            if len(nodes) < 2:
                continue
            es.append(("big" if any(isinstance(e, str) for e, _ in es) else 1000, rng.sample(nodes, min(len(nodes), rng.randint(2, 3)))))
        return cls, nodes, es
    return "hg", [0, 1], [(0, [0, 1])]


def grid_pos(rng, nodes, collisions=False):
    """integer-grid positions, pairwise distinct unless `collisions` (only used where no polygon is read back:
    matplotlib absorbs a last vertex equal to the first into the closing vertex); encoded [[id, [x, y]]]"""
    side = 7
    pts = [(x, y) for x in range(-side, side + 1) for y in range(-side, side + 1)]
    if not collisions:
        chosen = rng.sample(pts, len(nodes))
    else:
        chosen = [rng.choice(pts[:9]) for _ in nodes]
    out = [[n, [int(p[0]), int(p[1])]] for n, p in zip(nodes, chosen)]
    if rng.random() < 0.7:
        rng.shuffle(out)   # the pos dict is a per-ID dict too: its key order need not be the order of H.nodes
    return out


def pos_dict(c):
    kind = c.get("pos_kind", "array")
    out = {}
    for k, (x, y) in list(c["pos"]) + list(c.get("extra_pos", [])):   # extra_pos: positions of IDs that are not nodes (a parent's layout)
        out[dec_id(k)] = (np.array([x, y], dtype=float) if kind == "array" else (x, y) if kind == "tuple" else [x, y])
    return out


# ----------------------------------------------------------------------------- what the property says (brute force)

def max_order_of(ms_list):
    return (max(len(ms) for ms in ms_list) - 1) if ms_list else 0


def eff_max_order(c):
    """the maximum order in force for a Hypergraph call (None/0 handling of draw vs draw_hyperedges)"""
    mo = c["max_order"]
    sizes = [ms for _, ms in c["H"]["edges"]]
    if c["which"] == "draw":
        return mo if mo else max_order_of(sizes)
    return max_order_of(sizes) if mo is None else mo


def poly_edges(c):
    m = eff_max_order(c)
    return [(e, ms) for e, ms in c["H"]["edges"] if 3 <= len(ms) <= m + 1]


def dyad_edges(c):
    return [(e, ms) for e, ms in c["H"]["edges"] if len(ms) == 2]


def sc_expected(c):
    """(two-node simplices, maximal simplices with >= 3 nodes of the max_order-truncated complex) as frozensets of JSON ids"""
    simp = {frozenset(json.dumps(x) for x in ms) for _, ms in c["H"]["edges"]}
    mo = c["max_order"]
    if c["which"] == "draw" and not mo:
        mo = max(len(s) for s in simp) - 1
    T = {s for s in simp if (not mo) or len(s) <= mo + 1}
    maxs = [s for s in T if not any(s < t for t in T)]
    return sorted((s for s in T if len(s) == 2), key=sorted), sorted((s for s in maxs if len(s) >= 3), key=sorted)


def num(v):
    v = float(v)
    return int(v) if math.isfinite(v) and v == int(v) else v


def pt(p):
    return [num(p[0]), num(p[1])]


def posmap(c):
    return {json.dumps(k): [x, y] for k, (x, y) in c["pos"]}


def expected_plan(c):
    """markers / segments / polygons demanded by the statement, from members and positions only"""
    P = posmap(c)
    exp = {}
    if c["which"] in ("draw", "draw_nodes"):
        exp["markers"] = [P[json.dumps(n)] for n in c["H"]["nodes"]]
    if c["which"] == "draw_nodes":
        return exp
    if c["cls"] == "hg":
        exp["segments"] = [sorted(P[json.dumps(x)] for x in ms) for _, ms in dyad_edges(c)]
        exp["polygons"] = [sorted(P[json.dumps(x)] for x in ms) for _, ms in poly_edges(c)]
        exp["ordered"] = True
    else:
        d, m = sc_expected(c)
        exp["segments"] = sorted(sorted(P[x] for x in s) for s in d)
        exp["polygons"] = sorted(sorted(P[x] for x in s) for s in m)
        exp["ordered"] = False
    return exp


# ----------------------------------------------------------------------------- style arguments

PALETTE = ["red", "blue", "green", "orange", "purple", "black"]
NODE_ARGS = ["node_size", "node_fc", "node_lw", "node_ec"]
DYAD_ARGS = ["dyad_color", "dyad_lw"]
EDGE_ARGS = ["edge_fc", "edge_ec"]
COLOUR_ARGS = ("node_fc", "node_ec", "dyad_color", "edge_fc", "edge_ec")
KINDS = ["scalar", "dict", "list", "array", "stat", "dictnum", "tuple", "range", "series", "none", "statall"]
FLAGS = ("rescale_sizes", "dyad_style", "alpha", "node_shape")
RESCALE = {"node_size": (5, 30), "node_lw": (0, 5), "dyad_lw": (1, 10)}   # documented defaults of `params`
ZERO_OK = ("node_size", "node_lw", "dyad_lw")    # scalar sizes / widths for which 0 is a legitimate value


def num_val(i):
    """pairwise distinct numbers >= 1 (not readable as RGB(A) values) for up to ten elements"""
    return 1 + (3 * i) % 5 + (0.5 if i % 2 else 0)


def col_val(i):
    return PALETTE[i % len(PALETTE)]


def element_ids(c, arg):
    """JSON ids of the elements a style argument refers to, in drawing-independent view order
    (nodes / two-node edges / qualifying larger edges); for a complex the drawn edges have internal ids: positions"""
    if arg.startswith("node"):
        return list(c["H"]["nodes"])
    if c["cls"] == "hg":
        return [e for e, _ in (dyad_edges(c) if arg.startswith("dyad") else poly_edges(c))]
    d, m = sc_expected(c)
    return list(range(len(d if arg.startswith("dyad") else m)))


def stat_raw(c, arg, ids):
    """what the stat handed over by style_value holds for the elements, from the members alone"""
    ms = {json.dumps(e): m for e, m in c["H"]["edges"]}
    if arg.startswith("node"):
        return [sum(1 for m in ms.values() if n in m) for n in ids]                      # degree
    if arg.startswith("dyad"):
        return [len(ms[json.dumps(e)]) - (0 if arg == "dyad_lw" else 1) for e in ids]     # size | order
    return [len(ms[json.dumps(e)]) - (0 if arg == "edge_fc" else 1) for e in ids]


def dict_items(c, arg):
    """the (id, value) pairs of a per-ID dict argument, in the dict's own order"""
    for a, items in c.get("dicts", []):
        if a == arg:
            return items
    kind = c["style"][arg]     # cases written before dicts were made explicit: element order
    ids = element_ids(c, arg)
    colour = arg in COLOUR_ARGS and kind == "dict"
    return [[i, col_val(k) if colour else num_val(k)] for k, i in enumerate(ids)]


def style_raw(c, arg):
    """the value the statement gives to each drawn element, in view order (None: one scalar for all)"""
    kind = c["style"][arg]
    ids = element_ids(c, arg)
    if kind in ("scalar", "none"):
        return None
    if c["cls"] == "sc" and not arg.startswith("node") and kind in ("dict", "dictnum"):
        return None   # keyed by the complex's own simplex IDs: judged by sc_per_id_fails
    if kind in ("dict", "dictnum"):
        D = {json.dumps(k): v for k, v in dict_items(c, arg)}
        return [D[json.dumps(i)] for i in ids]
    if kind in ("list", "tuple", "series"):
        return [col_val(k) if arg in COLOUR_ARGS else num_val(k) for k in range(len(ids))]
    if kind == "range":
        return [5 + k for k in range(len(ids))]
    if kind == "statall":   # an EdgeStat over ALL edges (attribute "w"): each drawn edge has the value stored under its own ID
        W = {json.dumps(e): w for e, w in c["edge_w"]}
        return [W[json.dumps(i)] for i in ids]
    if kind == "array":
        return [num_val(k) for k in range(len(ids))]
    if kind == "stat":
        return stat_raw(c, arg, ids) if (c["cls"] == "hg" or arg.startswith("node")) else None
    raise KeyError(kind)


def style_value(arg, kind, H, c):
    """materialise a style argument of the given shape (deterministic from the case)"""
    colour = arg in COLOUR_ARGS
    if kind == "scalar":
        if c.get("zero_scalars") and arg in ZERO_OK:
            return 0   # a size / width of zero is a valid value ("cannot contain negative values"): nothing visible, still drawn
        return {"node_size": 11, "node_lw": 2, "dyad_lw": 3}.get(arg, "tab:blue" if colour else 2)
    if kind in ("dict", "dictnum"):
        return {dec_id(k): v for k, v in dict_items(c, arg)}
    if kind == "none":
        return "none"    # matplotlib's name for "no colour": a single colour given as a string
    if kind == "list":
        return list(style_raw(c, arg))
    if kind == "tuple":
        return tuple(style_raw(c, arg))
    if kind == "range":
        return range(5, 5 + len(element_ids(c, arg)))
    if kind == "series":
        import pandas as pd
        return pd.Series(style_raw(c, arg))
    if kind == "statall":
        H.set_edge_attributes({dec_id(e): w for e, w in c["edge_w"]}, name="w")
        return H.edges.attrs("w")
    if kind == "array":
        return np.array(style_raw(c, arg), dtype=float)
    if kind == "stat":
        if arg.startswith("node"):
            return H.nodes.degree
        if arg.startswith("dyad"):
            return H.edges.filterby("order", 1).size if (arg == "dyad_lw" or not element_ids(c, arg)) else H.edges.order
        return H.edges.size if arg == "edge_fc" else H.edges.order
    raise KeyError(kind)


def gen_dicts(rng, c):
    """explicit per-ID dicts for the dict-valued arguments of the case: one entry per element — for edge arguments of a
    hypergraph sometimes one entry per edge of the network ("must contain (edge_id: value) pairs") —, in SHUFFLED order"""
    out = []
    for arg, kind in list(c["style"].items()):
        if kind not in ("dict", "dictnum"):
            continue
        ids = element_ids(c, arg)
        colour = arg in COLOUR_ARGS and kind == "dict"
        items = [[i, col_val(k) if colour else num_val(k)] for k, i in enumerate(ids)]
        if c["cls"] == "hg" and not arg.startswith("node") and ids and rng.random() < 0.4:
            have = {json.dumps(i) for i in ids}
            rest = [e for e, _ in c["H"]["edges"] if json.dumps(e) not in have]
            items += [[e, col_val(len(ids) + k) if colour else num_val(len(ids) + k)] for k, e in enumerate(rest)]
            if arg == "dyad_lw" and rest:
                c["style"]["rescale_sizes"] = False   # widths are rescaled between the min / max of what is handed over
        rng.shuffle(items)
        out.append([arg, items])
    return out


def gen_style(rng, c):
    """a JSON description {arg: kind} valid for the case (per-element shapes only where there are elements)"""
    st = {}
    which, cls = c["which"], c["cls"]
    n_nodes = len(c["H"]["nodes"])
    if cls == "hg":
        n_dy, n_po = len(dyad_edges(c)), len(poly_edges(c))
    else:
        d, m = sc_expected(c)
        n_dy, n_po = len(d), len(m)
    args = []
    if which in ("draw", "draw_nodes"):
        args += [(a, n_nodes) for a in NODE_ARGS]
    if which != "draw_nodes":
        args += [(a, n_dy) for a in DYAD_ARGS] + [(a, n_po) for a in EDGE_ARGS]
    for a, n in args:
        if rng.random() < 0.55:
            continue
        kinds = ["scalar"]
        if n >= 1:
            kinds += ["list", "array"] if a not in ("node_ec", "edge_ec") else ["list"]
            if cls == "hg" or a.startswith("node"):
                kinds += ["dict", "dict", "stat"] if a not in ("node_ec",) else []
                if a in ("node_fc", "dyad_color", "edge_fc"):
                    kinds += ["dictnum"]
            if a == "node_ec":
                kinds = ["scalar", "list"]
        elif cls == "hg" and a in ("dyad_lw", "dyad_color", "edge_fc") and rng.random() < 0.5:
            kinds = ["list", "dict", "stat"]  # per-element argument for zero elements (empty list / dict / stat)
        st[a] = rng.choice(kinds)
    if which in ("draw", "draw_hyperedges") and cls == "hg" and rng.random() < 0.15:
        st["edge_lw"] = "scalar"  # not a parameter of draw_simplices
    if rng.random() < 0.15:
        st["rescale_sizes"] = False
    if which != "draw_nodes" and rng.random() < 0.1:
        st["dyad_style"] = "dashed"
    if which != "draw_nodes" and rng.random() < 0.2:
        st["alpha"] = 0.8
    if which in ("draw", "draw_nodes") and rng.random() < 0.1:
        st["node_shape"] = "s"
    return st


def style_kwargs(c, H):
    kw = {}
    for a, kind in c.get("style", {}).items():
        if a in FLAGS:
            kw[a] = kind
        elif a == "edge_lw":
            kw[a] = 2
        else:
            kw[a] = style_value(a, kind, H, c)
    return kw


# ----------------------------------------------------------------------------- style read-back

def rgb(x):
    return [round(float(v), 6) for v in to_rgba(x)[:3]]


def interp(vals, arg, c):
    """`rescale_sizes`: linear interpolation between the min and max of the values handed over (documented)"""
    if not vals or not c.get("style", {}).get("rescale_sizes", True):
        return [float(v) for v in vals]
    lo, hi = RESCALE[arg]
    return [float(v) for v in np.interp(vals, [min(vals), max(vals)], [lo, hi])]


def render(c, arg, raw):
    """what the collections must hold for per-element raw values: ("num", floats) | ("rgb", rows)"""
    if arg in COLOUR_ARGS:
        if all(isinstance(v, str) for v in raw):
            return "rgb", [rgb(v) for v in raw]
        if len(raw) in (3, 4) and all(0 <= float(v) <= 1 for v in raw):
            raise ValueError("three or four numbers within [0, 1] are one RGB(A) colour for matplotlib (documented ambiguity)")
        return "array", [float(v) for v in raw]
    vals = interp(list(raw), arg, c)
    if arg == "node_size":
        vals = [v ** 2 for v in vals]
    return "num", vals


def draw_order(c, arg, vals):
    """per-element values from view order into drawing order (polygons: larger first, by the argsort of the case)"""
    if arg.startswith("edge") and c["cls"] == "hg" and "perm" in c:
        return [vals[i] for i in reversed(c["perm"])]
    return list(vals)


def read_styles(c, nc, dc, ec):
    """what matplotlib holds for the per-element style arguments of the case"""
    def arr(x):
        return None if x is None else [float(v) for v in np.ma.filled(np.ma.asarray(x, dtype=float), np.nan).ravel()]

    def rows(x):
        return [[round(float(v), 6) for v in row[:3]] for row in np.atleast_2d(np.asarray(x, dtype=float))] if len(x) else []
    out = {}
    for a, kind in c.get("style", {}).items():
        if a in FLAGS or a == "edge_lw" or kind in ("scalar", "none"):
            continue
        coll = nc if a.startswith("node") else dc if a.startswith("dyad") else ec
        if coll is None:
            continue
        if a == "node_size":
            out[a] = {"num": arr(coll.get_sizes())}
        elif a in ("node_lw", "dyad_lw"):
            out[a] = {"num": arr(np.atleast_1d(coll.get_linewidths()))}
        elif a in ("node_fc", "edge_fc"):
            out[a] = {"rgb": rows(coll.get_facecolors()), "array": arr(coll.get_array())}
        elif a in ("node_ec", "edge_ec"):
            out[a] = {"rgb": rows(coll.get_edgecolors())}
        elif a == "dyad_color":
            out[a] = {"rgb": rows(coll.get_colors()), "array": arr(coll.get_array())}
    return out


def close(a, b):
    return abs(a - b) <= 1e-6 * max(1.0, abs(a), abs(b))


def held_equals(kind, want, got, n):
    """does element k hold want[k] for every k (matplotlib cycles shorter property lists)"""
    g = got.get("rgb" if kind == "rgb" else "array" if kind == "array" else "num")
    if n == 0:
        return True
    if not g:
        return False
    if kind == "rgb":
        return all(all(close(x, y) for x, y in zip(want[k], g[k % len(g)])) for k in range(n))
    return all(close(want[k], g[k % len(g)]) for k in range(n))


def positional_reading(c, arg):
    """the values a per-ID dict yields when it is read in ITS OWN order (the signature of the known defect):
    colour arguments are first filtered to the plotted ids, the others are taken whole"""
    items = dict_items(c, arg)
    if arg in COLOUR_ARGS:
        have = {json.dumps(i) for i in element_ids(c, arg)}
        items = [p for p in items if json.dumps(p[0]) in have]
    return [v for _, v in items]


READ_BACK = Counter()   # (argument, shape) pairs whose per-element read-back was actually compared by the predicate


def style_fails(c, r, drawn=None, count=False):
    """per-element style arguments: element k must carry the value given for its id / position.
    `drawn` (arg -> per-element raw values in DRAWING order; only these arguments are checked) defaults to what the
    statement demands"""
    fails = []
    got_all = r.get("styles", {})
    for arg, kind in c.get("style", {}).items():
        if arg not in got_all or kind in ("scalar", "none"):
            continue
        if c["cls"] == "sc" and not arg.startswith("node"):
            continue  # drawn in an order that is not public: per-ID dicts are judged by sc_per_id_fails, the rest by success
        if arg in ("edge_ec", "node_ec") and kind == "stat":
            continue  # mapped to colours by hand (ScalarMappable): not read back
        if drawn is not None and arg not in drawn:
            continue
        raw = style_raw(c, arg)
        if raw is None:
            continue
        n = len(raw)
        try:
            k_, want = render(c, arg, draw_order(c, arg, raw) if drawn is None else drawn[arg])
        except (ValueError, TypeError):
            continue
        if count:
            READ_BACK[f"read-back:{arg}:{kind}"] += 1
        if held_equals(k_, want, got_all[arg], n):
            continue
        what = f"{arg} ({kind}): elements {element_ids(c, arg)} were given {raw}, i.e. in drawing order {want}; held {got_all[arg]}"
        if kind in ("dict", "dictnum"):
            sig = False
            try:
                kk, w2 = render(c, arg, positional_reading(c, arg))
                if arg.startswith("edge"):
                    w2 = draw_order(c, arg, w2) if len(w2) == n else None      # edge_fc[ids_sorted]
                else:
                    w2 = [w2[i % len(w2)] for i in range(n)] if w2 else None  # matplotlib cycles property lists
                sig = w2 is not None and kk == k_ and held_equals(kk, w2, got_all[arg], n)
            except (ValueError, TypeError, IndexError):
                sig = False
            fails.append(("per-id-style-by-position" if sig else "per-id-style-wrong-element", arg,
                          what + (f" = the dict's values in the dict's own order {dict_items(c, arg)}" if sig else "")))
        else:
            fails.append(("style-wrong-element", arg, what))
    return fails


def sc_per_id_fails(c, r):
    """per-ID dicts for the lines / polygons of a COMPLEX, keyed by the complex's own simplex IDs: the element drawn at the
    positions of simplex e must carry the value stored under e (the drawing order is not public: elements are identified by
    their distinct positions)"""
    if c["cls"] != "sc" or c.get("auto_pos"):
        return []
    P = posmap(c)
    by_pts = {json.dumps(sorted(P[json.dumps(x)] for x in ms)): e for e, ms in c["H"]["edges"]}
    fails = []
    for arg, kind in c.get("style", {}).items():
        if arg.startswith("node") or kind not in ("dict", "dictnum") or arg not in r.get("styles", {}):
            continue
        D = {json.dumps(k): v for k, v in dict_items(c, arg)}
        els = [sorted(s[:2]) for s in r["segments"]] if arg.startswith("dyad") else [sorted(p) for p in r["polygons"]]
        ids = [by_pts.get(json.dumps(el)) for el in els]
        if any(i is None or json.dumps(i) not in D for i in ids):
            continue   # a plan failure (reported by plan_fails), not a style failure
        raw = [D[json.dumps(i)] for i in ids]
        try:
            k_, want = render(c, arg, raw)
        except (ValueError, TypeError):
            continue
        READ_BACK[f"read-back:sc:{arg}:{kind}"] += 1
        if not held_equals(k_, want, r["styles"][arg], len(raw)):
            fails.append(("per-id-style-wrong-element", arg,
                          f"{arg} (dict keyed by the simplex IDs of the complex): the elements drawn for simplices {ids} were given {raw}; "
                          f"held {r['styles'][arg]}"))
    return fails


# ----------------------------------------------------------------------------- running the implementation

def exc_name(ex):
    return type(ex).__name__


def impl_draw(c, H=None):
    H = net_of(c) if H is None else H
    pos = None if c.get("auto_pos") else pos_dict(c)
    kw = style_kwargs(c, H)
    if c.get("hull"):
        kw["hull"] = True
    if c.get("labels"):
        if c["which"] in ("draw", "draw_nodes"):
            kw["node_labels"] = True
        if c["which"] != "draw_nodes":
            kw["hyperedge_labels"] = True
        if c.get("label_kw"):
            # documented keywords of the label functions, passed through **kwargs (one function at a time: draw() hands
            # its **kwargs to both label functions, each of which rejects the other's keywords)
            if c["which"] == "draw_nodes":
                kw.update(font_size_nodes=7, font_color_nodes="red")
            elif c["which"] in ("draw_hyperedges", "draw_simplices"):
                kw.update(font_size_edges=7, font_color_edges="red")
    which = c["which"]
    plt.close("all")
    if c.get("no_ax"):
        fig = ax = None          # the default: `ax=None` -> the current axes (created on demand)
    else:
        fig, ax = plt.subplots()
        kw["ax"] = ax
    try:
        with warnings.catch_warnings():
            warnings.simplefilter("ignore")
            if which == "draw":
                rax, (nc, dc, ec) = xgi.draw(H, pos=pos, max_order=c["max_order"], **kw)
            elif which == "draw_nodes":
                rax, nc = xgi.draw_nodes(H, pos=pos, **kw)
                dc = ec = None
            elif which == "draw_hyperedges":
                rax, (dc, ec) = xgi.draw_hyperedges(H, pos=pos, max_order=c["max_order"], **kw)
                nc = None
            elif which == "draw_simplices":
                rax, (dc, ec) = xgi.draw_simplices(H, pos=pos, max_order=c["max_order"], **kw)
                nc = None
            else:
                raise AssertionError(which)
            same_ax = (rax is plt.gca() and len(plt.get_fignums()) == 1) if ax is None else (rax is ax)
            ax = rax
            ax.figure.canvas.draw()  # rendering must succeed as well
        r = {"out": "ok", "ncoll": len(ax.collections), "same_ax": bool(same_ax),
             "attached": all(x is None or x in ax.collections for x in (nc, dc, ec))}
        if nc is not None:
            r["markers"] = [pt(p) for p in np.asarray(nc.get_offsets(), dtype=float)]
        if dc is not None:
            r["segments"] = [[pt(s[0]), pt(s[-1])] + ([] if len(s) == 2 else ["extra-points"]) for s in dc.get_segments()]
            r["polygons"] = []
            for path in ec.get_paths():
                v = [pt(p) for p in path.vertices]
                if len(v) >= 2 and v[0] == v[-1]:
                    v = v[:-1]  # matplotlib closes the path with a copy of the first vertex (positions are distinct)
                r["polygons"].append(v)
        r["styles"] = read_styles(c, nc, dc, ec)
        return r
    except Exception as ex:  # noqa
        return {"out": "err:" + exc_name(ex), "msg": str(ex)[:200]}
    finally:
        plt.close("all")


LAYOUT_FAMILY = {
    "random_layout": "random", "pairwise_spring_layout": "pairwise", "barycenter_spring_layout": "barycenter",
    "weighted_barycenter_spring_layout": "barycenter", "barycenter_kamada_kawai_layout": "barycenter",
    "bipartite_spring_layout": "bipartite", "circular_layout": "circular", "spiral_layout": "circular",
}


def layout_functions():
    """every public *_layout callable of xgi.drawing.layout (so that new ones are included)"""
    names = set(getattr(L, "__all__", [])) | {n for n in dir(L) if not n.startswith("_")}
    out = []
    for n in sorted(names):
        f = getattr(L, n, None)
        if n.endswith("_layout") and callable(f) and getattr(f, "__module__", "") == L.__name__:
            out.append(n)
    return out


def layout_option_variants(rng, name):
    """option dicts valid for the function (by signature)"""
    params = inspect.signature(getattr(L, name)).parameters
    var_kw = any(p.kind == p.VAR_KEYWORD for p in params.values())
    opts = {}
    if "seed" in params and rng.random() < 0.7:
        opts["seed"] = rng.randint(0, 10 ** 6)
        if "RandomState" in (getattr(L, name).__doc__ or "") and rng.random() < 0.3:
            opts["seed"] = {"$randomstate": opts["seed"] % 1000}   # documented: "seed : int, RandomState instance or None"
    if "return_phantom_graph" in params and rng.random() < 0.5:
        opts["return_phantom_graph"] = True
    if "center" in params and rng.random() < 0.4:
        opts["center"] = [rng.randint(-3, 3), rng.randint(-3, 3)]
    if "radius" in params and rng.random() < 0.4:
        opts["radius"] = rng.choice([0.5, 2, 10])
    if "resolution" in params and rng.random() < 0.4:
        opts["resolution"] = rng.choice([0.1, 0.8, 2.0])
    if "equidistant" in params and rng.random() < 0.5:
        opts["equidistant"] = True
    if "k" in params and rng.random() < 0.3:
        opts["k"] = rng.choice([0.3, 1.0])
    if var_kw and "spring" in name and rng.random() < 0.3:
        opts["iterations"] = rng.choice([1, 5, 80])
    return opts


def layout_opts(c):
    """the keyword arguments of a layout case; {"$randomstate": n} stands for np.random.RandomState(n)"""
    opts = dict(c.get("opts", {}))
    if isinstance(opts.get("seed"), dict):
        opts["seed"] = np.random.RandomState(opts["seed"]["$randomstate"])
    return opts


def impl_layout(c, H=None):
    H = net_of(c) if H is None else H
    f = getattr(L, c["fn"])
    try:
        with warnings.catch_warnings():
            warnings.simplefilter("ignore")
            res = f(H, **layout_opts(c))
    except Exception as ex:  # noqa
        return {"out": "err:" + exc_name(ex), "msg": str(ex)[:200]}
    G = None
    epos = None
    if c.get("opts", {}).get("return_phantom_graph"):
        if not (isinstance(res, tuple) and len(res) == 2 and isinstance(res[1], nx.Graph)):
            return {"out": "ok", "shape": "no-phantom-graph", "nodes": [], "edges": None, "phantom": None, "bad": []}
        res, G = res
    if isinstance(res, tuple) and len(res) == 2 and all(isinstance(x, dict) for x in res):
        res, epos = res
    if not isinstance(res, dict):
        return {"out": "ok", "shape": "not-a-dict:" + type(res).__name__, "nodes": [], "edges": None, "phantom": None, "bad": []}
    bad = []
    for d in (res, epos or {}):
        for k, v in d.items():
            try:
                a = np.asarray(v, dtype=float)
                if a.shape != (2,):
                    bad.append(["shape", repr(k), str(a.shape)])
                elif not np.all(np.isfinite(a)):
                    bad.append(["nonfinite", repr(k), str(a)])
            except Exception as ex:  # noqa
                bad.append(["not-numeric", repr(k), exc_name(ex)])

    def keys(d):
        try:
            return [enc_id(k) for k in d]
        except ValueError:
            return ["$outside:" + repr(k) for k in d]
    r = {"out": "ok", "shape": "dict", "nodes": keys(res), "edges": None if epos is None else keys(epos),
         "phantom": None, "bad": bad}
    if G is not None:
        r["phantom"] = keys(G.nodes)
    return r


def impl_edge_positions(c, H=None):
    H = net_of(c) if H is None else H
    try:
        with warnings.catch_warnings():
            warnings.simplefilter("ignore")
            ep = xgi.edge_positions_from_barycenters(H, pos_dict(c))
    except Exception as ex:  # noqa
        return {"out": "err:" + exc_name(ex), "msg": str(ex)[:200]}
    out = []
    for k, v in ep.items():
        a = np.asarray(v, dtype=float)
        out.append([enc_id(k), [float(a[0]), float(a[1])] if a.shape == (2,) else "shape:" + str(a.shape)])
    return {"out": "ok", "pos": out}


def impl(c, H=None):
    return {"draw": impl_draw, "layout_keys": impl_layout, "edge_positions": impl_edge_positions}[c["f"]](c, H)


# ----------------------------------------------------------------------------- the property predicate

def site_of(c):
    return c["which"] if c["f"] == "draw" else c["fn"] if c["f"] == "layout_keys" else "edge_positions_from_barycenters"


HULL_RADIUS = 0.05   # default `radius` of draw_hyperedges(hull=True)


def hull_problem(V, M, radius=HULL_RADIUS):
    """V: vertices of a convex polygon (either orientation), M: the members' positions.  The hull of an edge is the convex
    hull of the discs of `radius` around its members: every member lies inside with (almost) that margin, and every hull
    vertex lies on one of the discs.  Returns None or (class, text)."""
    if len(V) < 3:
        return "hull-misses-member", f"hull with {len(V)} vertices"
    area2 = sum(V[i][0] * V[(i + 1) % len(V)][1] - V[(i + 1) % len(V)][0] * V[i][1] for i in range(len(V)))
    sgn = 1.0 if area2 >= 0 else -1.0
    for P in M:
        for i in range(len(V)):
            A, B = V[i], V[(i + 1) % len(V)]
            L = math.hypot(B[0] - A[0], B[1] - A[1])
            if L == 0:
                continue
            d = sgn * ((B[0] - A[0]) * (P[1] - A[1]) - (B[1] - A[1]) * (P[0] - A[0])) / L
            if d < 0.9 * radius:
                return "hull-misses-member", f"member position {P} is not enclosed (distance {d:.4f} to the hull side {A}-{B})"
    for v in V:
        if min(math.hypot(v[0] - P[0], v[1] - P[1]) for P in M) > radius * (1 + 1e-6) + 1e-9:
            return "hull-encloses-more", f"hull vertex {v} is farther than the radius from every member position {M}"
    return None


def plan_fails(c, r, exp):
    """markers / lines / polygons read back vs. the plan demanded by the statement"""
    fails = []
    if "markers" in exp:
        got = r.get("markers")
        if got is None or sorted(got) != sorted(exp["markers"]):
            fails.append(("marker-missing", f"markers {got} but node positions {exp['markers']}"))
        elif got != exp["markers"]:
            fails.append(("marker-order", f"markers {got} are not in node order {exp['markers']}"))
    if "segments" in exp:
        got = [sorted(s[:2]) for s in r["segments"]]
        if any(len(s) != 2 for s in r["segments"]):
            fails.append(("segment-wrong-endpoints", f"a line has more than two points: {r['segments']}"))
        elif len(got) != len(exp["segments"]):
            fails.append(("segment-count", f"{len(got)} lines for {len(exp['segments'])} two-node edges: {got} vs {exp['segments']}"))
        elif sorted(got) != sorted(exp["segments"]):
            fails.append(("segment-wrong-endpoints", f"lines {got}, two-node edges join {exp['segments']}"))
        elif exp["ordered"] and got != exp["segments"]:
            fails.append(("segment-order", f"lines {got} are not in edge order {exp['segments']}"))
        if c.get("hull"):
            want = [exp["polygons"][i] for i in reversed(c["perm"])]
            if len(r["polygons"]) != len(want):
                fails.append(("polygon-count", f"{len(r['polygons'])} hulls for {len(want)} qualifying edges"))
            else:
                for V, M in zip(r["polygons"], want):
                    pb = hull_problem(V, M)
                    if pb:
                        fails.append((pb[0], f"hull of the edge at {M}: {pb[1]}"))
                        break
            return fails
        gotp = [sorted(p) for p in r["polygons"]]
        if len(gotp) != len(exp["polygons"]):
            fails.append(("polygon-count", f"{len(gotp)} polygons for {len(exp['polygons'])} qualifying edges: {gotp} vs {exp['polygons']}"))
        elif sorted(gotp) != sorted(exp["polygons"]):
            fails.append(("polygon-vertex-set", f"polygons {gotp}, members' positions {exp['polygons']}"))
        else:
            if any(len(a) < len(b) for a, b in zip(gotp, gotp[1:])):
                fails.append(("polygon-order", f"polygon sizes {[len(p) for p in gotp]} are not non-increasing"))
            if exp["ordered"] and "perm" in c:
                want = [exp["polygons"][i] for i in reversed(c["perm"])]
                if gotp != want:
                    fails.append(("polygon-order", f"polygons {gotp} are not the edges in argsort-by-size order {want}"))
    return fails


def finite_pt(p):
    return all(isinstance(v, (int, float)) and math.isfinite(v) for v in p)


def auto_pos_fails(c, r):
    """pos=None: the layout is the implementation's own; what is drawn must still be the network — one finite marker per
    node, and (taking the markers as the positions, k-th marker = k-th node) exactly the lines and polygons of the plan"""
    nodes = c["H"]["nodes"]
    pts = (r.get("markers") or []) + [p for s in r.get("segments", []) for p in s[:2]] + [p for poly in r.get("polygons", []) for p in poly]
    if not all(finite_pt(p) for p in pts):
        return [("auto-pos-nonfinite", f"non-finite coordinate among {pts}")]
    if "markers" in r:
        if len(r["markers"]) != len(nodes):
            return [("marker-missing", f"{len(r['markers'])} markers for {len(nodes)} nodes")]
        c2 = dict(c, pos=[[n, list(m)] for n, m in zip(nodes, r["markers"])])
        return plan_fails(c2, r, expected_plan(c2))
    # draw_hyperedges / draw_simplices alone: the positions are not observable; counts and polygon sizes are
    c2 = dict(c, pos=[[n, [i, 0]] for i, n in enumerate(nodes)])
    exp = expected_plan(c2)
    fails = []
    if len(r["segments"]) != len(exp["segments"]) or any(len(s) != 2 for s in r["segments"]):
        fails.append(("segment-count", f"{len(r['segments'])} lines for {len(exp['segments'])} two-node edges"))
    if sorted(len(p) for p in r["polygons"]) != sorted(len(p) for p in exp["polygons"]):
        fails.append(("polygon-count", f"polygon sizes {[len(p) for p in r['polygons']]} for qualifying edges of sizes {[len(p) for p in exp['polygons']]}"))
    return fails


def cause_suffix(c):
    """a call that raises is classed by the exception AND by the documented input shapes present in the case (read from the
    case itself, so that it survives shrinking): one failure class per root cause"""
    tags = set()
    for a, k in c.get("style", {}).items():
        if k in ("tuple", "range", "series"):
            tags.add("sequence-argument")
        elif k == "none":
            tags.add("colour-none")
        elif k == "statall":
            tags.add("stat-over-all-edges")
        elif a == "node_ec" and k in ("dict", "dictnum", "stat"):
            tags.add("node_ec-per-id")
        elif c["cls"] == "sc" and a in DYAD_ARGS + EDGE_ARGS and k in ("dict", "dictnum", "stat"):
            tags.add("complex-per-id-edge-style")
    if c.get("subclass"):
        tags.add("subclass-instance")
    if isinstance(c.get("opts", {}).get("seed"), dict):
        tags.add("randomstate-seed")
    return "".join(":" + t for t in sorted(tags))


def pred(c, r):
    fails = []
    if c["f"] == "draw":
        if r["out"] != "ok":
            return [("draw-raised:" + r["out"][4:] + cause_suffix(c), f"{c['which']} raised {r['out'][4:]}: {r.get('msg')}")]
        want_coll = {"draw": 3, "draw_nodes": 1}.get(c["which"], 2)
        if r["ncoll"] != want_coll or not r["attached"] or not r.get("same_ax", True):
            fails.append(("collections", f"{r['ncoll']} collections on the axis (expected {want_coll}), returned ones attached: {r['attached']}, "
                                         f"drawn on the given / current axes: {r.get('same_ax')}"))
        if c.get("auto_pos"):
            fails += auto_pos_fails(c, r)
        else:
            fails += plan_fails(c, r, expected_plan(c))
        fails += [(k, d) for k, _, d in style_fails(c, r, count=True)]
        fails += [(k, d) for k, _, d in sc_per_id_fails(c, r)]
        return fails
    if c["f"] == "layout_keys":
        if r["out"] != "ok":
            return [("layout-raised:" + r["out"][4:] + cause_suffix(c), f"{c['fn']}({c['cls']}) raised {r['out'][4:]}: {r.get('msg')}")]
        if r["shape"] != "dict":
            return [("layout-return-shape", r["shape"])]
        nodes = c["H"]["nodes"]
        if sorted(map(json.dumps, r["nodes"])) != sorted(map(json.dumps, nodes)):
            fails.append(("layout-keys", f"keys {r['nodes']} but nodes {nodes}"))
        want_edges = c.get("family") == "bipartite"
        if want_edges:
            eids = [e for e, _ in c["H"]["edges"]]
            if r["edges"] is None or sorted(map(json.dumps, r["edges"])) != sorted(map(json.dumps, eids)):
                fails.append(("layout-keys", f"edge keys {r['edges']} but edges {eids}"))
        elif r["edges"] is not None and c.get("family"):
            fails.append(("layout-keys", f"unexpected second dict with keys {r['edges']}"))
        for kind, k, what in r["bad"]:
            fails.append(("layout-position-" + kind, f"position of {k}: {what}"))
            break
        if r["phantom"] is not None and not c.get("np_labels"):
            ms = hyper_members(c)
            k = sum(1 for m in ms if len(m) >= 2)
            extra = [x for x in r["phantom"] if json.dumps(x) not in set(map(json.dumps, nodes))]
            if len(r["phantom"]) != len(nodes) + k or len(extra) != k or len(set(map(json.dumps, extra))) != k:
                fails.append(("phantom-collision", f"phantom graph nodes {r['phantom']} for nodes {nodes} and {k} edges with >= 2 members"))
        return fails
    if c["f"] == "edge_positions":
        if r["out"] != "ok":
            return [("edgepos-raised:" + r["out"][4:], str(r.get("msg")))]
        P = posmap(c)
        eids = [e for e, _ in c["H"]["edges"]]
        if [k for k, _ in r["pos"]] != eids:
            fails.append(("edgepos-keys", f"keys {[k for k, _ in r['pos']]} but edges {eids}"))
            return fails
        for (e, ms), (_, v) in zip(c["H"]["edges"], r["pos"]):
            want = [Fraction(sum(P[json.dumps(x)][i] for x in ms), len(ms)) for i in (0, 1)]
            if not (isinstance(v, list) and all(abs(v[i] - float(want[i])) <= 1e-12 * max(1, abs(want[i])) for i in (0, 1))):
                fails.append(("edgepos-not-mean", f"edge {e!r}: {v}, mean of members' positions {[str(w) for w in want]}"))
                break
        return fails
    return fails


def hyper_members(c):
    """member sets of the hypergraph a layout works on (maximal simplices for a complex)"""
    ms = [frozenset(json.dumps(x) for x in m) for _, m in c["H"]["edges"]]
    if c["cls"] == "sc":
        ms = [s for s in set(ms) if not any(s < t for t in ms)]
    return ms


# ----------------------------------------------------------------------------- comparison with the model

def frac(v):
    return Fraction(v)


def mpt(p):
    return [num(frac(p[0])) if frac(p[0]).denominator == 1 else str(frac(p[0])), num(frac(p[1])) if frac(p[1]).denominator == 1 else str(frac(p[1]))]


def compare(c, r, m):
    if r["out"] != "ok":
        # every generated call is inside the domain where the statement demands success: the predicate has
        # reported the exception as a concrete violation; the model describes the call that succeeds
        return True
    if m.get("out") != "ok":
        return False
    if c["f"] == "layout_keys":
        if r["nodes"] != m["nodes"]:
            return False
        if (r["edges"] is None) != (m["edges"] is None) or (r["edges"] is not None and r["edges"] != m["edges"]):
            return False
        if r["phantom"] is not None:
            if m["phantom"] is None or r["phantom"] != m["nodes"] + m["phantom"]:
                return False
        return True
    if c["f"] == "edge_positions":
        if [k for k, _ in r["pos"]] != [k for k, _ in m["pos"]]:
            return False
        for (_, v), (_, w) in zip(r["pos"], m["pos"]):
            if w is None or not isinstance(v, list):
                return False
            if any(abs(v[i] - float(Fraction(w[i]))) > 1e-9 * max(1.0, abs(Fraction(w[i]))) for i in (0, 1)):
                return False
        return True
    if not model_styles_agree(c, r, m):
        return False
    if c.get("auto_pos"):
        return True   # the positions are the implementation's own (random layout): the predicate has checked the plan
    if m["markers"] is not None or "markers" in r:
        if m["markers"] is None or r.get("markers") != [mpt(p) for p in m["markers"]]:
            return False
    if c["which"] == "draw_nodes":
        return True
    segs = [sorted([mpt(a), mpt(b)]) for _, _, a, b in m["segments"]]
    got = [sorted(s[:2]) for s in r["segments"]]
    polys = [[mpt(p) for p in vs] for _, _, vs, _ in m["polygons"]]
    strict = [s for _, _, _, s in m["polygons"]]
    gotp = r["polygons"]
    if len(gotp) != len(polys) or len(got) != len(segs):
        return False
    if c.get("hull"):
        # the k-th hull encloses the members of the model's k-th polygon (and nothing away from them)
        return got == segs and all(hull_problem(g, [[float(Fraction(x)) for x in p] for p in vs]) is None
                                   for g, vs in zip(gotp, polys))
    if c["cls"] == "hg":
        if got != segs:
            return False
        for g, p, s in zip(gotp, polys, strict):
            if sorted(g) != sorted(p) or (s and g != p):
                return False
        return True
    if sorted(got) != sorted(segs):
        return False
    if sorted(sorted(g) for g in gotp) != sorted(sorted(p) for p in polys):
        return False
    if [len(g) for g in gotp] != [len(p) for p in polys]:
        return False
    seqs = {}
    for p, s in zip(polys, strict):
        if s:
            seqs.setdefault(json.dumps(sorted(p)), []).append(p)
    for g in gotp:
        k = json.dumps(sorted(g))
        if k in seqs and g not in seqs[k]:
            return False
    return True


def sval(v):
    """a style value of the model: int | "p/q" | {"col": name}"""
    if isinstance(v, dict):
        return v["col"]
    return float(Fraction(v))


def model_styles_agree(c, r, m):
    """per-ID dicts: the model's value for the k-th marker / line / polygon (a) is the value the statement gives to that
    element and (b), rendered, is what matplotlib holds — except where the predicate has already reported that the
    implementation styles the wrong element (the model describes the repaired look-up by id)"""
    ms = {a: [sval(v) for v in vals] for a, vals in m.get("styles", [])}
    if sorted(ms) != sorted(a for a, _ in c.get("dicts", [])):
        return False
    for arg, vals in ms.items():
        want = draw_order(c, arg, style_raw(c, arg))
        if len(vals) != len(want) or any((a != b) if isinstance(a, str) or isinstance(b, str) else not close(a, b) for a, b in zip(vals, want)):
            return False
    reported = {a for _, a, _ in style_fails(c, r)}
    return all(a in reported for _, a, _ in style_fails(c, r, drawn=ms))


# ----------------------------------------------------------------------------- case generation

MAX_ORDERS = [None, None, None, 0, 1, 2, 3, 6]


def draw_case(rng, cls, enc, which=None, hull=None, no_ax=None, auto_pos=None):
    if which is None:
        which = rng.choice(["draw", "draw", "draw_nodes", "draw_hyperedges" if cls == "hg" else "draw_simplices"])
    c = {"f": "draw", "which": which, "cls": cls, "H": enc,
         "pos": grid_pos(rng, enc["nodes"], collisions=(which == "draw_nodes" and rng.random() < 0.3)),
         "pos_kind": rng.choice(["array", "array", "tuple", "list"]),
         "max_order": rng.choice(MAX_ORDERS) if which != "draw_nodes" else None}
    if cls == "sc" and which == "draw_simplices" and c["max_order"] == 0:
        c["max_order"] = None  # draw_simplices(max_order=0) is `if max_order:` falsy: same call
    if cls == "hg" and which != "draw_nodes":
        c["perm"] = [int(i) for i in np.argsort([len(ms) for _, ms in poly_edges(c)])]
        if (hull if hull is not None else rng.random() < 0.12) and which in ("draw", "draw_hyperedges"):
            c["hull"] = True     # read back: one hull per qualifying edge around exactly its members
    c["style"] = gen_style(rng, c)
    dicts = gen_dicts(rng, c)
    if dicts:
        c["dicts"] = dicts
    if any(c["style"].get(a) == "scalar" for a in ZERO_OK) and rng.random() < 0.35:
        c["zero_scalars"] = True   # the scalar sizes / widths of the case are 0
    r = rng.random()
    if (auto_pos if auto_pos is not None else r < 0.06) and "hull" not in c:
        c["auto_pos"] = True    # pos=None: the default barycenter spring layout; the markers define the positions
    elif r < 0.13 and "hull" not in c:
        c["labels"] = True      # node_labels / hyperedge_labels (success, and the plan is unchanged)
        if which != "draw" and rng.random() < 0.6:
            c["label_kw"] = True  # with font_size_* / font_color_* keywords for the label function
    if no_ax if no_ax is not None else rng.random() < 0.2:
        c["no_ax"] = True       # ax=None: the current axes (the default of every draw function)
    if not c.get("auto_pos") and rng.random() < 0.15:
        # the layout of a larger (parent) network: positions also for IDs that are not nodes of the drawn network
        have = {json.dumps(n) for n in enc["nodes"]}
        extra = [k for k in ("zz-not-a-node", 10 ** 6 + 1, [9, 9], -77) if json.dumps(k) not in have]
        c["extra_pos"] = [[k, [rng.randint(-9, 9), rng.randint(-9, 9)]] for k in rng.sample(extra, rng.randint(1, len(extra)))]
    return c


# documented shapes of the style arguments beyond scalar / list / ndarray / dict / stat-of-the-drawn-elements.  Each case of
# this family carries exactly ONE such argument (and rescale_sizes=False), so that a failure names its cause.
NUMERIC_ARGS = ("node_size", "node_lw", "dyad_lw")


def exotic_options(c, n_nodes, n_dy, n_po):
    """(arg, kind) pairs admissible for the case"""
    which, cls = c["which"], c["cls"]
    out = []
    counts = {}
    if which in ("draw", "draw_nodes"):
        counts.update({a: n_nodes for a in NODE_ARGS})
    if which != "draw_nodes":
        counts.update({"dyad_color": n_dy, "dyad_lw": n_dy, "edge_fc": n_po, "edge_ec": n_po})
    for a, n in counts.items():
        if a in COLOUR_ARGS:
            out.append((a, "none"))
        if n >= 1:
            out += [(a, "tuple"), (a, "series")] + ([(a, "range")] if a in NUMERIC_ARGS else [])
    if which == "draw":
        out += [("node_ec", "dict"), ("node_ec", "stat")]      # documented in draw() only
    if cls == "hg" and which != "draw_nodes" and n_dy >= 1:
        out += [("dyad_lw", "statall")] * 3
    if cls == "sc" and which != "draw_nodes":
        # per-ID / stat-valued edge arguments of a complex, keyed by the complex's own simplex IDs
        out += [(a, "dict") for a in ("edge_fc", "dyad_color", "dyad_lw")] * 2 + [("edge_fc", "stat"), ("dyad_color", "stat")]
    return out


def string_edge_ids(enc):
    return {"nodes": enc["nodes"], "edges": [[f"f{k}", ms] for k, (_, ms) in enumerate(enc["edges"])]}


def exotic_case(rng, cls, enc, which=None, pick=None):
    if which is None:
        which = rng.choice(["draw", "draw", "draw_nodes", "draw_hyperedges" if cls == "hg" else "draw_simplices"])
    c = {"f": "draw", "which": which, "cls": cls, "H": enc, "pos": grid_pos(rng, enc["nodes"]),
         "pos_kind": rng.choice(["array", "tuple", "list"]), "max_order": None, "style": {}}
    if cls == "hg" and which != "draw_nodes":
        c["perm"] = [int(i) for i in np.argsort([len(ms) for _, ms in poly_edges(c)])]
        n_dy, n_po = len(dyad_edges(c)), len(poly_edges(c))
    elif cls == "sc":
        d, m = sc_expected(c)
        n_dy, n_po = len(d), len(m)
    else:
        n_dy = n_po = 0
    opts = exotic_options(c, len(enc["nodes"]), n_dy, n_po)
    if pick is not None:
        opts = [o for o in opts if o == tuple(pick)] or opts
    arg, kind = rng.choice(opts)
    c["style"] = {arg: kind, "rescale_sizes": False}
    c["exotic"] = f"{arg}:{kind}"
    if kind == "statall":
        c["edge_w"] = [[e, num_val(k + 2)] for k, (e, _) in enumerate(enc["edges"])]
    if kind == "dict":
        colour = arg in COLOUR_ARGS
        if arg.startswith("node"):
            items = [[n, col_val(k)] for k, n in enumerate(enc["nodes"])]
        else:   # a complex: one entry per simplex, keyed by the simplex IDs
            items = [[e, col_val(k) if colour else num_val(k)] for k, (e, _) in enumerate(enc["edges"])]
        rng.shuffle(items)
        c["dicts"] = [[arg, items]]
    return c


# ----------------------------------------------------------------------------- held objects: state across calls

def canon_net(enc):
    return [[json.dumps(n) for n in enc["nodes"]], [[json.dumps(e), sorted(json.dumps(x) for x in ms)] for e, ms in enc["edges"]]]


def apply_edits(H, cls, edits):
    for op in edits:
        k = op[0]
        if k == "remove_node":
            H.remove_node(dec_id(op[1]))
        elif k == "add_node":
            H.add_node(dec_id(op[1]))
        elif k == "remove_edge":
            (H.remove_simplex_id if cls == "sc" else H.remove_edge)(dec_id(op[1]))
        elif k == "add_edge":
            if cls == "sc":
                H.add_simplex([dec_id(x) for x in op[1]])
            else:
                H.add_edge([dec_id(x) for x in op[1]], idx=dec_id(op[2]))
        else:
            raise KeyError(k)


def gen_edits(rng, cls, enc, preserving):
    """JSON edit scripts (public mutators only).  preserving: the node count and (hypergraph) the edge count are the same
    afterwards although the node SET / edge SET changed — remove a node and add an edge bringing a new node; remove an edge
    and add another one"""
    nodes = list(enc["nodes"])
    used = {json.dumps(x) for _, ms in enc["edges"] for x in ms}
    new_n, new_e = "new", "new-edge"
    edits = []
    if cls == "hg":
        victim = rng.choice(nodes)
        rest = [n for n in nodes if json.dumps(n) != json.dumps(victim)]
        if preserving:
            edits.append(["remove_node", victim])
            edits.append(["add_edge", [rng.choice(rest), new_n] if rest else [new_n, "new2"], new_e])
            if enc["edges"] and rng.random() < 0.6:
                e0 = rng.choice(enc["edges"])[0]
                edits.append(["remove_edge", e0])
                edits.append(["add_edge", rng.sample(rest + [new_n], min(len(rest) + 1, rng.randint(2, 3))), "new-edge-2"])
        else:
            kind = rng.choice(["add", "remove_node", "remove_edge", "grow"])
            if kind == "add":
                edits.append(["add_edge", [rng.choice(nodes), new_n, "new2"], new_e])
            elif kind == "remove_node":
                edits.append(["remove_node", victim])
            elif kind == "remove_edge" and enc["edges"]:
                edits.append(["remove_edge", rng.choice(enc["edges"])[0]])
            else:
                edits += [["add_node", new_n], ["add_edge", [rng.choice(nodes), new_n], new_e]]
    else:
        iso = [n for n in nodes if json.dumps(n) not in used]
        if preserving and iso:
            edits.append(["remove_node", rng.choice(iso)])      # an isolated node: the complex stays closed
            edits.append(["add_edge", [rng.choice([n for n in nodes if json.dumps(n) in used] or nodes), new_n]])
        else:
            kind = rng.choice(["add", "remove_edge", "grow"])
            maximal = [e for e, ms in enc["edges"] if not any(set(map(json.dumps, ms)) < set(map(json.dumps, m2)) for _, m2 in enc["edges"])]
            if kind == "remove_edge" and len(maximal) > 1:
                edits.append(["remove_edge", rng.choice(maximal)])
            elif kind == "add":
                edits.append(["add_edge", [rng.choice(nodes), new_n, "new2"]])
            else:
                edits += [["add_node", new_n], ["add_edge", [rng.choice(nodes), new_n]]]
    return edits


def held_case(rng, cls, enc, names, preserving):
    """one network OBJECT: a call, an edit, then two more calls on the same object (same options, other options).  Each of
    the later results must satisfy the predicate of a fresh rebuild of the edited network."""
    for _ in range(20):
        edits = gen_edits(rng, cls, enc, preserving)
        H = build(cls, enc)
        try:
            with warnings.catch_warnings():
                warnings.simplefilter("ignore")
                apply_edits(H, cls, edits)
        except Exception:  # noqa
            continue
        enc2 = enc_real(H)
        if edits and has_big_edge(enc2):
            break
    else:
        return None
    if rng.random() < 0.65:
        which = rng.choice(["draw", "draw", "draw_nodes", "draw_hyperedges" if cls == "hg" else "draw_simplices"])
        auto = rng.random() < 0.6
        plain = lambda e: dict(draw_case(rng, cls, e, which=which, hull=False, auto_pos=auto, no_ax=False), style={}, max_order=None, labels=False)  # noqa
        first = plain(enc)
        same = plain(enc2)
        for c_ in (first, same):
            c_.pop("dicts", None), c_.pop("zero_scalars", None), c_.pop("label_kw", None)
            if "perm" in c_:
                c_["perm"] = [int(i) for i in np.argsort([len(ms) for _, ms in poly_edges(c_)])]
        other = draw_case(rng, cls, enc2, hull=False, auto_pos=(not auto if rng.random() < 0.5 else auto))
    else:
        fn = rng.choice([n for n in names if "kamada" not in n] or names)
        opts = layout_option_variants(rng, fn)
        first, same = [dict(layout_cases(rng, cls, e, [fn])[0], opts=opts) for e in (enc, enc2)]
        other = layout_cases(rng, cls, enc2, [rng.choice([n for n in names if "kamada" not in n] or names)])[0]
    return {"f": "held", "cls": cls, "H": enc, "edits": edits, "preserving": bool(preserving), "first": first, "seconds": [same, other]}


def impl_held(c):
    """-> list of (second case, result on the held object, result on a fresh rebuild) | {"out": ...}"""
    H = net_of(c)
    first = dict(c["first"], H=c["H"], cls=c["cls"])
    impl(first, H)
    try:
        with warnings.catch_warnings():
            warnings.simplefilter("ignore")
            apply_edits(H, c["cls"], c["edits"])
    except Exception as ex:  # noqa
        return {"out": "edit-raised:" + exc_name(ex)}       # the mutators are the subject of C01-C05
    out = []
    for second in c["seconds"]:
        if canon_net(enc_real(H)) != canon_net(second["H"]):
            return {"out": "edit-differs"}                  # the edited network is not the recorded one: C01-C05 again
        out.append((second, impl(second, H), impl(second)))
    return {"out": "ok", "runs": out}


def held_report(ctx, c):
    res = impl_held(c)
    ctx.evaluations += 1 + 2 * len(c["seconds"])
    ctx.stats["held:" + ("preserving" if c.get("preserving") else "ordinary") + ":" + c["first"]["f"]] += 1
    if res["out"] != "ok":
        ctx.stats["held:" + res["out"]] += 1
        return
    for i, (second, r_held, r_fresh) in enumerate(res["runs"]):
        fresh = pred(second, r_fresh)
        fresh_classes = {k for k, _ in fresh}
        if not fresh and r_held.get("out") == "ok":
            ctx.nontrivial.add(json.dumps([c, i], sort_keys=True, default=repr))
        for k, d in fresh:
            ctx.violation(site_of(second), k, second, detail=d)
        for k, d in pred(second, r_held):
            if k not in fresh_classes:
                ctx.violation(site_of(second), "held-object-" + k, c,
                              detail=f"call {i + 2} on the SAME network object after the edit {c['edits']} "
                                     f"({'same' if i == 0 else 'other'} options as call 1); a fresh rebuild of the edited network passes: {d}")


# ----------------------------------------------------------------------------- regime: one large network per run

def big_net(rng, cls):
    """>= 70 nodes incl. the neighbouring integers 2**53, 2**53 + 1 (equal as floats) and strings; for a hypergraph >= 130
    parallel two-node edges between one pair plus larger edges, singletons and isolated nodes"""
    nodes = list(range(58)) + [2 ** 53, 2 ** 53 + 1] + [f"s{i}" for i in range(12)]
    rng.shuffle(nodes)
    edges = []
    if cls == "hg":
        edges += [(i, [2 ** 53, 2 ** 53 + 1]) for i in range(135)]
        for i in range(14):
            edges.append((200 + i, rng.sample(nodes[:50], rng.randint(2, 6))))
        edges += [(300, [nodes[0]]), ("big-str-id", [2 ** 53 + 1, nodes[1], "s0"])]
        H = xgi.Hypergraph()
        H.add_nodes_from(nodes)
        for e, ms in edges:
            H.add_edge(ms, idx=e)
        return enc_real(H)
    S = xgi.SimplicialComplex()
    S.add_nodes_from(nodes)
    S.add_simplex([2 ** 53, 2 ** 53 + 1, "s0"])
    for i in range(30):
        S.add_simplex(rng.sample(nodes[:60], rng.randint(2, 4)))
    return enc_real(S)


def regime_cases(rng, names, quick=True):
    out = []
    for cls in ("hg", "sc"):
        enc = big_net(rng, cls)
        out += layout_cases(rng, cls, enc, names, skip=("kamada_kawai",) if quick else ())
        out.append(draw_case(rng, cls, enc, which="draw", hull=False, auto_pos=False))
        out.append(draw_case(rng, cls, enc, which="draw", hull=False, auto_pos=True))
        out.append(draw_case(rng, cls, enc, which="draw_hyperedges" if cls == "hg" else "draw_simplices", hull=False, auto_pos=False))
        out.append(edgepos_case(rng, cls, enc))
    for c in out:
        c["regime"] = "large"      # decided by the predicate only (the Lean driver's closure test is exponential in the simplex size)
        c.pop("labels", None), c.pop("label_kw", None)
    return out


def layout_cases(rng, cls, enc, names, skip=()):
    out = []
    for name in names:
        if any(k in name for k in skip):
            continue
        c = {"f": "layout_keys", "fn": name, "cls": cls, "H": enc, "opts": layout_option_variants(rng, name)}
        if rng.random() < 0.3 and not c["opts"].get("return_phantom_graph") and any(isinstance(n, int) and not isinstance(n, bool) for n in enc["nodes"]):
            c["np_labels"] = True      # integer labels as numpy integers (review 2, A7): still one position per node
        fam = LAYOUT_FAMILY.get(name)
        if fam:
            c["family"] = fam
        out.append(c)
    return out


def edgepos_case(rng, cls, enc):
    return {"f": "edge_positions", "cls": cls, "H": enc, "pos": grid_pos(rng, enc["nodes"], collisions=rng.random() < 0.2),
            "pos_kind": rng.choice(["array", "tuple", "list"])}


def nontrivial(c, r):
    return has_big_edge(c["H"]) and r.get("out") == "ok"


# ----------------------------------------------------------------------------- shrinking, corpus, replay

def fails_with(c, cls_):
    try:
        r = impl(c)
    except Exception:  # noqa
        return False
    return any(k == cls_ for k, _ in pred(c, r))


def _fix(c):
    """recompute what depends on the network after a shrinking step"""
    c = json.loads(json.dumps(c))
    keep = {json.dumps(n) for n in c["H"]["nodes"]}
    keep_e = {json.dumps(e) for e, _ in c["H"]["edges"]}
    if "pos" in c:
        c["pos"] = [p for p in c["pos"] if json.dumps(p[0]) in keep]
    if c["f"] == "draw" and "perm" in c:
        c["perm"] = [int(i) for i in np.argsort([len(ms) for _, ms in poly_edges(c)])]
    if "dicts" in c:
        c["dicts"] = [[a, [p for p in items if json.dumps(p[0]) in (keep if a.startswith("node") else keep_e)]] for a, items in c["dicts"]
                      if a in c.get("style", {})]
    if "edge_w" in c:
        c["edge_w"] = [p for p in c["edge_w"] if json.dumps(p[0]) in keep_e]
    return c


def shrink(c, cls_, budget=160):
    c = json.loads(json.dumps(c))
    changed = True
    while changed and budget > 0:
        changed = False
        FL = ("zero_scalars", "label_kw", "labels", "hull", "no_ax", "auto_pos", "extra_pos", "subclass")
        for k in list(c.get("style", {})) + list(c.get("opts", {})) + [f for f in FL if c.get(f)]:
            cand = json.loads(json.dumps(c))
            (cand.get("style", {}).pop(k, None), cand.get("opts", {}).pop(k, None), cand.pop(k, None) if k in FL else None)
            if cand["f"] == "draw":
                cand = _fix(cand)
            budget -= 1
            if fails_with(cand, cls_):
                c, changed = cand, True
                break
        if changed:
            continue
        if c["cls"] == "hg":
            for i in range(len(c["H"]["edges"]) - 1, -1, -1):
                cand = json.loads(json.dumps(c))
                del cand["H"]["edges"][i]
                cand = _fix(cand)
                budget -= 1
                if (c["f"] != "draw" or has_big_edge(cand["H"])) and fails_with(cand, cls_):
                    c, changed = cand, True
                    break
            if changed:
                continue
        used = {json.dumps(x) for _, ms in c["H"]["edges"] for x in ms}
        for i in range(len(c["H"]["nodes"]) - 1, -1, -1):
            if json.dumps(c["H"]["nodes"][i]) in used:
                continue
            cand = json.loads(json.dumps(c))
            del cand["H"]["nodes"][i]
            cand = _fix(cand)
            budget -= 1
            if fails_with(cand, cls_):
                c, changed = cand, True
                break
    return c


def shrink_violations(ctx):
    for v in ctx.violations:
        if v["kind"] == "concrete" and isinstance(v["case"], dict) and v["case"].get("f") in ("draw", "layout_keys", "edge_positions"):
            if is_known(ctx, v):
                continue   # a listed finding is printed with its recorded replay; only unlisted violations are shrunk
            try:
                small = shrink(v["case"], v["failure_class"])
                d = [t for k, t in pred(small, impl(small)) if k == v["failure_class"]]
                if d:
                    v["case"], v["detail"] = small, d[0]
            except Exception:  # noqa
                pass


CORPUS_LETTERS = "abcdef"


def corpus_cases():
    """minimised past failures.  A corpus file may use the placeholder "$S" for a one-letter string label that has to come
    first when a small mixed set such as {7, s} is iterated; which letters do depends on the interpreter's string hashing
    (./check derives PYTHONHASHSEED from VERIF_SEED), so the file is instantiated with each of a fixed list of letters —
    the same cases in every process, whatever PYTHONHASHSEED is"""
    out = []
    for p in sorted(glob.glob(os.path.join(VERIF, "corpus", "C20", "*.json"))):
        try:
            text = open(p).read()
            for s_ in (CORPUS_LETTERS if '"$S"' in text else "a"):
                j = json.loads(text.replace('"$S"', json.dumps(s_)))
                j = j["case"] if "case" in j else j
                out += j if isinstance(j, list) else [j]
        except Exception:  # noqa
            pass
    return [c for c in out if isinstance(c, dict) and c.get("f") in ("draw", "layout_keys", "edge_positions", "held")]


def run_cases(ctx, cases):
    """run_fn with the site taken from the case (function actually called)"""
    # run_fn reports violations under c["f"]; the site must be the public function, so wrap the predicate
    def p(c, r):
        for cls_, detail in pred(c, r):
            ctx.violation(site_of(c), cls_, c, detail=detail)
        return []
    held = [c for c in cases if c["f"] == "held"]
    cases = [c for c in cases if c["f"] != "held"]
    for c in cases:
        for flag in ("subclass", "extra_pos", "regime", "exotic"):
            if c.get(flag):
                ctx.stats[f"{flag}:{c['cls']}" if flag != "exotic" else f"exotic:{c['exotic']}:{c['cls']}"] += 1
        if isinstance(c.get("opts", {}).get("seed"), dict):
            ctx.stats["layout:seed=RandomState"] += 1
        if c["f"] == "draw":
            ctx.stats[f"draw:{c['which']}:{c['cls']}"] += 1
            ctx.stats[f"max_order:{c['max_order']}"] += 1
            for a, k in c.get("style", {}).items():
                if isinstance(k, str) and k in KINDS:
                    ctx.stats[f"style:{a}:{k}"] += 1
            for flag in ("hull", "auto_pos", "labels", "label_kw", "zero_scalars", "no_ax"):
                if c.get(flag):
                    ctx.stats["draw:" + flag] += 1
                    ctx.stats[f"draw:{flag}:{c['which']}"] += 1
            for a, items in c.get("dicts", []):
                ctx.stats["dict:shuffled" if [json.dumps(k) for k, _ in items] != [json.dumps(k) for k in element_ids(c, a)][:len(items)]
                          or len(items) != len(element_ids(c, a)) else "dict:in-order"] += 1
                if len(items) > len(element_ids(c, a)):
                    ctx.stats["dict:all-edges"] += 1
        elif c["f"] == "layout_keys":
            ctx.stats[f"layout:{c['fn']}:{c['cls']}"] += 1
        kinds = {"tuple" if isinstance(n, list) else type(n).__name__ for n in c["H"]["nodes"]}
        ctx.stats["labels:" + ("mixed" if len(kinds) > 1 else next(iter(kinds), "none"))] += 1
        if any(isinstance(e, list) for e, _ in c["H"]["edges"]):
            ctx.stats["edge-ids:tuple"] += 1
    pred_only = lambda c: (c["f"] == "layout_keys" and not c.get("family")) or bool(c.get("regime"))  # noqa
    known = [c for c in cases if not pred_only(c)]
    unknown = [c for c in cases if pred_only(c)]
    dis = run_fn(ctx, "C20", known, impl, pred=p, compare=compare, name="C20", nontrivial=nontrivial) if known else []
    for c in unknown:  # layout functions the model has no family for, and the large networks: predicate only
        r = impl(c)
        ctx.evaluations += 1
        ctx.stats["fn:predicate-only:" + (c.get("fn") or c.get("which") or c["f"])] += 1
        if nontrivial(c, r):
            ctx.nontrivial.add(json.dumps([c.get("fn") or c.get("which"), c["cls"], c.get("regime"), r.get("out")]))
        p(c, r)
    for c in held:
        held_report(ctx, c)
    return dis


TRUSTED = TRUSTED_COMMON + [
    "matplotlib (Agg) keeps the offsets / segments / polygon vertices it is given and closes polygon paths with the first vertex; "
    "numpy mean/argsort/arctan2, networkx spring/Kamada-Kawai layouts (one position per graph node) as documented",
    "the brute-force plan inside harness/props/c20.py (markers, two-node edges, qualifying edges, maximal simplices; per-element style "
    "values by id / position, the hull test) and exact float arithmetic on integer-grid coordinates",
]


def replay(ctx, path):
    j = json.load(open(path))
    c = j["case"] if "case" in j else j
    build_and_audit(ctx, "XgiModel.Props.C20", ["XgiModel.C20.Drive"])
    dis = run_cases(ctx, c if isinstance(c, list) else [c])
    if dis and not unlisted_violations(ctx):
        ctx.violation("model-tie", "unproven", {"broken": ctx.broken, "example": ctx.extra.get("disagreements", [])[:1]},
                      detail="; ".join(ctx.broken)[:500], kind="unproven", broken=ctx.broken)
    return finish(ctx, trusted_base=TRUSTED)


def make_cases(ctx, rng, n_nets, names, draws_per_net=3, extras=True):
    cases = []
    nets = []
    for cls, nodes, edges in SPECIAL:
        nets.append((cls, enc_real(build_from_spec(cls, nodes, edges))))
    for _ in range(n_nets):
        cls, nodes, edges = gen_net(rng)
        nets.append((cls, enc_real(build_from_spec(cls, nodes, edges))))
    for i, (cls, enc) in enumerate(nets):
        for _ in range(draws_per_net):
            cases.append(draw_case(rng, cls, enc))
        if i < len(SPECIAL):
            # every draw function with the default axes, with pos=None, and (hypergraphs) with hull=True, on every hand-picked network
            for which in ("draw", "draw_nodes", "draw_hyperedges" if cls == "hg" else "draw_simplices"):
                cases.append(draw_case(rng, cls, enc, which=which, no_ax=True, hull=False, auto_pos=False))
                if i % 2 == 0:
                    cases.append(draw_case(rng, cls, enc, which=which, no_ax=(i % 4 == 0), hull=False, auto_pos=True))
                if cls == "hg" and which != "draw_nodes":
                    cases.append(draw_case(rng, cls, enc, which=which, no_ax=(i % 4 == 1), hull=True, auto_pos=False))
        if rng.random() < 0.5:
            cases.append(edgepos_case(rng, cls, enc))
    # layouts: also networks without any edge of size >= 2 (isolated nodes only, singletons only, one node)
    lay = [(cls, enc) for cls, enc in nets[: max(6, n_nets // 4)]]
    for _ in range(max(3, n_nets // 8)):
        cls, nodes, edges = gen_net(rng, need_big=False)
        lay.append((cls, enc_real(build_from_spec(cls, nodes, edges))))
    lay.append(("hg", {"nodes": [4], "edges": []}))
    lay.append(("hg", {"nodes": ["a", 2, 7], "edges": [[0, ["a"]], [1, [7]]]}))
    for i, (cls, enc) in enumerate(lay):
        # Kamada-Kawai (an L-BFGS minimisation, ~10x the cost of the others) on every third network in the quick tier
        cases += layout_cases(rng, cls, enc, names, skip=("kamada_kawai",) if ctx.quick and i % 3 and i < len(lay) - 2 else ())
    ctx.stats["networks"] += len(nets) + len(lay)
    if not extras:
        return cases
    # CLASS variants: instances of trivial subclasses of Hypergraph / SimplicialComplex
    for i, (cls, enc) in enumerate(nets[:len(SPECIAL)]):
        if ctx.quick and i % 2:
            continue
        sub = [draw_case(rng, cls, enc, hull=False), draw_case(rng, cls, enc, which="draw", hull=False, auto_pos=True),
               draw_case(rng, cls, enc, which="draw_nodes", auto_pos=(i % 2 == 0)),
               draw_case(rng, cls, enc, which="draw_hyperedges" if cls == "hg" else "draw_simplices", hull=False, auto_pos=False)]
        sub += layout_cases(rng, cls, enc, names, skip=("kamada_kawai",) if ctx.quick and i % 6 else ())
        sub.append(edgepos_case(rng, cls, enc))
        for c in sub:
            c["subclass"] = True
            c.pop("extra_pos", None)                      # one unusual feature per case: a failure names its cause
            if isinstance(c.get("opts", {}).get("seed"), dict):
                c["opts"]["seed"] = c["opts"]["seed"]["$randomstate"]
        cases += sub
    # CONTAINER / documented argument shapes: every admissible (argument, shape) on four hand-picked networks, random ones elsewhere
    for i, (cls, enc) in enumerate(nets[:len(SPECIAL) + ctx.n(25, 400)]):
        if cls == "sc" and i % 2 == 0:
            enc = string_edge_ids(enc)    # simplex IDs that are not 0..k-1 (the internal IDs draw_simplices works with)
        if i in (1, 4, 5, 6):
            for which in ("draw", "draw_nodes", "draw_hyperedges" if cls == "hg" else "draw_simplices"):
                probe = exotic_case(rng, cls, enc, which=which)
                if cls == "hg" and which != "draw_nodes":
                    n_dy, n_po = len(dyad_edges(probe)), len(poly_edges(probe))
                elif cls == "sc":
                    n_dy, n_po = map(len, sc_expected(probe))
                else:
                    n_dy = n_po = 0
                for o in sorted(set(exotic_options(probe, len(enc["nodes"]), n_dy, n_po))):
                    cases.append(exotic_case(rng, cls, enc, which=which, pick=o))
        else:
            cases += [exotic_case(rng, cls, enc) for _ in range(2)]
    # RandomState seeds for every layout that documents them, on two hand-picked networks
    for cls, enc in (nets[1], nets[5]):
        for name in names:
            if "RandomState" in (getattr(L, name).__doc__ or ""):
                c = layout_cases(rng, cls, enc, [name])[0]
                c["opts"] = dict(c["opts"], seed={"$randomstate": rng.randint(0, 999)})
                cases.append(c)
    # HELD OBJECT: call, edit, call again on the same object
    n_held = 0
    for i, (cls, enc) in enumerate(nets):
        if i >= len(SPECIAL) + ctx.n(22, 300):
            break
        if cls == "sc" and not any(json.dumps(n) not in {json.dumps(x) for _, ms in enc["edges"] for x in ms} for n in enc["nodes"]):
            S = build(cls, enc)
            S.add_node("isolated-extra")    # so that a count-preserving edit of the complex exists
            enc = enc_real(S)
        for preserving in (True, False):
            h = held_case(rng, cls, enc, names, preserving)
            if h:
                cases.append(h)
                n_held += 1
    ctx.stats["held_cases"] += n_held
    # REGIME: one large hypergraph and one large complex per run
    cases += regime_cases(rng, names, quick=ctx.quick)
    return cases


def run(ctx):
    import time
    t0 = time.time()
    ok = build_and_audit(ctx, "XgiModel.Props.C20", ["XgiModel.C20.Drive"])
    ctx.extra["phase_seconds"] = {"build_and_audit": round(time.time() - t0, 1)}
    rng = ctx.rng
    names = layout_functions()
    ctx.extra["layout_functions"] = names
    ctx.rule = ("networks: 12 hand-picked (two with tuple node labels and tuple edge IDs) + fn.gen_hypergraph (1-7 nodes, 0-7 edges of size 1-5; "
                "int/str/mixed/negative labels, shuffled; explicit edge IDs; multi-edges, singleton edges, isolated nodes), as Hypergraph or as "
                "SimplicialComplex (add_simplex); draw cases always have an edge with >= 2 nodes.  ORDINARY draw cases: which in draw/draw_nodes/"
                "draw_hyperedges|draw_simplices, positions = distinct random points of the integer grid [-7,7]^2 (coinciding points only for "
                "draw_nodes / barycenters) as array/tuple/list, the pos dict in shuffled key order in 70%, in 15% with 1-4 EXTRA keys that are not "
                "nodes (a parent's layout), max_order in {None,0,1,2,3,6}; style arguments, each absent in 55%: node_size/node_fc/node_lw: scalar|"
                "list|array|dict|stat(degree) (node_fc also dict-of-numbers); node_ec: scalar|list ONLY; dyad_color/dyad_lw/edge_fc (hypergraph): "
                "scalar|list|array|dict|stat (dyad_lw: the stat of the two-node edges; dyad_color/edge_fc: stats over all edges, also dict-of-numbers); "
                "edge_ec: scalar|list|dict|stat; for a complex the dyad_/edge_ arguments are scalar|list|array only; per-ID dicts are explicit in "
                "the case, in shuffled order, for edge arguments of a hypergraph in 40% over all edge IDs; every per-element argument except a "
                "stat-valued edge_ec/node_ec and the dyad_/edge_ sequences of a complex is read back per element; ax=None in 20% and for every "
                "function on every hand-picked network; hull=True in 12% (hulls read back); pos=None in 6% (plan checked against the markers).  "
                "DOCUMENTED-SHAPE cases (exactly one such argument per case, rescale_sizes=False; every admissible (argument, shape) pair on four "
                "hand-picked networks, two random pairs on 33 more): node_size/node_lw/dyad_lw as tuple|range|pandas Series; the five colour "
                "arguments as tuple|Series of colour names and as the single colour 'none'; draw(node_ec=dict|NodeStat); dyad_lw=EdgeStat of an "
                "attribute over ALL edges (hypergraph; read back by ID); for a complex edge_fc/dyad_color/dyad_lw as a dict over the complex's "
                "own simplex IDs (read back by matching the drawn element's positions to the simplex) and edge_fc/dyad_color as EdgeStat of the "
                "complex (success only); every second complex of this family has string simplex IDs.  SUBCLASS cases: instances of trivial "
                "subclasses of Hypergraph / SimplicialComplex through the four draw functions, every layout and edge_positions_from_barycenters "
                "on 6 hand-picked networks.  HELD-OBJECT cases (2 per network on 34 networks): one network object, a first call (draw function "
                "with pos=None in 60% / explicit pos, or a layout), an edit by public mutators (count-preserving: remove a node and add an edge "
                "bringing a new node [+ remove an edge and add another]; or ordinary: add / remove a node or edge), then the SAME call and ANOTHER "
                "call (other function / options) on the same object; each later result must satisfy the predicate that a fresh rebuild of the "
                "edited network satisfies (class held-object-*).  REGIME cases (predicate only, not sent to the Lean driver): one hypergraph "
                "and one complex with 72 nodes incl. the labels 2**53 and 2**53+1 and strings, the hypergraph with 135 parallel two-node edges "
                "between these two labels + 16 other edges: every layout except Kamada-Kawai (quick tier), draw with explicit pos and pos=None, "
                "draw_hyperedges|draw_simplices, edge positions.  layout cases: every *_layout function of xgi.drawing.layout x option "
                "variants by signature (seed: int, and np.random.RandomState in 30% of the seeded calls of the three functions whose docstring "
                "names it + one such call per function on two hand-picked networks), also on networks without edges.  evaluations = calls of "
                "public functions; non-trivial = distinct (case, result) with an edge of >= 2 nodes and a successful call")
    cases = corpus_cases()
    ctx.stats["corpus_cases"] = len(cases)
    cases += make_cases(ctx, rng, ctx.n(200, 2500), names, draws_per_net=ctx.n(3, 4))
    if not ctx.quick:
        n_ex = 0
        fixed = {0: [0, 0], 1: [4, 1], 2: [1, 5], 3: [-3, 2]}
        for nodes, edges in all_small_hypergraphs(4, 3):
            if not any(len(ms) >= 2 for _, ms in edges):
                continue
            n_ex += 1
            for cls in ("hg", "sc"):
                enc = enc_real(build_from_spec(cls, nodes, edges))
                for mo in (None, 1, 2):
                    c = {"f": "draw", "which": "draw", "cls": cls, "H": enc, "pos": [[n, fixed[n]] for n in enc["nodes"]],
                         "pos_kind": "array", "max_order": mo, "style": {}}
                    if cls == "hg":
                        c["perm"] = [int(i) for i in np.argsort([len(ms) for _, ms in poly_edges(c)])]
                    cases.append(c)
        ctx.exhaustive = True
        ctx.extra["exhaustive_space"] = (f"predicate and correspondence of xgi.draw over all {n_ex} hypergraphs on 4 nodes with <= 3 distinct "
                                         "edges (at least one with >= 2 nodes), as Hypergraph and as SimplicialComplex, max_order in {None,1,2}, "
                                         "fixed integer positions, default style")
    dis = []
    t0 = time.time()
    for i in range(0, len(cases), 5000):
        dis += run_cases(ctx, cases[i:i + 5000])
    ctx.extra["phase_seconds"]["cases_and_driver"] = round(time.time() - t0, 1)

    def search():
        more = make_cases(ctx, rng, ctx.n(150, 1500), names, extras=False)
        fs = {str(c.get("f")) for c, _, _ in dis}
        for c in more:
            if fs and c["f"] not in fs:
                continue
            r = impl(c)
            ctx.evaluations += 1
            for cls_, detail in pred(c, r):
                ctx.violation(site_of(c), cls_, c, detail=detail)

    t0 = time.time()
    conclude(ctx, ok, dis, search)
    shrink_violations(ctx)
    ctx.extra["phase_seconds"]["search_and_shrink"] = round(time.time() - t0, 1)
    ctx.extra["style_read_back"] = dict(sorted(READ_BACK.items()))   # includes re-evaluations while shrinking
    ctx.assumptions = [
        "labels int/str/flat tuples of these; the layout cases also hand integer labels over as numpy integers (the phantom nodes of the "
        "barycenter layouts may then share an ID with a node, which must still get its one position; the returned phantom graph "
        "itself is not asked for in these cases: with numpy-integer labels its phantom IDs collide with node IDs on the unchanged tree, "
        "review 2 A7, outside the statement); bool/float IDs are outside the model; networks satisfy Net.WF (C01); a SimplicialComplex is closed "
        "under faces with >= 2 nodes and has no repeated or empty simplex (C03)",
        "drawing domain: at least one edge with >= 2 nodes; max_order None or >= 0; every node has a position (pos may have MORE keys); "
        "per-element sequences have one entry per drawn element (per-ID dicts possibly more: one per edge) and are only generated where at "
        "least one element exists; rescaled sizes / widths are compared with the documented interpolation between the min and max of the "
        "values handed over (np.interp), colours with matplotlib.colors.to_rgba; a stat-valued edge_ec / node_ec is not read back; the "
        "documented-shape cases switch rescaling off",
        "layout options: seed int or RandomState (only where documented: pairwise_spring_layout and random_layout document `int`), k in {0.3, 1}, "
        "resolution in {0.1, 0.8, 2}, iterations in {1, 5, 80}; the degenerate values k=0 (NaN positions from networkx) and resolution=0 "
        "(division by zero) of review item A8 are not generated",
        "coordinates on an integer grid so that float arithmetic is exact; finite coordinates of random/spring/Kamada-Kawai/circular/spiral "
        "layouts are observed on the runs only",
        "held-object cases: the edit scripts use add_node/add_edge/remove_node/remove_edge (complex: add_simplex/remove_simplex_id, remove_node "
        "of an isolated node only); a script whose result differs from the recorded edited network is skipped (the mutators are C01-C05's subject)",
        "np.argsort is an oracle: the harness passes numpy's permutation of the polygon sizes to the model, which checks that it is an argsort; "
        "polygon vertex order is compared with the exact angular order only when all angles differ",
        "string hashes are randomised per process (./check derives PYTHONHASHSEED from VERIF_SEED): which member of a mixed-label set "
        "comes first varies with it; the generated cases themselves depend on VERIF_SEED only",
    ]
    return finish(ctx, trusted_base=TRUSTED)
