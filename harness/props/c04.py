"""C04 — automatic edge IDs are always fresh; adding never overwrites."""
from .. import dhg as MD
from .. import hg as MH
from ..c04_conv import run_conv
from ..c04_prov import run_provenance
from ..core import TRUSTED_COMMON, build_and_audit, finish
from ..fn import conclude
from ..sm import run_sm, targeted_search

FIELDS = ["out", "edges", "mem", "eattr", "eattrK", "uid"]
ADDS = {"add_edge", "add_edges_from", "add_weighted_edges_from", "add_node_to_edge", "update", "merge_duplicate_edges"}
WEIGHTS = {"add_edge": 30, "add_edges_from": 25, "add_node_to_edge": 12, "update": 6, "add_weighted_edges_from": 5,
           "merge_duplicate_edges": 8, "relabel": 4, "cleanup": 3, "remove_edge": 8, "remove_edges_from": 4, "clear": 1}


def pred_hg(snap, op, prev, exc):
    """on the implementation: adding ops keep every existing edge; the counter stays above integer ids"""
    fails = []
    name = op["op"]
    if name in ("add_edge", "add_edges_from", "add_weighted_edges_from", "update") or \
            (name == "add_node_to_edge" and op["e"] not in prev["edges"]):
        pm, pa = dict((repr(k), v) for k, v in prev["mem"]), dict((repr(k), v) for k, v in prev["eattr"])
        sm_, sa = dict((repr(k), v) for k, v in snap["mem"]), dict((repr(k), v) for k, v in snap["eattr"])
        for e in prev["edges"]:
            k = repr(e)
            if k not in sm_:
                fails.append(("existing-edge-removed", f"{name}: edge {e!r} disappeared"))
            elif sm_[k] != pm[k] or sa.get(k) != pa.get(k):
                fails.append(("existing-edge-altered", f"{name}: edge {e!r} members/attrs {pm[k]},{pa.get(k)} -> {sm_[k]},{sa.get(k)}"))
        if not fails and snap["edges"][: len(prev["edges"])] != prev["edges"]:
            fails.append(("edge-order-changed", f"{name}: {prev['edges']} -> {snap['edges']}"))
        if name == "add_edge" and op.get("idx") not in ("$auto", None) and op["idx"] in prev["edges"]:
            body = lambda s: {k: v for k, v in s.items() if k != "out"}
            if snap["out"] == "ok":
                fails.append(("duplicate-id-no-warning", f"add_edge(idx={op['idx']!r}) on an existing id gave no warning"))
            if body(snap) != body(prev):
                fails.append(("duplicate-id-mutated", f"add_edge(idx={op['idx']!r}) on an existing id changed the network"))
    if isinstance(snap["uid"], int):
        bad = [e for e in snap["edges"] if isinstance(e, int) and not isinstance(e, bool) and e >= snap["uid"]]
        if bad:
            fails.append(("counter-not-above-ids", f"after {name}: next automatic id {snap['uid']} <= existing integer ids {bad}"))
    return fails


FIELDS_D = ["out", "edges", "tail", "head", "eattr", "eattrK", "uid"]
WEIGHTS_D = {"add_edge": 30, "add_edges_from": 25, "add_node_to_edge": 12, "remove_edge": 8, "remove_edges_from": 4, "relabel": 3, "copy": 3}


def pred_dhg(snap, op, prev, exc):
    """directed: adding calls keep every existing edge (id, position, tail, head, attributes); counter above int ids"""
    fails = []
    name = op["op"]
    if name in ("add_edge", "add_edges_from") or (name == "add_node_to_edge" and op.get("e") not in prev["edges"]):
        tab = lambda s: {repr(e): (t, h, a) for (e, t), (_, h), (_, a) in zip(s["tail"], s["head"], s["eattr"])}
        p0, p1 = tab(prev), tab(snap)
        for e in prev["edges"]:
            k = repr(e)
            if k not in p1:
                fails.append(("existing-edge-removed", f"DiHypergraph.{name}: edge {e!r} disappeared"))
            elif p1[k] != p0[k]:
                fails.append(("existing-edge-altered", f"DiHypergraph.{name}: edge {e!r}: {p0[k]} -> {p1[k]}"))
        if not fails and snap["edges"][: len(prev["edges"])] != prev["edges"]:
            fails.append(("edge-order-changed", f"DiHypergraph.{name}: {prev['edges']} -> {snap['edges']}"))
    if isinstance(snap.get("uid"), int):
        bad = [e for e in snap["edges"] if isinstance(e, int) and not isinstance(e, bool) and e >= snap["uid"]]
        if bad:
            fails.append(("counter-not-above-ids", f"DiHypergraph after {name}: next automatic id {snap['uid']} <= existing integer ids {bad}"))
    return fails


def run(ctx):
    # Props/C04D.lean: the same theorems on the directed model (KeepsD, C04D_*), audited with this property
    # Props/C04S.lean: the same theorems on the simplicial model (C03/SC.lean; HG.Keeps, C04S_*), audited with this property
    ok = build_and_audit(ctx, "XgiModel.Props.C04", ["XgiModel.Drive.HG", "XgiModel.Props.C04D", "XgiModel.Props.C04S", "XgiModel.Props.C04P"],
                         audit_extra=("XgiModel.Props.C04D", "XgiModel.Props.C04S", "XgiModel.Props.C04P"))
    ctx.rule = ("(a) add-heavy histories on xgi.Hypergraph (explicit ids incl. 0 / decreasing / strings, automatic ids, removals, "
                "merges, relabelling) compared with the model on (outcome, edge ids in order, members, edge attrs, counter); "
                "(b) provenance x additions on all three classes: every constructor input type, from_* converter, read_* function (real "
                "files in a temp dir), generators, copy, pickle, relabelling, then 1-6 additions; non-trivial = distinct final edge table "
                "with >= 2 edges")
    dis, hist = run_sm(ctx, MH, "HG", FIELDS, pred_hg, ctx.n(250, 8000), weights=WEIGHTS,
                       corr_name="correspondence HG~Hypergraph (edge table + counter)")
    from ..core import lean_build
    ok_d, _ = lean_build(["XgiModel.C02.Drive"])
    if not ok_d:
        ctx.broken.append("lake build XgiModel.C02.Drive failed")
    dis_d, hist_d = run_sm(ctx, MD, "DHG", FIELDS_D, pred_dhg, ctx.n(120, 5000), weights=WEIGHTS_D, model_ok=ok_d,
                           corr_name="correspondence DHG~DiHypergraph (edge table + counter)")
    # Props/C04P.lean: converters / copy / dual as compositions of public calls (Core/HGConv.lean), tied here
    dis_c = run_conv(ctx, ctx.n(150, 3000)) if ok else []
    dis = list(dis) + list(dis_d) + list(dis_c)
    run_provenance(ctx, ctx.n(600, 20000))
    conclude(ctx, ok and ok_d, dis, search=lambda: (targeted_search(ctx, MH, pred_hg, [d for d in dis if d not in dis_d and d not in dis_c], hist, n=ctx.n(1500, 20000)),
                                                    targeted_search(ctx, MD, pred_dhg, dis_d, hist_d, n=ctx.n(800, 10000)),
                                                    run_provenance(ctx, ctx.n(1500, 20000))))
    ctx.assumptions = ["node labels generated: int (incl. negative, colliding in small hash tables) and str, mixed; edge IDs generated: int (incl. 10**30 and 10**309), str, and the tuple IDs that merge_duplicate_edges(rename='tuple') creates; None as a malformed ID. Tuple NODE labels are in the model's domain but are not generated: the list formats of add_edges_from / add_nodes_from read a leading tuple as (members, id) / (node, attrs) (DESIGN 13.6); bool / float / numpy IDs only in the C04 provenance predicate",
                       "directed and simplicial classes are covered by the provenance predicate on the implementation; their Lean models "
                       "are added when the C02/C03 models land"]
    return finish(ctx, trusted_base=TRUSTED_COMMON)


def replay(ctx, path):
    import json
    from ..c04_prov import replay_provenance
    from ..sm import replay_sm
    j = json.load(open(path))
    if "provenance" in j.get("case", {}):
        fails = replay_provenance(ctx, j["case"])
        if fails:
            print(f"VIOLATION property=C04 replay={path}")
            print(f"  reproduced: {fails[0][0]}: {fails[0][1]}")
            return 1
        print(f"replay {path}: not reproduced on the current tree")
        return 0
    if "derive" in j.get("case", {}):
        from ..c04_conv import replay_conv
        return replay_conv(ctx, j["case"], path)
    return replay_sm(ctx, MH, "HG", FIELDS, pred_hg, path)
