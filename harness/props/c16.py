"""C16 — generators deliver the structure their parameters promise.

For every case the real generator is run with the RNG draws recorded (monkeypatched from this process:
`xgi.generators.{random,uniform}.geometric`, `random.random`, `random.sample`, `np.random.random`,
`np.random.choice`, `networkx.fast_gnp_random_graph`; `uniform_HSBM` as called by `uniform_HPPM` is wrapped to capture
the tensor), the property predicate is evaluated on the generated network, and the recorded oracle is replayed
through the Lean model (Drivers/C16.lean); node lists (produced by the model, XgiModel/C16/Net.lean) and edge lists (for
chung_lu / dcsbm: node order and the edge dict in creation order; for the modelled exceptions: the exception class) are
compared.  Argument shapes: sequences as list / numpy array / tuple where the generator accepts them, the scalar form
`ps=float, order=int`, integer parameters as numpy integers, `max_order=None`.  Every call runs under a CPU-time budget
(not wall-clock) and a budget expiry is retried once with ten times the budget before it is reported.
"""
import glob
import importlib
import itertools
import json
import math
import os
import random as pyrandom
import signal
import warnings
from collections import Counter

import networkx as nx
import numpy as np

from ..core import unlisted_violations  # noqa: E402
from ..core import TRUSTED_COMMON, VERIF, Infra, build_and_audit, canon, finish, jhash, run_driver
from ..fn import approx_equal

INF = 2 ** 40  # np.inf returned by geometric() is sent to the model as a gap beyond every index bound
PS = [0.0, 1.0, 0.3, 0.9]


def _mods():
    import xgi  # noqa
    return (importlib.import_module("xgi.generators.random"), importlib.import_module("xgi.generators.uniform"),
            importlib.import_module("xgi.generators.simplicial_complexes"))


class Timeout(Exception):
    pass


class Rec:
    """records every random draw made while a generator runs"""

    def __init__(self, force=None):
        self.gaps, self.rands, self.samples, self.nprand, self.graphs = [], [], [], [], []
        self.npchoice, self.geo_args, self.hsbm_calls = [], [], []
        self.in_geo = False
        # force = None: record the real draws; "ones": geometric() always answers 1; a list: answers these, then +inf
        self.force = force
        self.forced = iter(force) if isinstance(force, list) else None

    def __enter__(self):
        GR, GU, GS = _mods()
        self.cliques = []
        self.saved = [(GS, "_cliques_to_fill", GS._cliques_to_fill), (GS, "find_triangles", GS.find_triangles),
                      (GR, "geometric", GR.geometric), (GU, "geometric", GU.geometric), (pyrandom, "random", pyrandom.random),
                      (pyrandom, "sample", pyrandom.sample), (np.random, "random", np.random.random),
                      (nx, "fast_gnp_random_graph", nx.fast_gnp_random_graph), (np.random, "choice", np.random.choice),
                      (GU, "uniform_HSBM", GU.uniform_HSBM)]
        orig_choice, orig_hsbm = np.random.choice, GU.uniform_HSBM
        orig_geo = {id(GR): GR.geometric, id(GU): GU.geometric}
        orig_random, orig_sample, orig_np, orig_gnp = pyrandom.random, pyrandom.sample, np.random.random, nx.fast_gnp_random_graph
        rec = self

        def mk_geo(f):
            def geo(p):
                rec.in_geo = True
                try:
                    g = f(p)     # the real draw is always made (keeps the RNG stream and p's validity checks)
                finally:
                    rec.in_geo = False
                if isinstance(g, float) and math.isinf(g):
                    pass         # geometric(0) is +inf whatever the uniform draw: never overridden
                elif rec.force == "ones":
                    g = 1
                elif rec.forced is not None:
                    g = next(rec.forced, float("inf"))
                rec.gaps.append(g)
                rec.geo_args.append(p)
                if len(rec.gaps) > MAX_DRAWS:
                    raise Timeout()      # (as in rnd)
                return g
            return geo

        def npchoice(a, size=None, replace=True, p=None):
            r = orig_choice(a, size=size, replace=replace, p=p)
            rec.npchoice.append((list(a) if not isinstance(a, int) else a, size, replace, np.array(r, copy=True)))
            return r

        def hsbm(n, m, p, sizes, seed=None):
            # uniform_HPPM reaches uniform_HSBM through its module global: the tensor it hands over is recorded
            rec.hsbm_calls.append((n, m, np.array(p, dtype=float, copy=True), list(sizes)))
            return orig_hsbm(n, m, p, sizes, seed=seed)

        def rnd():
            r = orig_random()
            if not rec.in_geo:
                rec.rands.append(r)
                if len(rec.rands) > MAX_DRAWS:
                    raise Timeout()      # an endless loop that keeps drawing: stop before the record eats the memory
            return r

        def sample(pop, k, **kw):
            r = orig_sample(pop, k, **kw)
            rec.samples.append((len(pop), k, list(r)))
            return r

        def nprandom(size=None):
            r = orig_np(size=size)
            rec.nprand.append(np.array(r, copy=True))
            return r

        def gnp(*a, **kw):
            G = orig_gnp(*a, **kw)
            rec.graphs.append(G.copy())
            return G

        def mk_cl(f):
            def cl(*a, **kw):
                r = f(*a, **kw)
                try:
                    rec.cliques.append([sorted(int(x) for x in c) for c in r])
                except (TypeError, ValueError):      # labels that are not integers: kept as they are (mapped back by the caller)
                    rec.cliques.append([list(c) for c in r])
                return r
            return cl

        GS._cliques_to_fill, GS.find_triangles = mk_cl(GS._cliques_to_fill), mk_cl(GS.find_triangles)
        GR.geometric, GU.geometric = mk_geo(orig_geo[id(GR)]), mk_geo(orig_geo[id(GU)])
        pyrandom.random, pyrandom.sample, np.random.random, nx.fast_gnp_random_graph = rnd, sample, nprandom, gnp
        np.random.choice, GU.uniform_HSBM = npchoice, hsbm
        return self

    def __exit__(self, *a):
        for mod, name, val in self.saved:
            setattr(mod, name, val)

    def gap_list(self):
        out = []
        for g in self.gaps:
            if isinstance(g, float) and math.isinf(g):
                out.append(INF)
            else:
                out.append(int(g))
        return out


class _WallStall(BaseException):
    """wall-clock backstop fired (not an Exception: must not be mistaken for an exception of the generator)"""


def _alarm(signum, frame):
    raise Timeout()


MEM_GROWTH = 1_500_000_000     # bytes a single generator call may add to the resident set before it is treated as runaway
_PAGE = os.sysconf("SC_PAGE_SIZE")


def _rss():
    try:
        with open("/proc/self/statm") as fh:
            return int(fh.read().split()[1]) * _PAGE
    except Exception:  # noqa
        return 0


def _wall(signum, frame):
    raise _WallStall()


LAST = {"rec": None, "boundary": Counter(), "retries": 0, "f": None, "expired": Counter()}
MAX_DRAWS = 1_000_000   # recorded draws of one generator call (the grids need a few thousand at most); beyond: treated as non-termination
MAX_EXPIRIES = 3     # per generator: after that many reported non-terminations its remaining cases are skipped (counted)


def _attempt(fn, cpu_seconds, force):
    """one run of fn() with the draws recorded (or forced) under a CPU-time limit: ITIMER_VIRTUAL counts the user time of this
    process only, so a loaded host cannot trip it.  A generous wall-clock backstop (ITIMER_REAL) catches a call that blocks
    without using CPU; it is an infrastructure problem (exit 2), never a verdict."""
    t0, m0 = os.times().user, _rss()

    def tick(signum, frame):
        # every 0.2 s of CPU: budget used up, or the call has grown the process by more than MEM_GROWTH (an endless loop that keeps
        # adding edges must be stopped before it exhausts the host's memory) -> treated as non-termination
        if os.times().user - t0 >= cpu_seconds or _rss() - m0 > MEM_GROWTH:
            raise Timeout()

    old_v = signal.signal(signal.SIGVTALRM, tick)
    old_r = signal.signal(signal.SIGALRM, _wall)
    rec = Rec(force)
    LAST["rec"] = rec
    try:
        with warnings.catch_warnings():
            warnings.simplefilter("ignore")
            with rec:
                signal.setitimer(signal.ITIMER_VIRTUAL, min(0.2, cpu_seconds), 0.2)
                signal.setitimer(signal.ITIMER_REAL, 30 * cpu_seconds + 30)
                try:
                    return fn(), None, rec
                except Timeout as ex:
                    return None, ex, rec
                except Exception as ex:  # noqa
                    return None, ex, rec
                finally:
                    signal.setitimer(signal.ITIMER_VIRTUAL, 0)
                    signal.setitimer(signal.ITIMER_REAL, 0)
    except _WallStall:
        raise Infra(f"a generator call made no progress for {30 * cpu_seconds + 30:.0f} s of wall time without using its "
                    f"{cpu_seconds} s CPU budget (blocked process / overloaded host)")
    finally:
        signal.signal(signal.SIGVTALRM, old_v)
        signal.signal(signal.SIGALRM, old_r)


def guarded(fn, seconds=2.0, force=None):
    """run fn() under a CPU-time budget; when the budget expires the call is repeated once from scratch with ten times the
    budget, and only a second expiry is returned as Timeout (reported by the callers as non-termination).
    fn must build its arguments afresh on every call.  Returns (value | None, exception | None, rec)."""
    val, ex, rec = _attempt(fn, seconds, force)
    if isinstance(ex, Timeout) and not LAST["expired"][LAST["f"]]:
        # (a generator that has already been reported as non-terminating in this run is not given the long budget again)
        LAST["retries"] += 1
        val, ex, rec = _attempt(fn, 10 * seconds, force)
    if isinstance(ex, Timeout):
        LAST["expired"][LAST["f"]] += 1
    return val, ex, rec


def kind(p):
    return 0 if p == 0 else (1 if p == 1 else 2)


def frac(x):
    """a Python number as the exact rational it denotes: [numerator, denominator]"""
    from fractions import Fraction
    q = Fraction(x)
    return [q.numerator, q.denominator]


def bip_snapshot(H):
    """nodes in view order, edge dict in creation order (id, sorted members)"""
    return {"nodes": sorted(int(n) for n in H.nodes), "node_list": [int(n) for n in H.nodes],
            "edges": [sorted(int(x) for x in e) for e in H.edges.members()],
            "edge_dict": [[int(i), sorted(int(x) for x in H.edges.members(i))] for i in H.edges]}


def snapshot(H):
    """observable structure through the public API only"""
    nodes = [int(n) for n in H.nodes]
    edges = [sorted(int(x) for x in e) for e in H.edges.members()]
    return {"nodes": sorted(nodes), "node_list": nodes, "edges": edges}


# node-label schemes of the second hardening round (labels are arithmetic-free in every generator that takes a network or a graph):
# position i of the case <-> label; the network handed to the generator carries the labels, the result is read back through the
# inverse map, so predicates and model requests stay in the integer name space
LABELS = {
    "int": lambda i: i,
    "str": lambda i: f"v{i}",
    "tuple": lambda i: (i // 3, i % 3),                      # the node names of networkx.grid_2d_graph
    "big": lambda i: 2 ** 53 + 1 + 2 * i,                    # integers that float64 cannot tell apart
    "mixed": lambda i: f"v{i}" if i % 2 == 0 else i,
    "neg": lambda i: i - 2,                                  # ..., -2, -1, 0, 1: includes node_swap's default temporary id -1
}


def snapshot_lab(H, inv):
    """snapshot(H) with every label mapped back through `inv`; (None, detail) if a node or member is not a label that was handed in"""
    nodes = list(H.nodes)
    mem = [list(e) for e in H.edges.members()]
    foreign = [x for x in nodes if x not in inv] + [x for e in mem for x in e if x not in inv]
    if foreign:
        return None, (f"nodes {nodes[:12]} / members {mem[:6]} contain {foreign[:4]}, which are not among the labels handed in "
                      f"{list(inv)[:8]}")
    nl = [inv[x] for x in nodes]
    return {"nodes": sorted(nl), "node_list": nl, "edges": [sorted(inv[x] for x in e) for e in mem]}, None


def shaped(v, shape):
    """the list `v` passed the way `shape` says: list | array | tuple | scalar (python number) | npscalar | int | npint"""
    if shape == "array":
        return np.array(v)
    if shape == "tuple":
        return tuple(v)
    if shape in ("scalar", "int"):
        return v[0]
    if shape == "npscalar":
        return np.float64(v[0])
    if shape == "npint":
        return np.int64(v[0])
    return list(v)


def all_subsets(nodes, m):
    return [list(c) for c in itertools.combinations(sorted(nodes), m)]


# ------------------------------------------------------------------------------------------- predicates

def pred_common(H, snap, want_nodes):
    fails = []
    if snap["nodes"] != sorted(want_nodes) or len(snap["node_list"]) != len(set(snap["node_list"])):
        fails.append(("node-set", f"nodes {snap['nodes']} but requested {sorted(want_nodes)}"))
    ns = set(snap["nodes"])
    for e in snap["edges"]:
        if not set(e) <= ns:
            fails.append(("member-not-a-node", f"edge {e} not within nodes {snap['nodes']}"))
        if len(e) == 0:
            fails.append(("empty-edge", "an edge without members"))
    return fails


def pred_sizes(snap, allowed, cls="size-not-allowed"):
    return [(cls, f"edge {e} has size {len(e)}, allowed {sorted(allowed)}") for e in snap["edges"] if len(e) not in allowed][:1]


def pred_nodup(H, snap):
    fails = []
    if len({tuple(e) for e in snap["edges"]}) != len(snap["edges"]):
        c = Counter(tuple(e) for e in snap["edges"])
        fails.append(("duplicate-edge", f"repeated edge {[list(e) for e, k in c.items() if k > 1][:2]}"))
    try:
        if len(H.edges.duplicates()) != 0 and not fails:
            fails.append(("duplicate-edge", f"H.edges.duplicates() = {list(H.edges.duplicates())[:3]}"))
    except Exception as ex:  # noqa
        fails.append(("duplicates-raises", repr(ex)[:100]))
    return fails


def pred_orders(snap, n, rounds):
    """rounds = [(size, p)]: p = 0 => no edge of that size (unless another round asks for it); p = 1 => all of them"""
    fails = []
    by_size = {}
    for s, p in rounds:
        by_size.setdefault(s, []).append(p)
    for s, ps in by_size.items():
        got = [e for e in snap["edges"] if len(e) == s]
        if all(p == 0 for p in ps) and got:
            fails.append(("p0-has-edges", f"probability 0 for size {s} but edges {got[:2]}"))
        if any(p == 1 for p in ps):
            missing = [e for e in all_subsets(range(n), s) if e not in got]
            if missing:
                fails.append(("p1-incomplete", f"probability 1 for size {s} but {missing[:2]} missing"))
    return fails


def pred_forced(case, snap, n, size, mult):
    """forced oracles (single-size calls with 0 < p < 1): all gaps 1 must visit every index; a first gap equal to the
    number of indices must produce exactly the last combination; one beyond it nothing"""
    force = case.get("force")
    if force is None:
        return []
    got = Counter(tuple(e) for e in snap["edges"])
    first, last = tuple(range(size)), tuple(range(n - size, n))      # combos[0], combos[-1] without enumerating (n may be large)
    if force == "ones":
        want = Counter({tuple(e): mult for e in all_subsets(range(n), size)})
    elif case.get("force_kind") == "last":
        want = Counter({last: 1})
    elif case.get("force_kind") == "firstlast":
        want = Counter({first: 1, last: 1})
    elif case.get("force_kind") == "beyond":
        want = Counter()
    else:
        return []
    if got != want:
        return [("boundary-index", f"forced gaps {force if force == 'ones' else case.get('force_kind')}: edges {snap['edges'][:4]}… "
                                   f"expected {[list(e) for e in list(want)[:4]]}…")]
    return []


def downward_closed(snap):
    es = {frozenset(e) for e in snap["edges"]}
    for e in es:
        for r in range(2, len(e)):
            for f in itertools.combinations(sorted(e), r):
                if frozenset(f) not in es:
                    return [("not-downward-closed", f"{sorted(e)} present but face {list(f)} missing")]
    return []


def cliques_of(n_nodes, edges, lo, hi):
    adj = {frozenset(e) for e in edges}
    out = []
    for r in range(lo, hi + 1):
        for c in itertools.combinations(sorted(n_nodes), r):
            if all(frozenset(p) in adj for p in itertools.combinations(c, 2)):
                out.append(list(c))
    return out


# ------------------------------------------------------------------------------------------- generators under test
# each entry: gen(rng, tier) -> iterable of cases {"f", "args", "seed"};  execute(case) -> (snap|None, exc, fails, request|None, cmp)

def exc_out(ex):
    return {"out": "err:" + type(ex).__name__, "msg": str(ex)[:160]}


def run_case(case):
    """returns dict(impl=…, fails=[(class, detail)], req=model request or None, ordered=bool)"""
    import xgi
    f, a, seed = case["f"], case["args"], case.get("seed")
    fails, req, ordered = [], None, True

    def out(snap, ex):
        if isinstance(ex, Timeout):
            # both attempts (CPU budget, then ten times the budget) expired: reported as non-termination, whatever else
            fails[:] = [("nonterminating", "no result within the CPU-time budget, nor within ten times that budget on a second attempt "
                                           "(or the call kept drawing / growing the process beyond the caps)")]
        return dict(impl=snap if ex is None else exc_out(ex), fails=fails, req=req, ordered=ordered)

    I = (lambda x: np.int64(x)) if a.get("ints") == "np" else (lambda x: x)    # integer parameters as numpy integers

    if f == "fast_random_hypergraph" or f == "random_hypergraph":
        # ps: list | array of probabilities, or one float (python / numpy) together with a scalar `order`;
        # order: None | list | array of ints | one int.  `ps`, `order` are stored as lists, the shapes say how they are passed.
        n, ps, order = a["n"], a["ps"], a["order"]
        psh, osh = a.get("ps_shape", "list"), a.get("order_shape", "list")
        H, ex, rec = guarded(lambda: getattr(xgi, f)(I(n), shaped(ps, psh), order=None if order is None else shaped(order, osh), seed=seed),
                             force=case.get("force"))
        mismatch = order is not None and len(order) != len(ps)
        if mismatch:
            # lengths differ: `_check_input_args` must refuse (ValueError); modelled (inputRounds)
            req = {"f": f, "n": n, "pks": [kind(p) for p in ps], "order": order, "gaps": [], "coins": []}
            if ex is None:
                fails.append(("invalid-accepted", f"len(ps) = {len(ps)} but len(order) = {len(order)}, and a network was returned"))
                return out(snapshot(H), None)
            if type(ex).__name__ != "ValueError":
                fails.append(("raises", repr(ex)[:200]))
            return out(None, ex)
        orders = order if order is not None else [i + 1 for i in range(len(ps))]
        rounds = [(d + 1, p) for d, p in zip(orders, ps)]
        if ex is not None:
            fails.append(("p1-raises" if any(p == 1 for p in ps) else "raises", repr(ex)[:200]))
            return out(None, ex)
        snap = snapshot(H)
        fails += pred_common(H, snap, range(n)) + pred_sizes(snap, {s for s, p in rounds if p > 0}) + pred_orders(snap, n, rounds)
        fails += pred_forced(case, snap, n, rounds[0][0] if rounds else 0, 1)
        if len({s for s, _ in rounds}) == len(rounds):
            fails += pred_nodup(H, snap)
        if case.get("big"):
            req = None      # index space beyond 2**53: the model's Pascal-recursion choose is not runnable there; predicate only
        elif f == "fast_random_hypergraph":
            req = {"f": f, "n": n, "pks": [kind(p) for p in ps], "order": order, "gaps": rec.gap_list()}
        else:
            coins, it = [], iter(rec.rands)
            for s, p in rounds:
                coins += [r <= p for r in itertools.islice(it, math.comb(n, s))]
            # `extra` != 0: the code drew more / fewer numbers than one per candidate edge (a correspondence failure)
            req = {"f": f, "n": n, "pks": [kind(p) for p in ps], "order": order, "coins": coins,
                   "extra": len(rec.rands) - sum(math.comb(n, s) for s, _ in rounds)}
        return out(snap, None)

    if f == "uniform_erdos_renyi_hypergraph":
        n, m, p, multi, ptype = a["n"], a["m"], a["p"], a["multiedges"], a.get("p_type", "prob")
        H, ex, rec = guarded(lambda: xgi.uniform_erdos_renyi_hypergraph(I(n), I(m), p, p_type=ptype, multiedges=multi, seed=seed),
                             force=case.get("force"))
        if ptype == "degree":
            req = {"f": "uniform_erdos_renyi_degree", "n": n, "m": m, "p": frac(p), "multi": bool(multi), "gaps": rec.gap_list()}
            from fractions import Fraction
            den0 = m * n ** (m - 1) if multi else m * math.comb(n, m)
            if den0 != 0:
                # the branch (q == 0, q == 1, q > 1) as the code's float arithmetic takes it vs exact arithmetic on the same inputs
                qf = p / den0 if multi else p * n / (m * float(math.comb(n, m)))
                qe = Fraction(p) / den0 if multi else Fraction(p) * n / den0
                if (qf == 0, qf == 1, qf > 1) != (qe == 0, qe == 1, qe > 1):
                    req = None
                    LAST["boundary"]["float-boundary:uniform_erdos_renyi_degree"] += 1
        if ex is not None:
            if ptype == "degree":
                from fractions import Fraction
                den = m * n ** (m - 1) if multi else m * math.comb(n, m)
                # a mean degree that needs q > 1 (or an impossible one: no possible edge) is rejected; n = 0 divides by zero
                expected = ("XGIError" if den != 0 and Fraction(p) * (1 if multi else n) / den > 1 else
                            "ZeroDivisionError" if den == 0 and multi else "XGIError" if den == 0 and p * n != 0 else None)
                if type(ex).__name__ != expected:
                    fails.append(("raises", repr(ex)[:200]))
            else:
                fails.append(("p1-raises" if p == 1 else "raises", repr(ex)[:200]))
            return out(None, ex)
        snap = snapshot(H)
        fails += pred_common(H, snap, range(n)) + pred_sizes(snap, {m}, "size-not-m")
        if not multi:
            fails += pred_nodup(H, snap)
        fails += pred_forced(case, snap, n, m, math.factorial(m) if multi else 1)
        if ptype == "degree":
            from fractions import Fraction
            den = m * n ** (m - 1) if multi else m * math.comb(n, m)
            if den != 0:
                qq = Fraction(p) / den if multi else Fraction(p) * n / den
                if qq > 1:
                    fails.append(("degree-q-above-1-accepted", f"mean degree {p} needs q = {qq} > 1 but a network was returned"))
                snap["q"] = float(qq)
                if rec.geo_args and not (abs(float(rec.geo_args[0]) - float(qq)) <= 1e-12):
                    fails.append(("degree-conversion", f"wiring probability {rec.geo_args[0]!r} used, mean degree {p} gives {qq}"))
                if not multi:
                    fails += pred_orders(snap, n, [(m, float(qq))] if qq in (0, 1) else [])
        if ptype == "prob":
            if multi and p == 1:
                want = Counter({tuple(e): math.factorial(m) for e in all_subsets(range(n), m)})
                if Counter(tuple(e) for e in snap["edges"]) != want:
                    fails.append(("p1-incomplete", "multiedges=True, p=1: not every m-tuple with distinct entries exactly once"))
            else:
                fails += pred_orders(snap, n, [(m, p)])
            req = {"f": f, "n": n, "m": m, "multi": bool(multi), "pk": kind(p), "gaps": rec.gap_list()}
            if case.get("big"):
                req = None      # (as for fast_random_hypergraph)
        return out(snap, None)

    if f == "uniform_HSBM":
        m, sizes, p = a["m"], a["sizes"], np.array(a["p"], dtype=float)
        n = sum(sizes)
        H, ex, rec = guarded(lambda: xgi.uniform_HSBM(I(n), I(m), p, shaped(sizes, a.get("sizes_shape", "list")), seed=seed), force=case.get("force"))
        if ex is not None:
            fails.append(("p1-raises" if (p == 1).any() else "raises", repr(ex)[:200]))
            return out(None, ex)
        snap = snapshot(H)
        fails += pred_common(H, snap, range(n)) + pred_sizes(snap, {m}, "size-not-m")
        block_of = [b for b, s in enumerate(sizes) for _ in range(s)]
        got = Counter(tuple(e) for e in snap["edges"])
        must = Counter()
        cum = [sum(sizes[:b]) for b in range(len(sizes) + 1)]
        for block in itertools.product(range(len(sizes)), repeat=m):
            if p[block] == 1 or (case.get("force") == "ones" and p[block] > 0):
                for t in itertools.product(*[range(cum[b], cum[b + 1]) for b in block]):
                    if len(set(t)) == m:
                        must[tuple(sorted(t))] += 1
        lacking = [list(e) for e, k in must.items() if got[e] < k]
        if lacking:
            fails.append(("p1-incomplete", f"blocks with probability 1 lack {lacking[:2]}"))
        for e in got:
            if len(e) != m or not set(e) <= set(range(n)):
                continue   # already reported by the size / membership clauses
            blocks = {tuple(block_of[x] for x in perm) for perm in itertools.permutations(e)}
            if all(p[b] == 0 for b in blocks):
                fails.append(("p0-has-edges", f"edge {list(e)} joins blocks of probability 0"))
                break
        if (((p == 0) | (p == 1)).all() or case.get("force") == "ones") and got != must:
            fails.append(("p1-incomplete", "0/1 tensor: edges differ from the block products"))
        req = {"f": f, "m": m, "sizes": list(sizes), "pks": [kind(x) for x in p.flatten()], "gaps": rec.gap_list()}
        return out(snap, None)

    if f == "uniform_HPPM":
        n, m, k, eps, rho = a["n"], a["m"], a["k"], a["epsilon"], a["rho"]
        H, ex, rec = guarded(lambda: xgi.uniform_HPPM(I(n), I(m), k, eps, rho, seed=seed))
        req = {"f": f, "n": n, "m": m, "k": frac(k), "epsilon": frac(eps), "rho": frac(rho), "gaps": rec.gap_list()}
        from fractions import Fraction
        K, E, R = Fraction(k), Fraction(eps), Fraction(rho)
        valid = 0 <= R <= 1 and K >= 0 and 0 <= E <= 1
        den = m * n ** (m - 1)
        if valid and den != 0:
            pp = K / den
            p_in, p_out = (1 + (1 / (R ** m + (1 - R) ** m) - 1) * E) * pp, (1 - E) * pp
            # the planted-partition tensor the parameters promise (exact), compared with what uniform_HSBM received
            if rec.hsbm_calls:
                _, _, T, sz = rec.hsbm_calls[0]
                want_sz = [int(R * n), n - int(R * n)]
                if [int(x) for x in sz] != want_sz:
                    fails.append(("hppm-sizes", f"community sizes {sz}, expected {want_sz}"))
                for block in itertools.product(range(2), repeat=m):
                    w = p_in if len(set(block)) == 1 else p_out
                    if T.shape != (2,) * m or abs(float(T[block]) - float(w)) > 1e-9 * max(1.0, float(w)):
                        fails.append(("hppm-tensor", f"block {block}: probability {T[block] if T.shape == (2,) * m else T.shape}, expected {float(w)}"))
                        break
            elif ex is None:
                fails.append(("hppm-tensor", "uniform_HSBM was not called"))
        if ex is not None:
            expected = None
            if not valid:
                expected = "XGIError"
            elif den == 0:
                expected = "ZeroDivisionError"
            elif p_in > 1 or p_out > 1:
                expected = "XGIError"
            if type(ex).__name__ != expected:
                one = valid and den != 0 and (p_in == 1 or p_out == 1)
                fails.append(("p1-raises" if one else "raises", repr(ex)[:200]))
            return out(None, ex)
        snap = snapshot(H)
        fails += pred_common(H, snap, range(n)) + pred_sizes(snap, {m}, "size-not-m")
        if not valid or den == 0 or p_in > 1:
            fails.append(("invalid-accepted", "parameters outside the documented range were accepted"))
        elif E == 1 or K == 0:
            n0 = int(R * n)
            mixed = [e for e in snap["edges"] if len({x < n0 for x in e}) == 2]
            if mixed:
                fails.append(("p0-has-edges", f"epsilon = 1 (p_out = 0) but edge {mixed[0]} joins the two communities"))
            if K == 0 and snap["edges"]:
                fails.append(("p0-has-edges", "mean degree 0 but edges were generated"))
        if rec.hsbm_calls:
            snap["tensor"] = [float(x) for x in rec.hsbm_calls[0][2].flatten()]
            snap["sizes"] = [int(x) for x in rec.hsbm_calls[0][3]]
        return out(snap, None)

    if f == "complete_hypergraph":
        n = a["n"]
        kw = {k: v for k, v in a.items() if k not in ("n", "ints")}
        H, ex, rec = guarded(lambda: xgi.complete_hypergraph(I(n), **{k: (I(v) if k != "include_singletons" else v) for k, v in kw.items()}))
        if ex is not None:
            fails.append(("raises", repr(ex)[:200]))
            return out(None, ex)
        snap = snapshot(H)
        if "order" in kw:
            sizes = [kw["order"] + 1]
            req = {"f": f, "n": n, "order": kw["order"]}
        else:
            sizes = list(range(1 if kw.get("include_singletons") else 2, kw["max_order"] + 2))
            req = {"f": f, "n": n, "max_order": kw["max_order"], "singletons": bool(kw.get("include_singletons"))}
        want = Counter(tuple(e) for s in sizes for e in all_subsets(range(n), s))
        fails += pred_common(H, snap, range(n)) + pred_nodup(H, snap)
        if Counter(tuple(e) for e in snap["edges"]) != want:
            fails.append(("complete-not-exact", f"edges are not each admissible node set of sizes {sizes} exactly once"))
        return out(snap, None)

    if f == "uniform_hypergraph_configuration_model":
        k0, m = {int(i): int(d) for i, d in a["k"]}, a["m"]
        H, ex, rec = guarded(lambda: xgi.uniform_hypergraph_configuration_model(dict(k0), I(m), seed=seed))
        if ex is not None:
            fails.append(("raises", repr(ex)[:200]))
            return out(None, ex)
        snap = snapshot(H)
        fails += pred_common(H, snap, k0.keys()) + pred_sizes(snap, {m}, "size-not-m")
        rem = sum(k0.values()) % m
        samples = list(rec.samples)
        bump = []
        # "never exceed the prescribed degrees": strict (no + 1) for every sequence the function accepts as realizable
        # (sum(k) % m == 0; theorem config_degree_le_realizable).  A sequence with a remainder is announced as "not realizable"
        # (warning) and the documented adjustment adds one connection to m - rem randomly chosen nodes: there the bound is
        # prescribed + 1 on exactly those nodes (theorem config_degree_le) and the case is counted separately
        LAST["boundary"]["config-model:realizable-sequence(strict bound)" if rem == 0 else
                         "config-model:non-realizable-sequence(documented +1 adjustment on m - rem nodes)"] += 1
        if rem != 0:
            bump = samples.pop(0)[2]
            if len(bump) != m - rem or len(set(bump)) != len(bump):
                fails.append(("degree-exceeded", f"remainder adjustment touched {bump}"))
        deg = Counter(x for e in snap["edges"] for x in e)
        for i, d in k0.items():
            if deg[i] > d + (1 if i in bump else 0):
                fails.append(("degree-exceeded", f"node {i}: degree {deg[i]} > prescribed {d}{' (+1 adjustment)' if i in bump else ''}"))
                break
        req = {"f": f, "k": [[i, d] for i, d in k0.items()], "m": m, "bump": [int(x) for x in bump],
               "choices": [[int(x) for x in s[2]] for s in samples]}
        return out(snap, None)

    if f in ("chung_lu_hypergraph", "dcsbm_hypergraph"):
        k1 = {int(i): int(d) for i, d in a["k1"]}
        k2 = {int(i): int(d) for i, d in a["k2"]}
        if f == "chung_lu_hypergraph":
            H, ex, rec = guarded(lambda: xgi.chung_lu_hypergraph(dict(k1), dict(k2), seed=seed), force=case.get("force"))
            req = {"f": f, "k1": a["k1"], "k2": a["k2"]}
        else:
            g1 = {int(i): int(g) for i, g in a["g1"]}
            g2 = {int(i): int(g) for i, g in a["g2"]}
            om = np.array(a["omega"])
            H, ex, rec = guarded(lambda: xgi.dcsbm_hypergraph(dict(k1), dict(k2), dict(g1), dict(g2), om, seed=seed),
                                 force=case.get("force"))
            req = {"f": f, "k1": a["k1"], "k2": a["k2"], "g1": a["g1"], "g2": a["g2"], "omega": a["omega"]}
        req["gaps"] = rec.gap_list()
        req["rs"] = [frac(r) for r in rec.rands]
        if f == "dcsbm_hypergraph":
            # the model's probabilities are exact; the code computes k1[u] * k2[v] * (omega / (kappa1 * kappa2)) in binary floating
            # point.  Where the two disagree on the clipping branch `p == 1` (e.g. 49 * (1 / 49) = 0.9999999999999999) the code
            # draws a geometric gap that the exact model does not: such inputs are outside the model (counted, predicate only).
            from fractions import Fraction
            ka, kb = Counter(), Counter()
            for i, gg in g1.items():
                ka[gg] += k1.get(i, 0)
            for i, gg in g2.items():
                kb[gg] += k2.get(i, 0)
            for u in k1:
                for v in k2:
                    if u in g1 and v in g2 and ka[g1[u]] * kb[g2[v]] != 0:
                        den = ka[g1[u]] * kb[g2[v]]
                        fl = k1[u] * k2[v] * (int(om[g1[u], g2[v]]) / den)
                        if (fl >= 1) != (Fraction(k1[u] * k2[v] * int(om[g1[u], g2[v]]), den) >= 1):
                            req = None
            if req is None:
                LAST["boundary"]["float-boundary:dcsbm_hypergraph"] += 1
        S = sum(k1.values())
        if ex is not None:
            # documented inputs are degree / size sequences with a positive sum; on an all-zero degree sequence chung_lu
            # divides by S = 0, and with no edge label at all it indexes an empty list (both modelled as they are)
            expected = None
            if f == "chung_lu_hypergraph" and k1:
                expected = "IndexError" if not k2 else ("ZeroDivisionError" if S == 0 else None)
            if type(ex).__name__ != expected:
                fails.append(("raises", repr(ex)[:200]))
            return out(None, ex)
        snap = bip_snapshot(H)
        fails += pred_common(H, snap, k1.keys())
        if not set(H.edges) <= set(k2):
            fails.append(("edge-id-not-requested", f"edge ids {list(H.edges)} not among {list(k2)}"))
        mem = {int(i): set(int(x) for x in H.edges.members(i)) for i in H.edges}
        for v, ms in mem.items():
            if v not in k2:
                continue
            zero = [u for u in ms if u in k1 and k1[u] * k2[v] == 0]
            if zero:
                fails.append(("zero-degree-incidence", f"node {zero[0]} (degree {k1[zero[0]]}) joined edge {v} (size {k2[v]})"))
                break
            if f == "dcsbm_hypergraph":
                bad = [u for u in ms if u in g1 and om[g1[u], g2[v]] == 0]
                if bad:
                    fails.append(("omega-zero-incidence", f"node {bad[0]} (group {g1[bad[0]]}) joined edge {v} (group {g2[v]}) but omega is 0"))
                    break
        if f == "chung_lu_hypergraph" and S > 0:
            for u in k1:
                if all(k1[u] * k2[v] >= S for v in k2) and any(u not in mem.get(v, ()) for v in k2):
                    fails.append(("saturated-node-missing", f"node {u}: k1[u]*k2[v] >= S for every edge, yet it is not in every edge"))
                    break
        if f == "dcsbm_hypergraph" and all(u in g1 for u in k1) and all(v in g2 for v in k2):
            # the min(p, 1) clipping branch (theorem dcsbm_saturated): a node whose probability k1[u]*k2[v]*omega/(kappa1*kappa2) reaches 1
            # for every edge label v of an edge community b is in every edge of that community.  Decided in exact integers; where the
            # code's float product falls below 1 although the exact value does not, the clause is skipped (counted as float boundary).
            done = False
            for u in k1:
                for b in sorted(set(g2.values())):
                    K = ka[g1[u]] * kb[b]
                    vs = [v for v in k2 if g2[v] == b]
                    w = int(om[g1[u], b])
                    if K <= 0 or not vs or not all(k1[u] * k2[v] * w >= K for v in vs):
                        continue
                    if not all(k1[u] * k2[v] * (w / K) >= 1 for v in vs):
                        LAST["boundary"]["float-boundary:dcsbm_saturated"] += 1
                        continue
                    LAST["boundary"]["clause:dcsbm_saturated"] += 1
                    miss = [v for v in vs if u not in mem.get(v, ())]
                    if miss:
                        fails.append(("saturated-node-missing", f"node {u} (community {g1[u]}): k1[u]*k2[v]*omega >= kappa1*kappa2 for every edge "
                                                                f"of community {b}, yet it is not in edge {miss[0]}"))
                        done = True
                        break
                if done:
                    break
        return out(snap, None)

    if f == "watts_strogatz_hypergraph":
        n, d, k, l, p = a["n"], a["d"], a["k"], a["l"], a["p"]
        H, ex, rec = guarded(lambda: xgi.watts_strogatz_hypergraph(I(n), I(d), I(k), I(l), p, seed=seed))
        coins = [bool(float(x) < p) for x in rec.nprand]
        choices = [[int(x) for x in np.atleast_1d(c[3])] for c in rec.npchoice]
        req = {"f": f, "n": n, "d": d, "k": k, "l": l, "coins": coins, "choices": choices}
        E = n * (k // 2)
        if ex is not None:
            # d > n: no d distinct nodes exist, np.random.choice refuses (ValueError) as soon as a coin fires
            if not (d > n and type(ex).__name__ == "ValueError" and any(coins)):
                fails.append(("raises", repr(ex)[:200]))
            return out(None, ex)
        snap = snapshot(H)
        ids = [int(i) for i in H.edges]
        fails += pred_common(H, snap, range(n))
        if len(snap["edges"]) != E:
            fails.append(("edge-count", f"{len(snap['edges'])} edges, the ring lattice has n*(k//2) = {E}"))
        if len(coins) != E:
            fails.append(("edge-count", f"{len(coins)} coins for {E} lattice edges"))
        fired = [i for i, c in enumerate(coins) if c]
        # removed edges are exactly those whose coin fired; as many new edges (fresh ids) as removed ones
        if ids != [i for i in range(E) if i not in set(fired)] + list(range(E, E + len(fired))):
            fails.append(("rewired-ids", f"edge ids {ids} but coins fired for {fired} of {E} lattice edges"))
        with warnings.catch_warnings():
            warnings.simplefilter("ignore")
            L = xgi.ring_lattice(n, d, k, l)
        lat = {int(i): sorted(int(x) for x in L.edges.members(i)) for i in L.edges}
        for i, e in zip(ids, snap["edges"]):
            if i < E and e != lat.get(i):
                fails.append(("kept-edge-changed", f"edge {i} is {e}, the lattice edge is {lat.get(i)}"))
                break
        for t, e in enumerate(snap["edges"][len(snap["edges"]) - len(fired):] if fired else []):
            if len(e) != d:
                fails.append(("size-not-d", f"rewired edge {e} has {len(e)} distinct nodes, d = {d}"))
                break
            if t < len(fired) and min(lat[fired[t]]) not in e:
                fails.append(("rewired-lost-anchor", f"rewired edge {e} does not contain the smallest node of lattice edge {lat[fired[t]]}"))
                break
        if p == 0 and (ids != list(range(E)) or snap["edges"] != [lat[i] for i in range(E)]):
            fails.append(("p0-not-lattice", "p = 0 but the result is not the ring lattice"))
        if p >= 1 and any(i < E for i in ids):
            fails.append(("p1-incomplete", "p = 1 but a lattice edge was not rewired"))
        if d >= 1 and l + k // 2 + d - 1 <= n:   # the ring lattice it starts from is d-uniform; rewiring must keep the edge size
            fails += pred_sizes(snap, {d}, "size-not-d")
        fails += pred_sizes(snap, set(range(1, d + 1)))
        return out(snap, None)

    if f == "ring_lattice":
        n, d, k, l = a["n"], a["d"], a["k"], a["l"]
        H, ex, rec = guarded(lambda: xgi.ring_lattice(I(n), I(d), I(k), I(l)))
        if ex is not None:
            fails.append(("raises", repr(ex)[:200]))
            return out(None, ex)
        snap = snapshot(H)
        fails += pred_common(H, snap, range(n))
        if len(snap["edges"]) != n * (k // 2):
            fails.append(("edge-count", f"{len(snap['edges'])} edges, expected n*(k//2) = {n * (k // 2)}"))
        if d >= 1 and l + k // 2 + d - 1 <= n:  # no wrap-around collision possible: the lattice is d-uniform
            fails += pred_sizes(snap, {d}, "size-not-d")
        req = {"f": f, "n": n, "d": d, "k": k, "l": l}
        return out(snap, None)

    if f == "sunflower":
        l, c, m = a["l"], a["c"], a["m"]
        H, ex, rec = guarded(lambda: xgi.sunflower(I(l), I(c), I(m)), seconds=0.3)
        if ex is not None:
            fails.append(("raises", repr(ex)[:200]))
            return out(None, ex)
        snap = snapshot(H)
        want_nodes = range(c + l * (m - c)) if l > 0 else []
        fails += pred_common(H, snap, want_nodes) + pred_sizes(snap, {m}, "size-not-m")
        if len(snap["edges"]) != l:
            fails.append(("edge-count", f"{len(snap['edges'])} petals, expected {l}"))
        core = set(range(c))
        for e1, e2 in itertools.combinations(snap["edges"], 2):
            if m > c and set(e1) & set(e2) != core:
                fails.append(("petals-overlap", f"{e1} ∩ {e2} is not the core {sorted(core)}"))
                break
        req = {"f": f, "l": l, "c": c, "m": m}
        return out(snap, None)

    if f == "star_clique":
        ns, nc, dm = a["n_star"], a["n_clique"], a["d_max"]
        H, ex, rec = guarded(lambda: xgi.star_clique(I(ns), I(nc), I(dm)))
        if ex is not None:
            fails.append(("raises", repr(ex)[:200]))
            return out(None, ex)
        snap = snapshot(H)
        fails += pred_common(H, snap, range(ns + nc)) + pred_nodup(H, snap)
        want = [[0, i] for i in range(1, ns)] + [[0, ns]] + [list(e) for d in range(1, dm + 1)
                                                             for e in itertools.combinations(range(ns, ns + nc), d + 1)]
        if Counter(map(tuple, snap["edges"])) != Counter(map(tuple, want)):
            fails.append(("star-clique-structure", "edges are not star legs + bridge + clique faces up to d_max"))
        req = {"f": f, "n_star": ns, "n_clique": nc, "d_max": dm}
        return out(snap, None)

    if f == "trivial_hypergraph":
        n = a["n"]
        cu = a.get("create_using")     # None | "class" | "instance" (a non-empty hypergraph that must be cleared)
        kw = {}
        if cu == "class":
            kw["create_using"] = xgi.Hypergraph
        elif cu == "instance":
            kw["create_using"] = xgi.Hypergraph([[7, 8], [8, 9, 10]])
        H, ex, rec = guarded(lambda: xgi.trivial_hypergraph(I(n), **kw) if n >= 0 else xgi.empty_hypergraph(**kw))
        if ex is not None:
            fails.append(("raises", repr(ex)[:200]))
            return out(None, ex)
        snap = snapshot(H)
        fails += pred_common(H, snap, range(max(n, 0)))
        if snap["edges"]:
            fails.append(("p0-has-edges", "trivial/empty hypergraph has edges"))
        if not isinstance(H, xgi.Hypergraph):
            fails.append(("wrong-class", type(H).__name__))
        req = {"f": f, "n": max(n, 0)}
        return out(snap, None)

    if f in ("empty_dihypergraph", "empty_simplicial_complex"):
        cls = xgi.DiHypergraph if f == "empty_dihypergraph" else xgi.SimplicialComplex
        H, ex, rec = guarded(lambda: getattr(xgi, f)())
        if ex is not None:
            fails.append(("raises", repr(ex)[:200]))
            return out(None, ex)
        if not isinstance(H, cls) or len(H.nodes) != 0 or len(H.edges) != 0:
            fails.append(("not-empty", f"{type(H).__name__} with {len(H.nodes)} nodes and {len(H.edges)} edges"))
        req = {"f": "trivial_hypergraph", "n": 0}
        return out({"nodes": [int(x) for x in H.nodes], "node_list": [int(x) for x in H.nodes], "edges": [list(e) for e in H.edges.members()]}, None)

    if f == "random_simplicial_complex":
        n, ps = a["n"], a["ps"]
        H, ex, rec = guarded(lambda: xgi.random_simplicial_complex(I(n), shaped(ps, a.get("ps_shape", "list")), seed=seed))
        if ex is not None:
            fails.append(("p1-raises" if any(p == 1 for p in ps) else "raises", repr(ex)[:200]))
            return out(None, ex)
        snap = snapshot(H)
        fails += pred_common(H, snap, range(n)) + pred_nodup(H, snap) + downward_closed(snap)
        fails += pred_sizes(snap, set(range(2, len(ps) + 2)))
        for i, p in enumerate(ps):
            if p == 1:
                fails += pred_orders(snap, n, [(i + 2, 1.0)])
        top = len(ps) + 1
        while top >= 2 and ps[top - 2] == 0:   # the highest orders with p = 0 cannot appear as faces either
            if any(len(e) == top for e in snap["edges"]):
                fails.append(("p0-has-edges", f"probability 0 for size {top} (and above) but such simplices exist"))
            top -= 1
        coins = []
        for arr, p in zip(rec.nprand, ps):
            coins += [bool(x <= p) for x in np.atleast_1d(arr)]
        req = {"f": f, "n": n, "sizes": [i + 2 for i in range(len(ps))], "coins": coins}
        ordered = False
        return out(snap, None)

    if f in ("flag_complex", "flag_complex_d2", "random_flag_complex", "random_flag_complex_d2"):
        mo, ps = a.get("max_order", 2), a.get("ps")
        if f.startswith("random"):
            n, p = a["n"], a["p"]
            if f == "random_flag_complex":
                H, ex, rec = guarded(lambda: xgi.random_flag_complex(I(n), p, max_order=None if mo is None else I(mo), seed=seed))
            else:
                H, ex, rec = guarded(lambda: xgi.random_flag_complex_d2(I(n), p, seed=seed))
                mo = 2
            gedges = sorted(sorted(e) for e in rec.graphs[0].edges()) if rec.graphs else None
            if ex is None and gedges is None:
                raise Infra("random_flag_complex did not call networkx.fast_gnp_random_graph")
        else:
            n, gedges = a["n"], [sorted(e) for e in a["edges"]]
            lab = LABELS[a.get("labels", "int")]
            inv = {lab(i): i for i in range(n)}
            G = nx.Graph()
            # the same graph in an arbitrary construction order (vertex order, edge order, edge orientation): the
            # cliques of a graph do not depend on how it was built
            import random as _random
            rr = _random.Random(seed)
            vs = list(range(n))
            ins = [list(e) if rr.random() < 0.5 else list(e)[::-1] for e in gedges]
            if rr.random() < 0.7:
                rr.shuffle(vs)
                rr.shuffle(ins)
            G.add_nodes_from([lab(v) for v in vs])
            held = a.get("held")
            if held:
                # HELD-OBJECT family: the same graph object was already passed to the generator once, with other options and
                # before an edit that keeps the numbers of nodes and edges; the call judged below must not see any of that
                G.add_edges_from([[lab(x) for x in e] for e in held["edges0"]])
                if f == "flag_complex":
                    guarded(lambda: xgi.flag_complex(G, max_order=held.get("max_order", 2), ps=held.get("ps"), seed=seed))
                else:
                    guarded(lambda: xgi.flag_complex_d2(G, p2=held.get("p2"), seed=seed))
                G.remove_edges_from(list(G.edges()))
            G.add_edges_from([[lab(x) for x in e] for e in ins])
            if f == "flag_complex":
                H, ex, rec = guarded(lambda: xgi.flag_complex(G, max_order=None if mo is None else I(mo), ps=None if ps is None else shaped(ps, a.get("ps_shape", "list")), seed=seed))
            else:
                H, ex, rec = guarded(lambda: xgi.flag_complex_d2(G, p2=a.get("p2"), seed=seed))
                ps = None if a.get("p2") is None else [a["p2"]]
                mo = 2
        if ex is not None:
            fails.append(("raises", repr(ex)[:200]))
            return out(None, ex)
        if not f.startswith("random") and a.get("labels", "int") != "int":
            snap, foreign = snapshot_lab(H, inv)
            if snap is None:
                fails.append(("node-set", foreign))
                return out({"out": "foreign-labels"}, None)
        else:
            snap = snapshot(H)
        top = n if mo is None else mo      # max_order=None: no bound (the faces of the maximal cliques)
        single = [e for e in snap["edges"] if len(e) == 1]
        if single:
            # a flag complex holds the cliques with at least two nodes (that is what every int max_order produces); a node
            # without neighbours is a node of the complex, not a simplex.  Reported on its own, the remaining clauses are
            # evaluated on the simplices with >= 2 nodes.
            fails.append(("singleton-simplex", f"max_order={mo}: 1-node simplices {single[:3]} (nodes without neighbours) although "
                                               f"no other node is a simplex: not the cliques of the graph under either reading"))
            snap = dict(snap, edges=[e for e in snap["edges"] if len(e) != 1])
        fails += pred_common(H, snap, range(n)) + pred_nodup(H, snap) + downward_closed(snap)
        cl = cliques_of(range(n), gedges, 2, top + 1)
        got = sorted(snap["edges"])
        exact = not ps or all(p == 1 for p in ps[: max(top - 1, 0)]) and len(ps) >= top - 1
        if f == "random_flag_complex" and top == 0:
            cl = []
        if exact:
            if got != sorted(cl):
                fails.append(("flag-not-cliques", f"simplices differ from the cliques with 2..{top + 1} nodes: "
                                                  f"missing {[c for c in cl if c not in got][:2]}, extra {[c for c in got if c not in cl][:2]}"))
            req = {"f": "flag_complex", "n": n, "edges": gedges, "max_order": top}
            if f == "random_flag_complex" and top == 0:
                req = None
        else:
            if any(e not in cl for e in got):
                fails.append(("flag-not-cliques", f"simplex {[e for e in got if e not in cl][:1]} is not a clique of the graph"))
            if any(e not in got for e in cl if len(e) == 2):
                fails.append(("flag-not-cliques", "a graph edge is missing"))
            if all(p == 0 for p in ps) and any(len(e) > 2 for e in got):
                fails.append(("p0-has-edges", "promotion probability 0 but a clique was filled"))
            # which cliques won their coin: the recorded clique list (in the code's own order) zipped with the recorded draws
            listed = rec.cliques[0] if rec.cliques else []
            if not f.startswith("random") and a.get("labels", "int") != "int":
                listed = [sorted(inv[x] for x in c) for c in listed]
            coins, picked = iter(rec.rands), []
            if f == "flag_complex_d2":
                picked = [c for c in listed if next(coins, 2.0) <= ps[0]]    # 2.0: a draw the code did not make
            else:
                for i, p in enumerate(ps[: top - 1]):
                    picked += [c for c in listed if len(c) == i + 3 and next(coins, 2.0) <= p]
            req = {"f": "flag_complex_ps", "n": n, "edges": gedges, "max_order": top, "picked": picked, "extra": len(list(coins))}
        if single:
            req = None       # the model describes the complex without 1-node simplices; the predicate failure above is the report
        if any(cls == "p0-has-edges" for cls, _ in fails):
            req = None       # (the same: the predicate failure is the report, the model has no promoted clique)
        ordered = False
        return out(snap, None)

    if f == "shuffle_hyperedges":
        # randomizing generator (xgi/generators/randomizing.py): predicate only, no Lean model.  The statement's clauses that apply:
        # exactly the node set of the input, every edge a set of existing nodes, the shuffled edges keep their size (order + 1),
        # the other edges are untouched, p = 0 changes nothing; the rejection loop `while new_hyperedge in H._edge.values()` shows
        # that a shuffled edge must not repeat an existing edge (judged on inputs without repeated edges)
        n, edges, d, p = a["n"], [sorted(e) for e in a["edges"]], a["order"], a["p"]
        lab = LABELS[a.get("labels", "int")]
        inv = {lab(i): i for i in range(n)}
        cls_in = a.get("cls", "Hypergraph")
        if cls_in == "SimplicialComplex":
            S = xgi.SimplicialComplex()
            S.add_nodes_from([lab(i) for i in range(n)])
            for e in edges:
                S.add_simplex([lab(x) for x in e])
            edges = sorted(sorted(inv[x] for x in e) for e in S.edges.members())
        else:
            S = (type("MyHypergraph", (xgi.Hypergraph,), {}) if cls_in == "subclass" else xgi.Hypergraph)()
            S.add_nodes_from([lab(i) for i in range(n)])
            for e in edges:
                S.add_edge([lab(x) for x in e])
        held = a.get("held")
        if held and cls_in != "SimplicialComplex":
            # HELD-OBJECT family: the same network object went through the generator once (other order / p) in an earlier state:
            # one edge differed (same numbers of nodes and edges)
            last = list(S.edges)[-1]
            S.remove_edge(last)
            S.add_edge([lab(x) for x in held["edge0"]])
            guarded(lambda: xgi.shuffle_hyperedges(S, held["order"], held["p"], seed=seed), seconds=4.0)
            S.remove_edge(list(S.edges)[-1])
            S.add_edge([lab(x) for x in edges[-1]])
        before = snapshot_lab(S, inv)[0]
        H, ex, rec = guarded(lambda: xgi.shuffle_hyperedges(S, I(d), p, seed=seed), seconds=4.0)
        if ex is not None:
            fails.append(("raises", repr(ex)[:200]))
            return out(None, ex)
        if snapshot_lab(S, inv)[0] != before:
            fails.append(("input-changed", "the network handed in is not the same afterwards"))
        snap, foreign = snapshot_lab(H, inv)
        if snap is None:
            fails.append(("node-set", foreign))
            return out({"out": "foreign-labels"}, None)
        if not isinstance(H, xgi.Hypergraph) or isinstance(H, xgi.SimplicialComplex):
            fails.append(("wrong-class", f"returned a {type(H).__name__}, documented: a Hypergraph"))
        fails += pred_common(H, snap, range(n))
        got = snap["edges"]
        if sorted(len(e) for e in got) != sorted(len(e) for e in edges):
            fails.append(("size-not-allowed", f"edge sizes {sorted(len(e) for e in got)} differ from the input's {sorted(len(e) for e in edges)}: "
                                              f"a shuffled edge must keep size {d + 1}, no edge may be lost or added"))
        if sorted(e for e in got if len(e) != d + 1) != sorted(e for e in edges if len(e) != d + 1):
            fails.append(("other-orders-changed", f"edges of sizes other than {d + 1} differ from the input's"))
        if p == 0 and sorted(got) != sorted(edges):
            fails.append(("p0-has-edges", "p = 0 but an edge was shuffled"))
        if len({tuple(e) for e in edges}) == len(edges):
            fails += [x for x in pred_nodup(H, snap) if x[0] == "duplicate-edge"][:1]
        return out(snap, None)

    if f == "node_swap":
        # xgi/generators/randomizing.py, deterministic: the result is the input with the two nodes exchanged in the edges of the
        # given order (all edges for order=None) - same node set, every edge keeps its size, the input is not changed
        n, edges, d = a["n"], [sorted(e) for e in a["edges"]], a.get("order")
        lab = LABELS[a.get("labels", "int")]
        inv = {lab(i): i for i in range(n)}
        S = xgi.Hypergraph()
        S.add_nodes_from([lab(i) for i in range(n)])
        for e in edges:
            S.add_edge([lab(x) for x in e])
        before = snapshot_lab(S, inv)[0]
        x1, x2 = a["nid1"], a["nid2"]
        H, ex, rec = guarded(lambda: xgi.node_swap(S, lab(x1), lab(x2), order=d))
        if ex is not None:
            fails.append(("raises", repr(ex)[:200]))
            return out(None, ex)
        if snapshot_lab(S, inv)[0] != before:
            fails.append(("input-changed", "the network handed in is not the same afterwards"))
        snap, foreign = snapshot_lab(H, inv)
        if snap is None:
            fails.append(("node-set", foreign))
            return out({"out": "foreign-labels"}, None)
        fails += pred_common(H, snap, range(n))
        tr = {x1: x2, x2: x1}
        want = sorted(sorted(tr.get(x, x) for x in e) if (d is None or len(e) == d + 1) else e for e in edges)
        if sorted(snap["edges"]) != want:
            fails.append(("swap-not-exact", f"edges {sorted(snap['edges'])} but exchanging {x1} and {x2} in the edges of "
                                            f"{'every order' if d is None else 'order ' + str(d)} gives {want}"))
        return out(snap, None)

    raise Infra(f"unknown generator {f}")


# ------------------------------------------------------------------------------------------- decoders

def decoder_cases(ctx):
    N = ctx.n(7, 9)
    cases = [{"f": "decode_comb_all", "n": n, "m": m} for n in range(N + 1) for m in range(n + 1)]
    cases += [{"f": "decode_prod_all", "n": n, "m": m} for n in range(ctx.n(5, 7)) for m in range(ctx.n(4, 5))]
    top, ln = ctx.n(4, 5), ctx.n(3, 4)
    cases += [{"f": "decode_partition_all", "sizes": list(s)} for k in range(ln + 1) for s in itertools.product(range(top), repeat=k)]
    return cases


def budgeted(site, fn, seconds):
    """fn() under the CPU-time budget of `guarded`, with the warnings it emits collected (guarded() itself silences them):
    returns (value, exception | None, [warning messages]).  A decoder that loops for ever must not hang the check."""
    wl = []

    def body():
        with warnings.catch_warnings(record=True) as w:
            warnings.simplefilter("always")
            try:
                return fn()
            finally:
                wl.extend(str(x.message) for x in w)
    LAST["f"] = site
    if LAST["expired"][site] >= MAX_EXPIRIES:
        return None, Timeout(), wl
    val, ex, _ = guarded(body, seconds=seconds)
    return val, ex, wl


def rank_comb(c, n, m):
    """lexicographic rank of the strictly increasing m-tuple `c` among itertools.combinations(range(n), m), exact integers
    (hockey-stick: the tuples with the same prefix and a smaller entry v at position i number C(n-1-v, m-i-1) each)"""
    rank, prev = 0, -1
    for i, ci in enumerate(c):
        rank += math.comb(n - (prev + 1), m - i) - math.comb(n - ci, m - i)
        prev = ci
    return rank


def big_decoder_cases(ctx):
    """single indices far beyond the exhaustive scope: index spaces larger than 2**53 (where a float anywhere in the decoder
    loses the low bits), at the boundaries where an entry of the decoded tuple changes, at both ends, and at PRNG-drawn
    indices.  `comb`: predicate only (decoded tuple strictly increasing within range(n) and of lexicographic rank = index;
    the model's choose is a Pascal recursion, not runnable at this size - the theorem comb_decode covers all n, m);
    `prod`, `partition`: predicate (exact mixed-radix reference) + the model on the same index."""
    rng = ctx.rng
    cases = []
    for n, m in [(300, 10), (64, 32), (1000, 8), (100000, 5), (400000, 3)]:
        tot = math.comb(n, m)
        b1 = math.comb(n - 1, m - 1)                     # first index whose tuple starts with 1
        b2 = b1 + math.comb(n - 2, m - 1)                # ... with 2
        c2 = math.comb(n - 2, m - 2)                     # first index whose tuple starts with 0, 2
        idx = [0, 1, b1 - 1, b1, b1 + 1, b2 - 1, b2, c2 - 1, c2, tot - 1]
        idx += [rng.randrange(min(tot, 2 * b2)) for _ in range(ctx.n(3, 12))]
        cases.append({"f": "decode_big", "which": "comb", "n": n, "m": m, "indices": sorted(set(i for i in idx if 0 <= i < tot))})
    for n, m in [(2 ** 21, 3), (10 ** 6, 3), (1000, 7)]:
        tot = n ** m
        idx = [0, 2 ** 53 + 1, 2 ** 53 + 3, tot - 1, tot - 2, n ** (m - 1), n ** (m - 1) - 1]
        idx += [rng.randrange(2 ** 53, tot) for _ in range(ctx.n(4, 20))]
        cases.append({"f": "decode_big", "which": "prod", "n": n, "m": m, "indices": sorted(set(i for i in idx if 0 <= i < tot))})
    for sizes in ([300000, 300000, 300000], [7, 10 ** 9, 10 ** 9], [3, 5, 2 ** 31, 2 ** 30]):
        tot = math.prod(sizes)
        idx = [0, 2 ** 53 + 1, 2 ** 53 + 3, tot - 1, tot - 2, tot // sizes[0], tot // sizes[0] - 1]
        idx += [rng.randrange(2 ** 53, tot) | 1 for _ in range(ctx.n(4, 20))]
        cases.append({"f": "decode_big", "which": "partition", "sizes": sizes, "indices": sorted(set(i for i in idx if 0 <= i < tot))})
    return cases


def run_decoder_big(c):
    """returns (list of (index, decoded), predicate failures [(site, class, detail)], model requests for the indices that passed)"""
    _, GU, _ = _mods()
    fails, out, reqs = [], [], []
    which = c["which"]
    site = {"comb": "_index_to_edge_comb", "prod": "_index_to_edge_prod", "partition": "_index_to_edge_partition"}[which]
    w = []
    if True:
        for i in c["indices"]:
            if LAST["expired"][site] >= MAX_EXPIRIES:
                break
            if which == "comb":
                call = lambda: [int(x) for x in GU._index_to_edge_comb(i, c["n"], c["m"])]
            elif which == "prod":
                call = lambda: [int(x) for x in GU._index_to_edge_prod(i, c["n"], c["m"])]
            else:
                call = lambda: [int(x) for x in GU._index_to_edge_partition(i, list(c["sizes"]), len(c["sizes"]))]
            got, ex, wl = budgeted(site, call, 4.0)
            w += wl
            if isinstance(ex, Timeout):
                fails.append((site, "nonterminating", f"index {i}: no result within the CPU-time budget"))
                continue
            if ex is not None:
                fails.append((site, "raises", f"index {i}: {ex!r}"[:160]))
                continue
            out.append([i, got])
            if which == "comb":
                n, m = c["n"], c["m"]
                good = len(got) == m and all(0 <= x < n for x in got) and all(a < b for a, b in zip(got, got[1:]))
                if not good or rank_comb(got, n, m) != i:
                    fails.append((site, "not-bijection-large-index", f"comb({n}, {m}), index {i}: decoded {got}, which is "
                                  + (f"the tuple of rank {rank_comb(got, n, m)}" if good else "not an increasing tuple within range(n)")))
                continue
            radix = [c["n"]] * c["m"] if which == "prod" else list(c["sizes"])
            want, rest = [], i
            for sz in reversed(radix):
                want.append(rest % sz)
                rest //= sz
            want.reverse()
            if got != want:
                fails.append((site, "not-bijection-large-index", f"sizes {radix}, index {i}: decoded {got}, the tuple with this "
                                                                 f"mixed-radix index is {want}"))
            elif which == "prod":
                reqs.append(({"f": "index_to_edge_prod", "n": c["n"], "m": c["m"], "index": i}, got))
            else:
                reqs.append(({"f": "index_to_edge_partition", "sizes": radix, "index": i}, got))
    if w:
        fails.append((site, "warns-on-valid-index", w[0][:120]))
    # one report per case (the first failing index), the count in the detail
    if len(fails) > 1:
        fails = [(fails[0][0], fails[0][1], fails[0][2] + f" (+{len(fails) - 1} more indices of this case)")]
    return out, fails, reqs


def run_decoder(c):
    """returns (impl result, predicate failures): the predicate is `bijection onto itertools.combinations/product`"""
    _, GU, _ = _mods()
    fails = []
    wlist = []

    def sweep(dec, cnt):
        val, ex, wl = budgeted(site, lambda: [[int(x) for x in dec(i)] for i in range(cnt)], 5.0)
        wlist.extend(wl)
        return val, ex

    if c["f"] == "decode_comb_all":
        n, m = c["n"], c["m"]
        cnt = math.comb(n, m)
        site = "_index_to_edge_comb"
        got, ex = sweep(lambda i: GU._index_to_edge_comb(i, n, m), cnt)
        ref = [list(t) for t in itertools.combinations(range(n), m)]
    elif c["f"] == "decode_prod_all":
        n, m = c["n"], c["m"]
        cnt = n ** m
        site = "_index_to_edge_prod"
        got, ex = sweep(lambda i: GU._index_to_edge_prod(i, n, m), cnt)
        ref = [list(t) for t in itertools.product(range(n), repeat=m)]
    else:
        sizes = c["sizes"]
        cnt = int(np.prod(sizes)) if sizes else 1
        site = "_index_to_edge_partition"
        got, ex = sweep(lambda i: GU._index_to_edge_partition(i, sizes, len(sizes)), cnt)
        ref = [list(t) for t in itertools.product(*[range(s) for s in sizes])]
    w = wlist
    if ex is not None:
        cls = "nonterminating" if isinstance(ex, Timeout) else "raises"
        fails.append((site, cls, "decoding every valid index: " + ("no result within the CPU-time budget" if cls == "nonterminating" else repr(ex)[:120])))
        return {"all": None, "ref": ref, "count": cnt}, fails
    if w:
        fails.append((site, "warns-on-valid-index", w[0][:120]))
    if got != ref:
        bad = next(i for i in range(max(len(got), len(ref))) if i >= len(got) or i >= len(ref) or got[i] != ref[i])
        fails.append((site, "not-bijection", f"index {bad}: decoded {got[bad] if bad < len(got) else None}, "
                                              f"itertools gives {ref[bad] if bad < len(ref) else None}"))
    return {"all": got, "ref": ref, "count": cnt}, fails


def geometric_boundaries(ctx):
    """geometric(p) at boundary values of p and of the uniform draw: always an integer >= 1 or +inf, never an exception"""
    import xgi.utils.utilities as U
    orig = pyrandom.random
    rs = [0.0, 5e-324, 1e-300, 1e-17, 0.5, 1 - 2 ** -53]
    pvals = [1.0, 1, 1 - 2 ** -53, 0.9, 0.5, 0.3, 1e-9, 1e-16, 1e-17, 5e-324, 0.0, 0]
    try:
        for p in pvals:
            for r in rs:
                pyrandom.random = lambda r=r: r
                ctx.evaluations += 1
                ctx.stats["fn:geometric"] += 1
                case = {"f": "geometric", "args": {"p": p, "uniform_draw": r}}
                try:
                    with warnings.catch_warnings():
                        warnings.simplefilter("ignore")
                        g = U.geometric(p)
                except Exception as ex:  # noqa
                    ctx.violation("geometric", "raises", case, detail=repr(ex)[:120])
                    continue
                okv = (isinstance(g, float) and math.isinf(g) and g > 0) or (float(g) == int(g) and g >= 1)
                if not okv:
                    ctx.violation("geometric", "gap-below-one", case, detail=f"geometric({p}) with random()={r} returned {g!r}")
                if p == 1 and g != 1:
                    ctx.violation("geometric", "p1-gap-not-one", case, detail=f"geometric(1) returned {g!r}")
    finally:
        pyrandom.random = orig


# ------------------------------------------------------------------------------------------- case generation

# generators whose int parameters are dict contents / graphs / absent: the numpy-integer variant does not apply
NO_NP_INTS = {"chung_lu_hypergraph", "dcsbm_hypergraph", "flag_complex_d2", "empty_dihypergraph", "empty_simplicial_complex"}


def gen_cases(ctx, scale=1):
    rng = ctx.rng
    seeds = lambda k: [rng.randrange(10 ** 6) for _ in range(k * scale)]
    cases = []
    def add(f, args, seed=None):
        # integer parameters are passed as numpy integers in a quarter of the cases (results of numpy arithmetic are what
        # callers often have in hand); the flag is part of the case, hence of the replay
        # (not for the mean-degree arithmetic on n = 0, where numpy integers turn Python's ZeroDivisionError into inf / nan)
        if rng.random() < 0.25 and f not in NO_NP_INTS and not (args.get("n") == 0 and (f == "uniform_HPPM" or args.get("p_type") == "degree")):
            args = dict(args, ints="np")
        cases.append({"f": f, "args": args, "seed": seed})
    q = ctx.quick

    # fast_random_hypergraph / random_hypergraph
    for n in range(0, ctx.n(7, 9)):
        for _ in range(ctx.n(20, 300) * scale):
            if rng.random() < 0.5:
                order = None
                ps = [rng.choice(PS) for _ in range(rng.randint(1, 3))]
            else:
                order = rng.sample(range(0, 5), rng.randint(1, 3))
                if rng.random() < 0.15:
                    order.append(rng.choice(order))      # a repeated order is legal
                ps = [rng.choice(PS) for _ in order]
            if rng.random() < 0.1:
                ps[rng.randrange(len(ps))] = rng.choice([1e-18, 1e-12, 1 - 1e-16, 0.5])
            # how the arguments are passed: lists or numpy arrays (independently), probabilities 0 / 1 as ints or floats
            shapes = {"ps_shape": rng.choice(["list", "list", "array"])}
            if order is not None:
                shapes["order_shape"] = rng.choice(["list", "list", "array"])
            if rng.random() < 0.3:
                ps = [int(p) if p in (0, 1) and shapes["ps_shape"] == "list" else p for p in ps]
            add("fast_random_hypergraph", dict({"n": n, "ps": ps, "order": order}, **shapes), rng.randrange(10 ** 6))
            if n <= 6:
                add("random_hypergraph", dict({"n": n, "ps": ps, "order": order}, **shapes), rng.randrange(10 ** 6))
        # the scalar form: one float probability with one int order ("generate a uniform hypergraph")
        for d in range(0, 5):
            for p in PS + [0.5]:
                for _ in range(ctx.n(1, 6) * scale):
                    sc = {"ps_shape": rng.choice(["scalar", "scalar", "npscalar"]), "order_shape": "int"}
                    add("fast_random_hypergraph", dict({"n": n, "ps": [float(p)], "order": [d]}, **sc), rng.randrange(10 ** 6))
                    if n <= 6 and rng.random() < 0.5:
                        add("random_hypergraph", dict({"n": n, "ps": [float(p)], "order": [d]}, **sc), rng.randrange(10 ** 6))
        # len(ps) != len(order): refused with ValueError
        for _ in range(2 * scale):
            order = rng.sample(range(0, 5), rng.randint(1, 3))
            ps = [rng.choice(PS) for _ in range(rng.choice([k for k in (1, 2, 3, 4) if k != len(order)]))]
            f = rng.choice(["fast_random_hypergraph", "random_hypergraph"])
            add(f, {"n": n, "ps": ps, "order": order, "ps_shape": rng.choice(["list", "array"]), "order_shape": rng.choice(["list", "array"])}, 1)
    # every p of the grid at every (n, order), boundary-heavy
    for n in range(0, ctx.n(6, 9)):
        for d in range(0, 4):
            for p in PS:
                for s in seeds(2 if q else 12):
                    add("fast_random_hypergraph", {"n": n, "ps": [p], "order": [d]}, s)

    # uniform_erdos_renyi_hypergraph
    for n in range(1, ctx.n(7, 9)):
        for m in range(1, 5):
            for p in PS + [0.6]:
                for multi in (False, True):
                    if multi and n ** m > 5000:
                        continue
                    for s in seeds(2 if q else 15):
                        add("uniform_erdos_renyi_hypergraph", {"n": n, "m": m, "p": p, "multiedges": multi}, s)
            for s in seeds(2 if q else 10):
                # mean degree -> wiring probability: 0, exactly 1 (p = m*C(n,m)/n resp. m*n**(m-1)), above 1 (rejected), in between
                multi = rng.random() < 0.5
                top = m * n ** (m - 1) if multi else (m * math.comb(n, m) / n)
                pd = rng.choice([0, 0.5, 1.5, 3, top, top / 2, top * 2, 0.25])
                if multi and n ** m > 5000:
                    continue
                add("uniform_erdos_renyi_hypergraph", {"n": n, "m": m, "p": pd, "multiedges": multi, "p_type": "degree"}, s)
    for m in range(1, 4):
        for multi in (False, True):
            add("uniform_erdos_renyi_hypergraph", {"n": 0, "m": m, "p": rng.choice([0, 1.5]), "multiedges": multi, "p_type": "degree"}, 1)

    # forced gap oracles: the boundary indices of the skip-sampling loops, deterministically
    for n in range(1, ctx.n(7, 9)):
        for size in range(1, min(n, 4) + 1):
            cnt = math.comb(n, size)
            forced = [("ones", None), ([cnt, 5], "last"), ([cnt + 1, 1], "beyond")] + ([([1, cnt - 1, 3], "firstlast")] if cnt >= 2 else [])
            for force, fk in forced:
                extra = {"force": force, "force_kind": fk}
                cases.append(dict({"f": "fast_random_hypergraph", "args": {"n": n, "ps": [0.5], "order": [size - 1]}, "seed": 1}, **extra))
                cases.append(dict({"f": "uniform_erdos_renyi_hypergraph", "args": {"n": n, "m": size, "p": 0.5, "multiedges": False},
                                   "seed": 1}, **extra))
            if n ** size <= 5000:
                cases.append({"f": "uniform_erdos_renyi_hypergraph", "args": {"n": n, "m": size, "p": 0.5, "multiedges": True}, "seed": 1,
                              "force": "ones", "force_kind": None})
    for _ in range(ctx.n(60, 600) * scale):
        m = rng.choice([2, 2, 3])
        nb = rng.randint(1, 3 if m == 2 else 2)
        sizes = [rng.randint(1, 4 if m == 2 else 3) for _ in range(nb)]
        p = np.array([rng.choice([0.0, 0.5, 0.5, 1.0]) for _ in range(nb ** m)]).reshape([nb] * m)
        cases.append({"f": "uniform_HSBM", "args": {"m": m, "sizes": sizes, "p": p.tolist()}, "seed": 1, "force": "ones", "force_kind": None})
    # the same boundary oracles where the number of candidate edges exceeds 2**53 (a float anywhere in `max_index` shows here)
    for n, size in [(64, 32), (70, 30), (200, 12)]:
        cnt = math.comb(n, size)
        for force, fk in [([cnt, 5], "last"), ([cnt + 1, 1], "beyond"), ([1, cnt - 1, 3], "firstlast")]:
            extra = {"force": force, "force_kind": fk, "big": True}
            cases.append(dict({"f": "fast_random_hypergraph", "args": {"n": n, "ps": [0.5], "order": [size - 1]}, "seed": 1}, **extra))
            cases.append(dict({"f": "uniform_erdos_renyi_hypergraph", "args": {"n": n, "m": size, "p": 0.5, "multiedges": False},
                               "seed": 1}, **extra))

    # uniform_HSBM / HPPM
    for _ in range(ctx.n(500, 12000) * scale):
        m = rng.choice([2, 2, 3])
        nb = rng.randint(1, 3 if m == 2 else 2)
        sizes = [rng.randint(0 if rng.random() < 0.1 else 1, 4 if m == 2 else 3) for _ in range(nb)]
        mode = rng.random()
        vals = [1.0] if mode < 0.1 else ([0.0, 1.0] if mode < 0.25 else (PS if mode < 0.6 else [0.0, 0.3, 0.9]))
        p = np.array([rng.choice(vals) for _ in range(nb ** m)]).reshape([nb] * m)
        add("uniform_HSBM", {"m": m, "sizes": sizes, "p": p.tolist(), "sizes_shape": rng.choice(["list", "list", "array", "tuple"])}, rng.randrange(10 ** 6))
    for _ in range(ctx.n(150, 3000) * scale):
        n, m = rng.randint(0, 8), rng.choice([1, 2, 2, 3])
        kk = rng.choice([0, 1, 2, 3, 0.5, 2.5, 6, -1, m * n ** (m - 1), m * n ** (m - 1) / 2])
        add("uniform_HPPM", {"n": n, "m": m, "k": kk, "epsilon": rng.choice([0, 0.5, 0.9, 1, 1, 0.25, 1.5]),
                             "rho": rng.choice([0.5, 0.5, 0.3, 0.25, 0, 1, 0.75, -0.5, 1.5])}, rng.randrange(10 ** 6))

    # complete_hypergraph
    for n in range(0, ctx.n(7, 8)):
        for o in range(0, 5):
            add("complete_hypergraph", {"n": n, "order": o})
            for sing in (False, True):
                if o == 0 and not sing:
                    continue  # asserted away by the code itself (end >= start)
                add("complete_hypergraph", {"n": n, "max_order": o, "include_singletons": sing})

    # configuration model
    for _ in range(ctx.n(600, 20000) * scale):
        m = rng.randint(1, 4)
        nn = rng.randint(m, 8)
        ids = rng.sample(range(0, 12), nn) if rng.random() < 0.3 else list(range(nn))
        k = [[i, rng.randint(0, 4)] for i in ids]
        add("uniform_hypergraph_configuration_model", {"k": k, "m": m}, rng.randrange(10 ** 6))

    # chung_lu / dcsbm: degree / size sequences incl. zero entries, all-zero sequences, saturated products (p clipped to 1),
    # non-contiguous ids, communities with omega = 0 and with zero total degree
    for _ in range(ctx.n(250, 6000) * scale):
        nn, ne = rng.randint(0 if rng.random() < 0.05 else 1, 7), rng.randint(0 if rng.random() < 0.05 else 1, 6)
        hi = rng.choice([2, 4, 4, 9])
        ids1 = rng.sample(range(0, 15), nn) if rng.random() < 0.3 else list(range(nn))
        ids2 = rng.sample(range(0, 15), ne) if rng.random() < 0.3 else list(range(ne))
        k1 = [[i, rng.randint(0, hi)] for i in ids1]
        k2 = [[j, rng.randint(0, hi)] for j in ids2]
        r = rng.random()
        if r < 0.06:
            k1 = [[i, 0] for i, _ in k1]
        elif r < 0.1:
            k2 = [[j, 0] for j, _ in k2]
        elif r < 0.3 and k1 and k2:
            k1[rng.randrange(nn)][1] = sum(d for _, d in k1) + 3     # this node's product with every positive size is >= S
        add("chung_lu_hypergraph", {"k1": k1, "k2": k2}, rng.randrange(10 ** 6))
        ng = rng.choice([1, 2, 2, 3])
        g1 = [[i, rng.randint(0, ng - 1)] for i in ids1]
        g2 = [[j, rng.randint(0, ng - 1)] for j in ids2]
        omega = [[rng.choice([0, 0, 1, 3, 6, 12, 40]) for _ in range(ng)] for _ in range(ng)]
        add("dcsbm_hypergraph", {"k1": k1, "k2": k2, "g1": g1, "g2": g2, "omega": omega}, rng.randrange(10 ** 6))
    # forced gap oracles: every geometric() answers 1 (each label after position j is passed over) / a fixed pattern
    for _ in range(ctx.n(30, 400) * scale):
        nn, ne = rng.randint(1, 5), rng.randint(1, 6)
        k1 = [[i, rng.randint(0, 4)] for i in range(nn)]
        k2 = [[j, rng.randint(0, 4)] for j in range(ne)]
        force = rng.choice(["ones", [rng.randint(1, 3) for _ in range(40)]])
        cases.append({"f": "chung_lu_hypergraph", "args": {"k1": k1, "k2": k2}, "seed": rng.randrange(10 ** 6), "force": force})
        g1 = [[i, rng.randint(0, 1)] for i in range(nn)]
        g2 = [[j, rng.randint(0, 1)] for j in range(ne)]
        omega = [[rng.choice([0, 1, 3, 6]) for _ in range(2)] for _ in range(2)]
        cases.append({"f": "dcsbm_hypergraph", "args": {"k1": k1, "k2": k2, "g1": g1, "g2": g2, "omega": omega},
                      "seed": rng.randrange(10 ** 6), "force": force})

    # watts_strogatz: the whole lattice grid (uniform and wrap-around lattices, d = 1, d > n) x p x seeds
    for n in range(0, ctx.n(8, 10)):
        for d in range(1, 6):
            for k in (0, 2, 3, 4, 6):
                for l in (0, 1, 2, 3):
                    for _ in range(1 if q else 6):
                        if q and rng.random() < 0.6:
                            continue
                        add("watts_strogatz_hypergraph", {"n": n, "d": d, "k": k, "l": l, "p": rng.choice([0, 0.3, 0.7, 1])}, rng.randrange(10 ** 6))

    # lattice / simple / classic
    for n in range(0, ctx.n(8, 10)):
        for d in range(1, 5):
            for k in (0, 2, 3, 4, 6):
                for l in (0, 1, 2, 3):
                    if q and rng.random() < 0.5:
                        continue
                    add("ring_lattice", {"n": n, "d": d, "k": k, "l": l})
    for l in range(0, 5):
        for c in range(0, 4):
            for m in range(max(c, 1), c + 4):
                if m == c and (l, c) not in ((0, 1), (2, 2), (3, 1)):
                    continue   # core-only sunflowers: three representatives (each costs a time-out while unfixed)
                add("sunflower", {"l": l, "c": c, "m": m})
    for ns in range(1, 5):
        for nc in range(1, 6):
            for dm in range(0, nc):
                add("star_clique", {"n_star": ns, "n_clique": nc, "d_max": dm})
    for n in range(-1, 6):
        for cu in (None, "class", "instance"):
            add("trivial_hypergraph", {"n": n, "create_using": cu})
    add("empty_dihypergraph", {})
    add("empty_simplicial_complex", {})

    # simplicial complexes
    for n in range(0, ctx.n(6, 7)):
        for _ in range(ctx.n(25, 400) * scale):
            ps = [rng.choice(PS) for _ in range(rng.randint(1, 3))]
            add("random_simplicial_complex", {"n": n, "ps": ps, "ps_shape": rng.choice(["list", "list", "array", "tuple"])}, rng.randrange(10 ** 6))
    for _ in range(ctx.n(250, 8000) * scale):
        n = rng.randint(0, 7)
        dens = rng.choice([0.2, 0.5, 0.8, 1.0])
        edges = [list(e) for e in itertools.combinations(range(n), 2) if rng.random() < dens]
        # max_order: an int, or None = no bound (the maximal-clique branch of _cliques_to_fill; with `ps` that form raises
        # TypeError in `ps[: max_order - 1]` and is not an admissible combination)
        mo = rng.choice([1, 2, 3, 4, None, None])
        r = rng.random()
        ps = None if (r < 0.5 or mo is None) else [rng.choice(PS) for _ in range(rng.randint(1, 3))]
        fa = {"n": n, "edges": edges, "max_order": mo, "ps": ps}
        if ps is not None and rng.random() < 0.45:
            fa["ps_shape"] = rng.choice(["tuple", "array", "array"])
        # the graph's node labels: integers, strings, tuples (networkx.grid_2d_graph), integers above 2**53, int/str mixed
        lb = rng.choice(["int", "int", "int", "str", "tuple", "big", "mixed"])
        fd = {"n": n, "edges": edges, "p2": rng.choice([None, 0.0, 1.0, 0.5])}
        if lb != "int":
            fa["labels"], fd["labels"] = lb, lb
        add("flag_complex", fa, rng.randrange(10 ** 6))
        add("flag_complex_d2", fd, rng.randrange(10 ** 6))
        add("random_flag_complex", {"n": n, "p": rng.choice(PS), "max_order": rng.choice([1, 2, 3, None])}, rng.randrange(10 ** 6))
        add("random_flag_complex_d2", {"n": n, "p": rng.choice(PS)}, rng.randrange(10 ** 6))
    return cases


def h2_cases(ctx):
    """second hardening round: the randomizing generator shuffle_hyperedges (predicate only), and REGIME cases - one large
    network (>= 70 node IDs) per generator family and run, predicate only (`nomodel`)"""
    rng = ctx.rng
    cases = []
    # shuffle_hyperedges on small inputs: labels x classes x p in {0, 1, in between}; inputs mostly without repeated edges
    for _ in range(ctx.n(160, 3000)):
        n = rng.randint(2, 7)
        d = rng.randint(1, min(3, n - 1))
        ne = rng.randint(1, 7)
        edges, seen = [], set()
        for _e in range(ne):
            size = d + 1 if (not edges or rng.random() < 0.5) else rng.randint(1, min(4, n))
            e = sorted(rng.sample(range(n), size))
            if tuple(e) in seen and not (rng.random() < 0.1 and math.comb(n, d + 1) > ne + 1):
                continue
            seen.add(tuple(e))
            edges.append(e)
        args = {"n": n, "edges": edges, "order": d, "p": rng.choice([0, 1, 1.0, 1.0, 0.5, 0.8])}
        lb = rng.choice(["int", "int", "str", "tuple", "big", "mixed"])
        if lb != "int":
            args["labels"] = lb
        cl = rng.choice(["Hypergraph", "Hypergraph", "Hypergraph", "SimplicialComplex", "subclass"])
        if cl != "Hypergraph":
            args["cls"] = cl
        if rng.random() < 0.2:
            args["ints"] = "np"
        e0 = sorted(rng.sample(range(n), rng.randint(1, min(4, n))))
        # (the earlier state must not contain a repeated edge: a rejection loop cannot end when every subset of that size is taken)
        if rng.random() < 0.3 and cl != "SimplicialComplex" and e0 not in edges and len({tuple(e) for e in edges}) == len(edges):
            args["held"] = {"edge0": e0, "order": len(e0) - 1 if rng.random() < 0.5 else len(edges[0]) - 1, "p": rng.choice([1.0, 0.5])}
        cases.append({"f": "shuffle_hyperedges", "args": args, "seed": rng.randrange(10 ** 6)})
    # node_swap: two nodes that both lie in an edge of the order (admissible arguments), all label schemes incl. negative ints
    for _ in range(ctx.n(80, 1500)):
        n = rng.randint(2, 7)
        edges = []
        for _e in range(rng.randint(1, 6)):
            edges.append(sorted(rng.sample(range(n), rng.randint(1, min(4, n)))))
        d = rng.choice([None, None] + sorted({len(e) - 1 for e in edges if len(e) >= 2}))
        pool = sorted({x for e in edges if d is None or len(e) == d + 1 for x in e})
        if len(pool) < 2:
            continue
        x1, x2 = rng.sample(pool, 2)
        args = {"n": n, "edges": edges, "nid1": x1, "nid2": x2, "order": d}
        lb = rng.choice(["int", "str", "tuple", "big", "mixed", "neg", "neg"])
        if lb != "int":
            args["labels"] = lb
        cases.append({"f": "node_swap", "args": args, "seed": None})
    # flag complexes on a graph object that the generator has seen before (other options, one edge swapped)
    for _ in range(ctx.n(80, 1500)):
        n = rng.randint(3, 7)
        allp = [list(e) for e in itertools.combinations(range(n), 2)]
        edges = [e for e in allp if rng.random() < rng.choice([0.5, 0.8, 1.0])]
        edges0 = list(edges)
        if edges0 and len(edges0) < len(allp):
            edges0[rng.randrange(len(edges0))] = rng.choice([e for e in allp if e not in edges])
        mo = rng.choice([1, 2, 3, 4])
        ps = rng.choice([None, None, [rng.choice(PS) for _ in range(rng.randint(1, 3))]])
        lb = rng.choice(["int", "str", "big"])
        fa = {"n": n, "edges": edges, "max_order": mo, "ps": ps,
              "held": {"edges0": edges0, "max_order": rng.choice([x for x in (1, 2, 3, 4) if x != mo]), "ps": rng.choice([None, [0.5, 0.5, 0.5]])}}
        fd = {"n": n, "edges": edges, "p2": rng.choice([None, 0.0, 1.0, 0.5]), "held": {"edges0": edges0, "p2": rng.choice([None, 1.0, 0.0])}}
        if lb != "int":
            fa["labels"], fd["labels"] = lb, lb
        cases.append({"f": "flag_complex", "args": fa, "seed": rng.randrange(10 ** 6)})
        cases.append({"f": "flag_complex_d2", "args": fd, "seed": rng.randrange(10 ** 6)})
    # REGIME: large inputs, predicate only
    big = lambda args: args
    n = rng.randint(70, 90)
    ring = [[i, (i + 1) % n] for i in range(n)] + [[i, (i + 1) % n, (i + 2) % n] for i in range(0, n, 2)]
    ring = [sorted(e) for e in ring]
    for d, lb in ((1, "mixed"), (2, "big"), (1, "tuple")):
        cases.append({"f": "shuffle_hyperedges", "args": big({"n": n, "edges": ring, "order": d, "p": rng.choice([0.5, 1.0]), "labels": lb}),
                      "seed": rng.randrange(10 ** 6)})
    gedges = [[a, b] for a in range(n) for b in range(a + 1, n) if rng.random() < 0.07]
    cases.append({"f": "flag_complex", "args": big({"n": n, "edges": gedges, "max_order": 2, "ps": None, "labels": rng.choice(["str", "big"])}),
                  "seed": rng.randrange(10 ** 6)})
    cases.append({"f": "flag_complex", "args": big({"n": n, "edges": gedges, "max_order": 3, "ps": [0.5, 1.0], "ps_shape": "list"}),
                  "seed": rng.randrange(10 ** 6)})
    cases.append({"f": "flag_complex_d2", "args": big({"n": n, "edges": gedges, "p2": 0.5}), "seed": rng.randrange(10 ** 6)})
    cases.append({"f": "random_flag_complex", "args": big({"n": n, "p": 0.06, "max_order": 2}), "seed": rng.randrange(10 ** 6)})
    cases.append({"f": "random_simplicial_complex", "args": big({"n": n, "ps": [0.01, 0.0005], "ps_shape": "list"}), "seed": rng.randrange(10 ** 6)})
    cases.append({"f": "fast_random_hypergraph", "args": big({"n": n, "ps": [0.003, 0.00005], "order": None}), "seed": rng.randrange(10 ** 6)})
    cases.append({"f": "random_hypergraph", "args": big({"n": 70, "ps": [0.01], "order": None}), "seed": rng.randrange(10 ** 6)})
    cases.append({"f": "uniform_erdos_renyi_hypergraph", "args": big({"n": n, "m": 3, "p": 0.0005, "multiedges": False}), "seed": rng.randrange(10 ** 6)})
    cases.append({"f": "uniform_hypergraph_configuration_model", "args": big({"k": [[i, rng.randint(0, 3)] for i in range(n)], "m": 3}),
                  "seed": rng.randrange(10 ** 6)})
    cases.append({"f": "chung_lu_hypergraph", "args": big({"k1": [[i, rng.randint(0, 3)] for i in range(n)],
                                                           "k2": [[j, rng.randint(1, 4)] for j in range(n - 5)]}), "seed": rng.randrange(10 ** 6)})
    cases.append({"f": "watts_strogatz_hypergraph", "args": big({"n": n, "d": 3, "k": 2, "l": 1, "p": 0.3}), "seed": rng.randrange(10 ** 6)})
    cases.append({"f": "ring_lattice", "args": big({"n": n, "d": 3, "k": 4, "l": 1}), "seed": None})
    cases.append({"f": "complete_hypergraph", "args": big({"n": 70, "order": 1}), "seed": None})
    cases.append({"f": "star_clique", "args": big({"n_star": 45, "n_clique": 30, "d_max": 2}), "seed": None})
    cases.append({"f": "sunflower", "args": big({"l": 30, "c": 2, "m": 5}), "seed": None})
    cases.append({"f": "uniform_HSBM", "args": big({"m": 2, "sizes": [40, 35], "p": [[0.01, 0.002], [0.002, 0.01]]}), "seed": rng.randrange(10 ** 6)})
    for c in cases:
        if c["f"] not in ("shuffle_hyperedges", "node_swap") or c["args"]["n"] >= 70:
            c["nomodel"] = True
    return cases


def corpus_cases():
    out = []
    for p in sorted(glob.glob(os.path.join(VERIF, "corpus", "C16", "*.json"))):
        j = json.load(open(p))
        out.append(j.get("case", j))
    return out


# ------------------------------------------------------------------------------------------- run

# generators whose exceptions are part of the model (the model must answer the same exception class)
ERR_MODELLED = {"fast_random_hypergraph", "random_hypergraph", "watts_strogatz_hypergraph", "chung_lu_hypergraph", "dcsbm_hypergraph", "uniform_HPPM", "uniform_erdos_renyi_degree"}


def nontrivial(snap):
    return isinstance(snap, dict) and any(len(e) >= 2 for e in snap.get("edges", []))


def evaluate(ctx, cases, reqs, expect):
    for case in cases:
        if LAST["expired"][case["f"]] >= MAX_EXPIRIES:
            # already reported `nonterminating` MAX_EXPIRIES times for this generator: the verdict stands, the check must end
            ctx.stats["skipped-after-nontermination:" + case["f"]] += 1
            continue
        LAST["f"] = case["f"]
        r = run_case(case)
        ctx.evaluations += 1
        ctx.stats["gen:" + case["f"]] += 1
        if case.get("nomodel"):
            r["req"] = None       # REGIME cases (large networks): predicate only, the interpreted model is not run at that size
            ctx.stats["regime:predicate-only"] += 1
        for kk in ("ps_shape", "order_shape", "sizes_shape", "ints", "labels", "cls"):
            if kk in case["args"]:
                ctx.stats[f"shape:{kk}={case['args'][kk]}"] += 1
        if "held" in case["args"]:
            ctx.stats["held-object:" + case["f"]] += 1
        if "max_order" in case["args"] and case["args"]["max_order"] is None and case["f"].endswith("flag_complex"):
            ctx.stats["shape:max_order=None"] += 1
        impl = r["impl"]
        if "out" in impl:
            ctx.stats["impl_" + impl["out"]] += 1
        elif nontrivial(impl):
            ctx.nontrivial.add(jhash([case["f"], impl["nodes"], impl["edges"]]))
        for cls, detail in r["fails"]:
            ctx.violation(case["f"], cls, case, detail=detail)
        rec = LAST["rec"]
        if rec is not None:
            ctx.stats["draws:geometric"] += len(rec.gaps)
            ctx.stats["draws:other"] += len(rec.rands) + len(rec.samples) + sum(int(np.size(x)) for x in rec.nprand)
            if any(not (g >= 1) for g in rec.gaps):
                ctx.violation("geometric", "gap-below-one", case, detail=f"geometric() returned {[g for g in rec.gaps if not g >= 1][:3]}")
                r["req"] = None      # the model's oracle is a list of gaps >= 1 (naturals): this draw is outside it, the violation is the report
        # samples: the first corpus case, then a few cases picked by a case-local coin (not always the same first ones)
        if not ctx.samples or jhash([ctx.seed, case]).endswith(("00", "01")):
            ctx.sample({"case": case, "impl": {k: v for k, v in impl.items() if k != "node_list"}}, cap=4)
        if r["req"] is not None and ("out" not in impl or (r["req"]["f"] in ERR_MODELLED and impl["out"] != "err:Timeout")):
            reqs.append(r["req"])
            expect.append((case, impl, r["ordered"]))


def compare(ctx, reqs, expect):
    """replay the recorded oracles through the model and diff"""
    dis = []
    if not reqs:
        return dis
    resps = run_driver("C16", reqs)
    for req, (case, impl, ordered), m in zip(reqs, expect, resps):
        if m.get("out") == "bad-op":
            raise Infra(f"model C16 rejected request (harness defect): {json.dumps(req)[:300]}")
        if m.get("out") == "unmodelled":
            ctx.stats["unmodelled:" + req["f"]] += 1
            # a recorded oracle the model cannot consume means the model's control flow differs from the code's
            dis.append((case, impl, m, "model could not consume the recorded oracle"))
            continue
        ctx.traces += 1
        mc = canon(m)
        if req["f"].startswith("decode_"):
            same = mc.get("all") == impl["all"] and mc.get("ref") == impl["ref"] and mc.get("count") == impl["count"]
        elif req["f"].startswith("index_to_edge_"):
            same = mc.get("c") == impl["c"]
        elif "out" in impl or "out" in mc:
            same = mc.get("out") == impl.get("out")      # the same exception class
        elif req["f"] in ("chung_lu_hypergraph", "dcsbm_hypergraph"):
            # node order (= stable sort by decreasing degree), edge dict in creation order, all draws consumed
            same = mc["nodes"] == impl["node_list"] and mc["edges"] == impl["edge_dict"] and mc["rest"] == 0
        else:
            me, ie = mc["edges"], impl["edges"]
            if not ordered:
                me, ie = sorted(me), sorted(ie)
            same = sorted(mc["nodes"]) == impl["nodes"] and me == ie and mc.get("rest", 0) == 0 and req.get("extra", 0) == 0
            if req["f"] == "uniform_HPPM":
                T = impl.get("tensor", [])
                vals = len(T) == len(mc["tensor"]) and all(approx_equal(x, q) for x, q in zip(T, mc["tensor"])) and impl.get("sizes") == mc["sizes"]
                if vals and [kind(x) for x in T] != mc["pks"]:
                    # a float that rounds to exactly 0 / 1 where the exact value does not (or vice versa): the branch taken differs
                    ctx.stats["float-boundary:uniform_HPPM"] += 1
                    continue
                same = same and vals
            if req["f"] == "uniform_erdos_renyi_degree" and "q" in impl:
                same = same and mc.get("q") is not None and approx_equal(impl["q"], mc["q"])
        if not same:
            dis.append((case, impl, mc, "outputs differ"))
    for case, impl, mc, why in dis:
        ctx.stats["disagree:" + case["f"]] += 1
    if dis:
        ctx.extra.setdefault("disagreements", [])
        for case, impl, mc, why in dis[:5]:
            ctx.extra["disagreements"].append({"case": case, "impl": {k: v for k, v in impl.items() if k != "node_list"}, "model": mc, "why": why})
        ctx.extra["disagreements_total"] = ctx.extra.get("disagreements_total", 0) + len(dis)
        ctx.broken.append(f"correspondence C16 generators~Gen.lean: model and implementation differ on {len(dis)} of {len(reqs)} cases "
                          f"(functions: {sorted({c['f'] for c, _, _, _ in dis})})")
    return dis


def run(ctx):
    ok = build_and_audit(ctx, "XgiModel.Props.C16", ["XgiModel.C16.Drive"])
    ctx.rule = ("decoders: every (n, m) / size list up to the bound, all indices; generators: parameter grids (n<=8, m<=4, "
                "orders 0..4 as None / list / array / one int, ps as list / array / one float, p in {0, 1, 0.3, 0.9} (0 and 1 also as ints) plus boundary "
                "values, len(ps) != len(order), int parameters as numpy integers in a quarter of the cases, degree/size sequences incl. zero / all-zero / saturating "
                "entries, communities and omega matrices with zero blocks, block sizes, mean degrees incl. the ones giving q = 0, 1, > 1, "
                "HPPM (k, epsilon, rho) incl. out-of-range values, the whole (n, d, k, l) lattice grid x p in {0, .3, .7, 1}, random graphs "
                "on <=7 nodes with max_order in {1..4, None}, node labels int / str / tuple / > 2**53 / mixed, ps as list / tuple / array) x seeds drawn from "
                "VERIF_SEED, RNG draws recorded (or forced) and replayed through the model; shuffle_hyperedges on <=7 nodes x 5 label schemes x "
                "{Hypergraph, subclass, SimplicialComplex} (predicate only); node_swap on <=7 nodes x 6 label schemes incl. negative ints (predicate only); held-object cases (the graph / network object went through the generator "
                "before, other options, one edge swapped); one 70-90 node case per generator family (predicate only); "
                "non-trivial = distinct generated network with an edge of >= 2 nodes")
    reqs, expect = [], []
    # decoders: exhaustive small scope, model vs helpers vs itertools
    for c in decoder_cases(ctx):
        impl, fails = run_decoder(c)
        ctx.evaluations += 1
        ctx.stats["fn:" + c["f"]] += 1
        if impl["count"] > 1:
            ctx.nontrivial.add(jhash(c))
        for site, cls, detail in fails:
            ctx.violation(site, cls, {"f": c["f"], "args": {k: v for k, v in c.items() if k != "f"}}, detail=detail)
        if impl["all"] is not None:      # (a decoder that raised / did not return: the violation above is the report)
            reqs.append(c)
            expect.append(({"f": c["f"], "args": c}, impl, True))
    # decoders beyond the exhaustive scope: single large indices (boundaries, ends, drawn), see big_decoder_cases
    for c in big_decoder_cases(ctx):
        got, fails, mreqs = run_decoder_big(c)
        ctx.evaluations += len(c["indices"])
        ctx.stats["fn:decode_big:" + c["which"]] += len(c["indices"])
        ctx.nontrivial.add(jhash(c))
        for site, cls, detail in fails:
            ctx.violation(site, cls, {"f": "decode_big", "args": {k: v for k, v in c.items() if k != "f"}}, detail=detail)
        for rq, g in mreqs:
            reqs.append(rq)
            expect.append(({"f": rq["f"], "args": rq}, {"c": g}, True))
    # `exhaustive` describes the decoder sweep only, and only the thorough tier reaches the bound the design names (n <= 9);
    # the generator cases below are sampled in both tiers
    ctx.exhaustive = not ctx.quick
    ctx.extra["exhaustive_scope"] = ("ONLY the three index decoders are enumerated completely (every valid index, implementation vs model vs "
                                     f"itertools): _index_to_edge_comb all n<={ctx.n(7, 9)}, m<=n; _index_to_edge_prod n<{ctx.n(5, 7)}, "
                                     f"m<{ctx.n(4, 5)}; _index_to_edge_partition all size lists of length <={ctx.n(3, 4)} over 0..{ctx.n(4, 5) - 1}"
                                     + (" (quick tier: smaller bounds than the thorough sweep, hence exhaustive=false)" if ctx.quick else "")
                                     + ". The generators are NOT enumerated: parameter grids x sampled seeds.")
    geometric_boundaries(ctx)
    evaluate(ctx, corpus_cases(), reqs, expect)
    evaluate(ctx, gen_cases(ctx), reqs, expect)
    evaluate(ctx, h2_cases(ctx), reqs, expect)
    dis = compare(ctx, reqs, expect)
    for kk, vv in LAST["boundary"].items():
        ctx.stats[kk] += vv
    LAST["boundary"].clear()
    ctx.stats["cpu-budget-retries"] += LAST["retries"]      # calls repeated with 10x the CPU budget after a first expiry
    LAST["retries"] = 0
    if (dis or not ok) and not [v for v in unlisted_violations(ctx) if v["kind"] == "concrete"]:
        # (violations covered by known_findings do not count here: a listed finding must not mask a broken tie)
        # search harder on the implementation: the predicate on many more seeds of the generators involved
        more = gen_cases(ctx, scale=4)
        involved = {c["f"] for c, _, _, _ in dis}
        if involved:
            more = [c for c in more if c["f"] in involved]
        evaluate(ctx, more, [], [])
        if not unlisted_violations(ctx):
            ctx.violation("model-tie", "unproven", {"broken": ctx.broken, "example": ctx.extra.get("disagreements", [])[:1]},
                          detail="; ".join(ctx.broken)[:500], kind="unproven", broken=ctx.broken)
    ctx.assumptions = [
        "node labels are range(n) (or the integer keys of the degree dict) for the generators that create their own nodes; the generators "
        "that take a graph or a network (flag_complex, flag_complex_d2, shuffle_hyperedges) also get str, tuple, > 2**53 and int/str mixed "
        "labels, read back through the inverse label map; probabilities enter the model only through the branch taken (== 0, == 1, "
        "otherwise) and through the recorded draws",
        "configuration model: 'never exceed the prescribed degrees' is strict for sequences with sum(k) % m == 0; a sequence with a remainder "
        "is announced as not realizable (warning) and the documented adjustment raises m - remainder randomly chosen nodes by one: bound "
        "prescribed + 1 on exactly those nodes (counted under config-model:*); the caller's dict k is copied for every call (the function "
        "writes the adjustment into the dict it is given)",
        "shuffle_hyperedges has no Lean model (predicate only); 'no repeated edge' is judged on inputs without repeated edges only; REGIME "
        "cases (70-90 nodes) are predicate only",
        "geometric(p) >= 1 for every draw (checked on every recorded draw, including p = 1e-18, 1-1e-16); np.inf is replayed as 2**40",
        "no open finding; fixed in /repo during the second hardening round and kept in corpus/C16: flag_complex / flag_complex_d2 with tuple or "
        "int/str mixed node labels and flag_complex with a numpy array `ps` (fec8f05), shuffle_hyperedges repeating edges (eb5e027), node_swap on a "
        "network with a node labelled -1 (90fdbc9), _index_to_edge_partition above 2**53 (04eeed5).  "
        "A flag complex holds the cliques with at least two nodes: a 1-node simplex is reported (singleton-simplex; fixed in /repo 6782803)",
        "every generator call runs under a CPU-time budget (2 s, sunflower 0.3 s; ITIMER_VIRTUAL) and is repeated once with ten times the "
        "budget before an expiry is reported as `nonterminating`",
        "itertools.combinations/product, scipy.special.comb, np.prod, networkx.enumerate_all_cliques/fast_gnp_random_graph appear as the pure "
        "functions they are documented to be; SimplicialComplex.add_simplices_from as face closure (C03)",
        "decoders: exhaustive only up to the small bound; above it single indices (boundaries, ends, drawn) in index spaces beyond 2**53; the "
        "combination decoder at that size is judged by the rank predicate alone (the model's Pascal-recursion choose is not runnable there)",
        "chung_lu / dcsbm / HPPM / mean-degree arithmetic is exact (Rat) in the model and binary floating point in the code: the uniform "
        "draws r are sent as the exact dyadic rationals they are, so `r < q / p` can differ only when r falls between the float and the "
        "exact quotient (not observed; it would show up as a correspondence failure, never silently); an HPPM tensor entry that "
        "rounds to exactly 0 or 1 where the exact value does not is counted under float-boundary and skipped",
        "dcsbm: omega is a non-negative integer numpy array indexed by the group ids, g1 / g2 are dicts on exactly the keys of k1 / k2; "
        "degrees and sizes are non-negative ints; watts_strogatz: d >= 1",
        "np.random.choice(others, size=d-1, replace=False) returns d-1 distinct elements of `others` (checked on every recorded draw by "
        "the model: an inadmissible recorded choice is answered `unmodelled`, which is a correspondence failure)",
    ]
    LAST["expired"].clear()
    return finish(ctx, trusted_base=TRUSTED_COMMON + [
        "harness/props/c16.py: RNG recording by monkeypatching (geometric, random.random, random.sample, np.random.random, "
        "np.random.choice, fast_gnp_random_graph, uniform_HSBM as called by uniform_HPPM), brute-force references (itertools subsets, "
        "clique enumeration by adjacency test, Fraction arithmetic for the HPPM tensor and the mean-degree conversion)"])


def replay(ctx, path):
    """./check C16 --replay <file>: re-run the stored generator call / decoder sweep and re-evaluate the predicate"""
    j = json.load(open(path))
    case = j.get("case", j)
    if case["f"] == "decode_big":
        _, fails, _ = run_decoder_big(dict(case["args"], f=case["f"]))
        fails = [(cls, d) for _, cls, d in fails]
    elif case["f"].startswith("decode_"):
        _, fails = run_decoder(dict(case["args"], f=case["f"]))
        fails = [(cls, d) for _, cls, d in fails]
    elif case["f"] == "geometric":
        c2 = type("C", (), {"evaluations": 0, "stats": Counter(), "violations": []})()
        c2.violation = lambda site, cls, case, detail="": c2.violations.append((cls, detail))
        geometric_boundaries(c2)
        fails = c2.violations
    else:
        fails = run_case(case)["fails"]
    if not fails:
        print(f"C16 replay {path}: predicate holds")
        return 0
    for cls, detail in fails:
        print(f"C16 replay {path}: VIOLATION {case['f']} class={cls}: {detail}")
    return 1
